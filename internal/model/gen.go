package model

import (
	"fmt"

	"github.com/freeconf/yang/meta"
	"github.com/freeconf/yang/val"
)

// Alpha fixes the value alphabets of the bounded tree generator.
type Alpha struct {
	// LeafVals gives candidate values of a non-key leaf (unset is always a candidate too).
	LeafVals func(l meta.Leafable) []val.Value
	// Keys gives the key tuples a list may use.
	Keys func(l *meta.List) [][]val.Value
	// MaxEntries bounds entries per list.
	MaxEntries int
	// EmptyLists also generates present-but-empty lists.
	EmptyLists bool
	// AllOrders generates every order of the chosen entries, else ascending alphabet order only.
	AllOrders bool
}

// DefaultAlpha: two values per leaf, three keys per list.
func DefaultAlpha() Alpha {
	return Alpha{
		LeafVals:   DefaultLeafVals,
		Keys:       DefaultKeys,
		MaxEntries: 2,
	}
}

// ScalarVals gives n distinct values of a leaf's type (simplest first).
func ScalarVals(t *meta.Type, n int) []val.Value {
	var out []val.Value
	f := t.Format()
	single := f.Single()
	mk := func(i int) val.Value {
		switch single {
		case val.FmtString:
			return val.String(string(rune('a' + i)))
		case val.FmtInt8:
			return val.Int8(i + 1)
		case val.FmtInt16:
			return val.Int16(i + 1)
		case val.FmtInt32:
			return val.Int32(i + 1)
		case val.FmtInt64:
			return val.Int64(i + 1)
		case val.FmtUInt8:
			return val.UInt8(i + 1)
		case val.FmtUInt16:
			return val.UInt16(i + 1)
		case val.FmtUInt32:
			return val.UInt32(i + 1)
		case val.FmtUInt64:
			return val.UInt64(i + 1)
		case val.FmtDecimal64:
			return val.Decimal64(float64(i) + 1.5)
		case val.FmtBool:
			if i > 1 {
				return nil
			}
			return val.Bool(i == 0)
		case val.FmtEnum:
			en := t.Enum()
			if i >= len(en) {
				return nil
			}
			return en[i]
		case val.FmtEmpty:
			if i > 0 {
				return nil
			}
			return val.NotEmpty
		case val.FmtIdentityRef:
			if len(t.Base()) == 0 {
				return nil
			}
			d := t.Base()[0].DerivedDirect()
			if i >= len(d) {
				return nil
			}
			return val.IdentRef{Label: d[i].Ident()}
		}
		return nil
	}
	for i := 0; i < n; i++ {
		v := mk(i)
		if v == nil {
			break
		}
		out = append(out, v)
	}
	return out
}

// ListOf wraps scalar values into the list form of their format.
func ListOf(vs ...val.Value) val.Value {
	if len(vs) == 0 {
		return nil
	}
	switch vs[0].(type) {
	case val.String:
		var l []string
		for _, v := range vs {
			l = append(l, string(v.(val.String)))
		}
		return val.StringList(l)
	case val.Int32:
		var l []int32
		for _, v := range vs {
			l = append(l, int32(v.(val.Int32)))
		}
		return val.Int32List(l)
	}
	if l := ListOfAny(vs); l != nil {
		return l
	}
	panic(fmt.Sprintf("ListOf: unsupported %T", vs[0]))
}

func DefaultLeafVals(l meta.Leafable) []val.Value {
	t := l.Type()
	if t.Format().IsList() {
		s := ScalarVals(t, 2)
		if len(s) < 2 {
			return nil
		}
		switch s[0].(type) {
		case val.String, val.Int32:
			return []val.Value{ListOf(s[0]), ListOf(s[1], s[0])}
		}
		return nil
	}
	return ScalarVals(t, 2)
}

func DefaultKeys(l *meta.List) [][]val.Value {
	km := l.KeyMeta()
	if len(km) == 0 {
		return nil
	}
	var out [][]val.Value
	if len(km) == 1 {
		for _, v := range ScalarVals(km[0].Type(), 3) {
			out = append(out, []val.Value{v})
		}
		return out
	}
	// compound: 2 values of the first component x 2 of the second (others fixed)
	a := ScalarVals(km[0].Type(), 2)
	b := ScalarVals(km[1].Type(), 2)
	for _, x := range a {
		for _, y := range b {
			k := []val.Value{x, y}
			for _, rest := range km[2:] {
				k = append(k, ScalarVals(rest.Type(), 1)[0])
			}
			out = append(out, k)
		}
	}
	return out
}

// DistinctFirstKeys is DefaultKeys restricted, for compound keys, to tuples
// whose first components differ (map-backed lists index by the first key).
func DistinctFirstKeys(l *meta.List) [][]val.Value {
	all := DefaultKeys(l)
	if len(l.KeyMeta()) < 2 {
		return all
	}
	seen := map[string]bool{}
	var out [][]val.Value
	for i, k := range all {
		// pick (a0,b0), (a1,b1): vary the second component too
		if i == 0 || i == len(all)-1 {
			c := CanonVal(k[0])
			if !seen[c] {
				seen[c] = true
				out = append(out, k)
			}
		}
	}
	return out
}

type opt struct {
	size  int
	apply func(t *Tree)
}

func isKeyLeaf(d meta.Definition) bool {
	lf, ok := d.(*meta.Leaf)
	if !ok {
		return false
	}
	l, ok := lf.Parent().(*meta.List)
	if !ok {
		return false
	}
	for _, k := range l.KeyMeta() {
		if k.Ident() == lf.Ident() {
			return true
		}
	}
	return false
}

// defOpts lists the ways a single definition can be populated within budget
// (the empty way, size 0, is always first).
func defOpts(d meta.Definition, budget int, a Alpha) []opt {
	opts := []opt{{0, func(*Tree) {}}}
	if budget <= 0 {
		return opts
	}
	switch x := d.(type) {
	case *meta.Choice:
		for _, id := range CaseIds(x) {
			c := x.Cases()[id]
			for _, o := range seqOpts(c.DataDefinitions(), budget, a) {
				if o.size > 0 {
					opts = append(opts, o)
				}
			}
		}
	case *meta.List:
		id := x.Ident()
		if a.EmptyLists {
			opts = append(opts, opt{1, func(t *Tree) { t.Lists[id] = &List{} }})
		}
		keys := a.Keys(x)
		var nonKey []meta.Definition
		for _, dd := range x.DataDefinitions() {
			if !isKeyLeaf(dd) {
				nonKey = append(nonKey, dd)
			}
		}
		km := x.KeyMeta()
		// entries: sequences of distinct keys, each with content
		var rec func(used []int, remaining int, sofar []func() *Tree)
		rec = func(used []int, remaining int, sofar []func() *Tree) {
			if len(sofar) > 0 {
				mk := append([]func() *Tree{}, sofar...)
				opts = append(opts, opt{budget - remaining, func(t *Tree) {
					l := &List{}
					for _, f := range mk {
						l.Entries = append(l.Entries, f())
					}
					t.Lists[id] = l
				}})
			}
			if len(sofar) >= a.MaxEntries || remaining <= 0 {
				return
			}
			for ki := range keys {
				dup := false
				for _, u := range used {
					if u == ki {
						dup = true
					}
				}
				if dup {
					continue
				}
				if !a.AllOrders && len(used) > 0 && ki < used[len(used)-1] {
					continue
				}
				key := keys[ki]
				for _, co := range seqOpts(nonKey, remaining-1, a) {
					co := co
					mkEntry := func() *Tree {
						e := NewTree()
						for i, k := range km {
							e.Leaves[k.Ident()] = L(key[i])
						}
						co.apply(e)
						return e
					}
					rec(append(append([]int{}, used...), ki), remaining-1-co.size, append(append([]func() *Tree{}, sofar...), mkEntry))
				}
			}
		}
		if len(keys) > 0 {
			rec(nil, budget, nil)
		}
	case meta.HasDataDefinitions: // container
		id := x.Ident()
		for _, co := range seqOpts(x.DataDefinitions(), budget-1, a) {
			co := co
			opts = append(opts, opt{1 + co.size, func(t *Tree) {
				c := NewTree()
				co.apply(c)
				t.Conts[id] = c
			}})
		}
	case meta.Leafable:
		id := x.Ident()
		for _, v := range a.LeafVals(x) {
			v := v
			opts = append(opts, opt{1, func(t *Tree) { t.Leaves[id] = L(v) }})
		}
	}
	return opts
}

// seqOpts is the product over a definition sequence within the budget.
func seqOpts(defs []meta.Definition, budget int, a Alpha) []opt {
	if len(defs) == 0 {
		return []opt{{0, func(*Tree) {}}}
	}
	var out []opt
	for _, h := range defOpts(defs[0], budget, a) {
		h := h
		for _, r := range seqOpts(defs[1:], budget-h.size, a) {
			r := r
			out = append(out, opt{h.size + r.size, func(t *Tree) { h.apply(t); r.apply(t) }})
		}
	}
	return out
}

// GenTrees enumerates every conforming tree over defs with at most maxSize
// nodes, smallest first within the generation order (empty tree first).
func GenTrees(defs []meta.Definition, maxSize int, a Alpha) []*Tree {
	var out []*Tree
	for _, o := range seqOpts(defs, maxSize, a) {
		t := NewTree()
		o.apply(t)
		out = append(out, t)
	}
	// stable order by size
	bySize := make([][]*Tree, maxSize+1)
	for _, t := range out {
		s := t.Size()
		if s > maxSize {
			s = maxSize
		}
		bySize[s] = append(bySize[s], t)
	}
	out = out[:0]
	for _, b := range bySize {
		out = append(out, b...)
	}
	return out
}
