package model

import (
	"math"

	"github.com/freeconf/yang/meta"
	"github.com/freeconf/yang/val"
)

// TextAlphabet: structural classes of characters for string-valued leaves.
var TextAlphabet = []string{"", "a", `"`, `\`, "/", "a b", " lead", "trail ", "\t", "\n", "\r", "\u0001", "\u001f", "\u007f", "<>&", "'", "]]>", " ", "é", "中", "\U0001F600", "{}[],:", "null", "5"}

// CharAlphabet: every single code point U+0000..U+00FF as a one-character string embedded in
// "x?y" (so trimming and position effects do not mask it), plus the encoding boundaries.
func CharAlphabet() []string {
	var out []string
	for r := rune(0); r <= 0xFF; r++ {
		out = append(out, "x"+string(r)+"y")
	}
	for _, r := range []rune{0x100, 0x7FF, 0x800, 0x2028, 0x2029, 0xD7FF, 0xE000, 0xFEFF, 0xFFFD, 0xFFFE, 0xFFFF, 0x10000, 0x10FFFF} {
		out = append(out, "x"+string(r)+"y")
	}
	return out
}

// FullVals gives the full value alphabet of a leaf (boundary values of its
// type); used one leaf at a time while the rest of a tree stays at baseline.
func FullVals(l meta.Leafable) []val.Value {
	t := l.Type()
	if t.Format().Single() == val.FmtLeafRef {
		// values of the leaf referred to (scalar alphabet, list forms built below)
		return fullValsOf(t.Resolve(), t.Format().IsList())
	}
	return fullValsOf(t, t.Format().IsList())
}

func fullValsOf(t *meta.Type, asList bool) []val.Value {
	var out []val.Value
	single := t.Format().Single()
	switch single {
	case val.FmtString:
		for _, s := range TextAlphabet {
			out = append(out, val.String(s))
		}
		for _, s := range CharAlphabet() {
			out = append(out, val.String(s))
		}
	case val.FmtInt8:
		for _, i := range []int8{math.MinInt8, -1, 0, 1, math.MaxInt8} {
			out = append(out, val.Int8(i))
		}
	case val.FmtInt16:
		for _, i := range []int16{math.MinInt16, -1, 0, math.MaxInt16} {
			out = append(out, val.Int16(i))
		}
	case val.FmtInt32:
		for _, i := range []int32{math.MinInt32, -1, 0, 1, math.MaxInt32} {
			out = append(out, val.Int32(i))
		}
	case val.FmtInt64:
		for _, i := range []int64{math.MinInt64, -(1 << 53) - 1, -1, 0, 1<<53 + 1, math.MaxInt64} {
			out = append(out, val.Int64(i))
		}
	case val.FmtUInt8:
		for _, i := range []uint8{0, 1, math.MaxUint8} {
			out = append(out, val.UInt8(i))
		}
	case val.FmtUInt16:
		for _, i := range []uint16{0, math.MaxUint16} {
			out = append(out, val.UInt16(i))
		}
	case val.FmtUInt32:
		for _, i := range []uint32{0, 1 << 31, math.MaxUint32} {
			out = append(out, val.UInt32(i))
		}
	case val.FmtUInt64:
		for _, i := range []uint64{0, 1<<53 + 1, 1 << 63, math.MaxUint64} {
			out = append(out, val.UInt64(i))
		}
	case val.FmtDecimal64:
		for _, f := range []float64{0, 1.5, -1.5, 0.01, -0.01, 1234567.89, 92233720368547758.07, -92233720368547758.08, 100} {
			out = append(out, val.Decimal64(f))
		}
	case val.FmtBool:
		out = append(out, val.Bool(true), val.Bool(false))
	case val.FmtEnum:
		for _, e := range t.Enum() {
			out = append(out, e)
		}
	case val.FmtBits:
		bits := t.Bits()
		mk := func(idx ...int) val.Value {
			b := val.Bits{}
			for _, i := range idx {
				b.Labels = append(b.Labels, bits[i].Ident())
				b.Positions |= 1 << bits[i].Position
			}
			return b
		}
		out = append(out, mk(0), mk(0, 2), mk(0, 1, 2), mk(1))
	case val.FmtIdentityRef:
		for _, id := range []string{"id-a", "id-b"} {
			out = append(out, val.IdentRef{Label: id})
		}
	case val.FmtAny:
		for _, thing := range []interface{}{"text", 1.5, true, map[string]interface{}{"a": 1.0, "b": []interface{}{1.0, "x", nil}, "c": map[string]interface{}{"d": "<&>\u2028"}}, []interface{}{}, []interface{}{map[string]interface{}{"k": "v"}}, map[string]interface{}{}} {
			out = append(out, val.Any{Thing: thing})
		}
	case val.FmtEmpty:
		out = append(out, val.NotEmpty)
	case val.FmtBinary:
		out = append(out, val.Binary("AQID"), val.Binary("/+8="), val.Binary(""))
	case val.FmtUnion:
		if ms := t.Union(); !(len(ms) == 2 && ms[0].Format() == val.FmtInt32 && ms[1].Format() == val.FmtString) {
			// two values of every member type, in member order
			for _, mt := range ms {
				vs := fullValsOf(mt, false)
				if len(vs) > 2 {
					vs = vs[:2]
				}
				out = append(out, vs...)
			}
			break
		}
		out = append(out, val.Int32(5), val.Int32(-1), val.String("x"), val.String(""), val.String("a b"), val.String("true"), val.String(" a "), val.String("<&>"))
		// strings that are lexical values of an earlier member ("42" in union{int32,string}) are not
		// values of the union: RFC 7950 9.12 gives them to the first member that matches
	}
	if !asList {
		return out
	}
	// leaf-lists: one element, three elements (first, last, middle of the scalar alphabet), all elements
	if len(out) == 0 {
		return nil
	}
	pick := [][]val.Value{{out[0]}, {out[len(out)-1], out[0], out[len(out)/2]}, out}
	if t.Format().Single() == val.FmtUnion {
		// a list value of the library holds one member type: lists per type of value
		byType := map[string][]val.Value{}
		var order []string
		for _, v := range out {
			k := v.Format().String()
			if _, seen := byType[k]; !seen {
				order = append(order, k)
			}
			byType[k] = append(byType[k], v)
		}
		pick = nil
		for _, k := range order {
			pick = append(pick, byType[k][:1], byType[k])
		}
	}
	var lists []val.Value
	for _, p := range pick {
		if l := ListOfAny(p); l != nil {
			lists = append(lists, l)
		}
	}
	return lists
}

// ListOfAny builds the list form for any scalar kind used above.
func ListOfAny(vs []val.Value) val.Value {
	if len(vs) == 0 {
		return nil
	}
	switch vs[0].(type) {
	case val.String:
		var l []string
		for _, v := range vs {
			l = append(l, string(v.(val.String)))
		}
		return val.StringList(l)
	case val.Int32:
		var l []int32
		for _, v := range vs {
			l = append(l, int32(v.(val.Int32)))
		}
		return val.Int32List(l)
	case val.Enum:
		var l []val.Enum
		for _, v := range vs {
			l = append(l, v.(val.Enum))
		}
		return val.EnumList(l)
	case val.Bool:
		var l []bool
		for _, v := range vs {
			l = append(l, bool(v.(val.Bool)))
		}
		return val.BoolList(l)
	case val.Decimal64:
		var l []float64
		for _, v := range vs {
			l = append(l, float64(v.(val.Decimal64)))
		}
		return val.Decimal64List(l)
	case val.UInt64:
		var l []uint64
		for _, v := range vs {
			l = append(l, uint64(v.(val.UInt64)))
		}
		return val.UInt64List(l)
	case val.Binary:
		// the library's list form of binary values is a list of their base64 texts
		var l []string
		for _, v := range vs {
			l = append(l, string(v.(val.Binary)))
		}
		return val.StringList(l)
	case val.Int8:
		var l []int8
		for _, v := range vs {
			l = append(l, int8(v.(val.Int8)))
		}
		return val.Int8List(l)
	case val.Int64:
		var l []int64
		for _, v := range vs {
			l = append(l, int64(v.(val.Int64)))
		}
		return val.Int64List(l)
	case val.UInt8:
		var l []uint8
		for _, v := range vs {
			l = append(l, uint8(v.(val.UInt8)))
		}
		return val.UInt8List(l)
	case val.Bits:
		var l []val.Bits
		for _, v := range vs {
			l = append(l, v.(val.Bits))
		}
		return val.BitsList(l)
	case val.IdentRef:
		var l []val.IdentRef
		for _, v := range vs {
			l = append(l, v.(val.IdentRef))
		}
		return val.IdentRefList(l)
	}
	return nil
}
