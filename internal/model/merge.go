package model

import (
	"fmt"

	"github.com/freeconf/yang/meta"
	"github.com/freeconf/yang/val"
)

// Reference semantics of the edit operations (DESIGN.md section 4a).

type Strategy int

const (
	Upsert Strategy = iota + 1
	Insert
	Update
)

func (s Strategy) String() string {
	return [...]string{"?", "upsert", "insert", "update"}[s]
}

type ErrClass int

const (
	OK ErrClass = iota
	Conflict
	NotFound
	Other
)

func (e ErrClass) String() string {
	return [...]string{"ok", "conflict", "not-found", "other-error"}[e]
}

// DefaultOf gives the typed default value of a leaf, or nil.
// The harness converts the default text itself for the simple types used.
type DefaultFn func(l meta.Leafable) val.Value

type Merger struct {
	Default DefaultFn
	// NewEntriesUnordered marks lists created by the merge as unordered
	NewUnordered bool
	// UpsertBelowEntries is the alternate ("as implemented") model in which
	// everything below a list entry is upserted whatever the strategy.
	UpsertBelowEntries bool
}

// selectedCase returns the case of ch that S holds data for (first in
// CaseIdents order), or nil.
func SelectedCase(ch *meta.Choice, s *Tree) *meta.ChoiceCase {
	for _, id := range CaseIds(ch) {
		c := ch.Cases()[id]
		if HasAny(c.DataDefinitions(), s) {
			return c
		}
	}
	return nil
}

// HasAny says whether t holds data for any of defs (through nested choices).
func HasAny(defs []meta.Definition, t *Tree) bool {
	for _, d := range FlatDefs(defs) {
		id := d.Ident()
		if _, ok := t.Leaves[id]; ok {
			return true
		}
		if _, ok := t.Conts[id]; ok {
			return true
		}
		if _, ok := t.Lists[id]; ok {
			return true
		}
	}
	return false
}

func removeAll(defs []meta.Definition, t *Tree) {
	for _, d := range FlatDefs(defs) {
		id := d.Ident()
		delete(t.Leaves, id)
		delete(t.Conts, id)
		delete(t.Lists, id)
	}
}

// ClearOtherCases removes from t the data of every case that excludes m:
// for each enclosing choice of m, all cases other than the one containing m.
func ClearOtherCases(m meta.Meta, t *Tree) {
	cur := m
	for {
		cs, ok := cur.Parent().(*meta.ChoiceCase)
		if !ok {
			return
		}
		ch := cs.Parent().(*meta.Choice)
		for _, id := range CaseIds(ch) {
			other := ch.Cases()[id]
			if other != cs {
				removeAll(other.DataDefinitions(), t)
			}
		}
		cur = ch
	}
}

// MergeContainer applies S over T for a container-like node whose children
// are defs. created says T was just created by this edit (defaults apply).
func (mg Merger) MergeContainer(defs []meta.Definition, s, t *Tree, strat Strategy, created bool) ErrClass {
	for _, d := range defs {
		if ch, ok := d.(*meta.Choice); ok {
			if sel := SelectedCase(ch, s); sel != nil {
				if e := mg.MergeContainer(sel.DataDefinitions(), s, t, strat, created); e != OK {
					return e
				}
			}
			continue
		}
		id := d.Ident()
		switch x := d.(type) {
		case *meta.List:
			sl, ok := s.Lists[id]
			if !ok {
				continue
			}
			tl, exists := t.Lists[id]
			newList := false
			switch strat {
			case Insert:
				if exists {
					return Conflict
				}
			case Update:
				if !exists {
					return NotFound
				}
			}
			if strat == Upsert {
				ClearOtherCases(x, t)
			}
			if !exists {
				tl = &List{Unordered: mg.NewUnordered}
				t.Lists[id] = tl
				newList = true
			}
			_ = newList
			if e := mg.MergeList(x, sl, tl, strat); e != OK {
				return e
			}
		case meta.HasDataDefinitions:
			sc, ok := s.Conts[id]
			if !ok {
				continue
			}
			tc, exists := t.Conts[id]
			switch strat {
			case Insert:
				if exists {
					return Conflict
				}
			case Update:
				if !exists {
					return NotFound
				}
			}
			if strat == Upsert {
				ClearOtherCases(x, t)
			}
			newC := false
			if !exists {
				tc = NewTree()
				t.Conts[id] = tc
				newC = true
			}
			if e := mg.MergeContainer(x.DataDefinitions(), sc, tc, strat, newC); e != OK {
				return e
			}
		case meta.Leafable:
			lf, ok := s.Leaves[id]
			if !ok {
				if created && strat != Update && x.HasDefault() && mg.Default != nil {
					if _, set := t.Leaves[id]; !set {
						if dv := mg.Default(x); dv != nil {
							if strat == Upsert {
								ClearOtherCases(x, t)
							}
							t.Leaves[id] = L(dv)
						}
					}
				}
				continue
			}
			if strat == Upsert {
				ClearOtherCases(x, t)
			}
			t.Leaves[id] = lf
		}
	}
	return OK
}

// MergeList applies the entries of S's list over T's list.
func (mg Merger) MergeList(l *meta.List, sl, tl *List, strat Strategy) ErrClass {
	for _, se := range sl.Entries {
		var te *Tree
		if len(l.KeyMeta()) > 0 {
			k := KeyOf(l, se)
			for _, cand := range tl.Entries {
				if KeyOf(l, cand) == k {
					te = cand
					break
				}
			}
		}
		created := false
		switch strat {
		case Update:
			if te == nil {
				return NotFound
			}
		case Insert:
			if te != nil {
				return Conflict
			}
		}
		if te == nil {
			te = NewTree()
			// a new entry is created with its key
			for _, km := range l.KeyMeta() {
				if lf, ok := se.Leaves[km.Ident()]; ok {
					te.Leaves[km.Ident()] = lf
				}
			}
			tl.Entries = append(tl.Entries, te)
			created = true
		}
		// below a list entry the editor always upserts (statement: insert
		// and update apply their own rule; see C03 notes for the difference)
		sub := strat
		if mg.UpsertBelowEntries {
			sub = Upsert
		}
		if e := mg.MergeContainer(l.DataDefinitions(), se, te, sub, created); e != OK {
			return e
		}
	}
	return OK
}

// CheckUnmentioned verifies that nothing at a path S does not mention
// differs between before and after. Returns "" or a description.
func CheckUnmentioned(defs []meta.Definition, s, before, after *Tree, path string, o CanonOpts) string {
	for _, d := range FlatDefs(defs) {
		id := d.Ident()
		p := path + "/" + id
		switch x := d.(type) {
		case *meta.List:
			bl, bok := before.Lists[id]
			al, aok := after.Lists[id]
			sl, sok := s.Lists[id]
			if !sok {
				if listCanon(x, bl, bok, o) != listCanon(x, al, aok, o) {
					return fmt.Sprintf("list %s not mentioned by the source changed: %s -> %s", p, listCanon(x, bl, bok, o), listCanon(x, al, aok, o))
				}
				continue
			}
			if !bok {
				continue
			}
			if !aok {
				return fmt.Sprintf("list %s disappeared", p)
			}
			mentioned := map[string]*Tree{}
			for _, e := range sl.Entries {
				mentioned[KeyOf(x, e)] = e
			}
			afterBy := map[string]*Tree{}
			for _, e := range al.Entries {
				afterBy[KeyOf(x, e)] = e
			}
			for _, be := range bl.Entries {
				k := KeyOf(x, be)
				ae, ok := afterBy[k]
				if !ok {
					return fmt.Sprintf("entry %s=%s disappeared", p, k)
				}
				if se, m := mentioned[k]; m {
					if msg := CheckUnmentioned(x.DataDefinitions(), se, be, ae, p+"="+k, o); msg != "" {
						return msg
					}
				} else if be.Canon(x.DataDefinitions(), o) != ae.Canon(x.DataDefinitions(), o) {
					return fmt.Sprintf("entry %s=%s not mentioned by the source changed", p, k)
				}
			}
		case meta.HasDataDefinitions:
			bc, bok := before.Conts[id]
			ac, aok := after.Conts[id]
			sc, sok := s.Conts[id]
			if !sok {
				if contCanon(x, bc, bok, o) != contCanon(x, ac, aok, o) {
					return fmt.Sprintf("container %s not mentioned by the source changed: %s -> %s", p, contCanon(x, bc, bok, o), contCanon(x, ac, aok, o))
				}
				continue
			}
			if !bok {
				continue
			}
			if !aok {
				return fmt.Sprintf("container %s disappeared", p)
			}
			if msg := CheckUnmentioned(x.DataDefinitions(), sc, bc, ac, p, o); msg != "" {
				return msg
			}
		default:
			if _, sok := s.Leaves[id]; sok {
				continue
			}
			b, bok := before.Leaves[id]
			a, aok := after.Leaves[id]
			if bok && (!aok || a.Canon != b.Canon) {
				return fmt.Sprintf("leaf %s not mentioned by the source changed from %s", p, b.Canon)
			}
		}
	}
	return ""
}

func listCanon(l *meta.List, x *List, ok bool, o CanonOpts) string {
	if !ok || (o.EmptyListAbsent && len(x.Entries) == 0) {
		return "<absent>"
	}
	t := NewTree()
	t.Lists[l.Ident()] = x
	return t.Canon([]meta.Definition{l}, o)
}

func contCanon(c meta.HasDataDefinitions, x *Tree, ok bool, o CanonOpts) string {
	if !ok {
		return "<absent>"
	}
	return x.Canon(c.DataDefinitions(), o)
}

// StripDefaults removes from got every leaf that want leaves unset and whose
// value equals the schema default: reads may report the default of an unset leaf.
func StripDefaults(defs []meta.Definition, want, got *Tree) {
	for _, d := range FlatDefs(defs) {
		id := d.Ident()
		switch x := d.(type) {
		case *meta.List:
			wl, wok := want.Lists[id]
			gl, gok := got.Lists[id]
			if !wok || !gok {
				continue
			}
			wantBy := map[string]*Tree{}
			for _, e := range wl.Entries {
				wantBy[KeyOf(x, e)] = e
			}
			for _, e := range gl.Entries {
				if we, ok := wantBy[KeyOf(x, e)]; ok {
					StripDefaults(x.DataDefinitions(), we, e)
				}
			}
		case meta.HasDataDefinitions:
			wc, wok := want.Conts[id]
			gc, gok := got.Conts[id]
			if wok && gok {
				StripDefaults(x.DataDefinitions(), wc, gc)
			}
		case meta.Leafable:
			if _, set := want.Leaves[id]; set {
				continue
			}
			g, ok := got.Leaves[id]
			if !ok || !x.HasDefault() {
				continue
			}
			if dv := DefaultVal(x); dv != nil && CanonVal(dv) == g.Canon {
				delete(got.Leaves, id)
			}
		}
	}
}

// StripZeros removes from got every leaf holding the zero value of its Go
// representation (0, false, "") that want does not hold. Go structs cannot keep
// a scalar field unset, so reads of struct-backed stores may report them.
func StripZeros(defs []meta.Definition, want, got *Tree) {
	for _, d := range FlatDefs(defs) {
		id := d.Ident()
		switch x := d.(type) {
		case *meta.List:
			wl, wok := want.Lists[id]
			gl, gok := got.Lists[id]
			if !wok || !gok {
				continue
			}
			wantBy := map[string]*Tree{}
			for _, e := range wl.Entries {
				wantBy[KeyOf(x, e)] = e
			}
			for _, e := range gl.Entries {
				if we, ok := wantBy[KeyOf(x, e)]; ok {
					StripZeros(x.DataDefinitions(), we, e)
				}
			}
		case meta.HasDataDefinitions:
			wc, wok := want.Conts[id]
			gc, gok := got.Conts[id]
			if wok && gok {
				StripZeros(x.DataDefinitions(), wc, gc)
			}
		case meta.Leafable:
			if _, set := want.Leaves[id]; set {
				continue
			}
			if g, ok := got.Leaves[id]; ok && zeroCanon(g.Canon) {
				delete(got.Leaves, id)
			}
		}
	}
}
