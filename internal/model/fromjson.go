package model

import (
	"bytes"
	"encoding/json"
	"fmt"

	"github.com/freeconf/yang/meta"
	"github.com/freeconf/yang/val"
)

// FromJSON is the harness' own decoder of its own JSON rendering (used by
// replay files); simple leaf types only.
func FromJSON(defs []meta.Definition, raw []byte) (*Tree, error) {
	d := json.NewDecoder(bytes.NewReader(raw))
	d.UseNumber()
	var obj map[string]interface{}
	if err := d.Decode(&obj); err != nil {
		return nil, err
	}
	return fromObj(defs, obj)
}

func fromObj(defs []meta.Definition, obj map[string]interface{}) (*Tree, error) {
	t := NewTree()
	for _, d := range FlatDefs(defs) {
		id := d.Ident()
		x, ok := obj[id]
		if !ok {
			continue
		}
		switch dd := d.(type) {
		case *meta.List:
			arr, ok := x.([]interface{})
			if !ok {
				return nil, fmt.Errorf("%s: not an array", id)
			}
			l := &List{}
			for _, e := range arr {
				eo, ok := e.(map[string]interface{})
				if !ok {
					return nil, fmt.Errorf("%s: entry not an object", id)
				}
				et, err := fromObj(dd.DataDefinitions(), eo)
				if err != nil {
					return nil, err
				}
				l.Entries = append(l.Entries, et)
			}
			t.Lists[id] = l
		case meta.HasDataDefinitions:
			co, ok := x.(map[string]interface{})
			if !ok {
				return nil, fmt.Errorf("%s: not an object", id)
			}
			ct, err := fromObj(dd.DataDefinitions(), co)
			if err != nil {
				return nil, err
			}
			t.Conts[id] = ct
		case meta.Leafable:
			ty := dd.Type()
			if ty.Format().IsList() {
				arr, ok := x.([]interface{})
				if !ok {
					return nil, fmt.Errorf("%s: not an array", id)
				}
				var vs []val.Value
				for _, e := range arr {
					v := ParseScalar(ty, fmt.Sprint(e))
					if v == nil {
						return nil, fmt.Errorf("%s: unsupported leaf-list type", id)
					}
					vs = append(vs, v)
				}
				if lv := ListOf(vs...); lv != nil {
					t.Leaves[id] = L(lv)
				}
				continue
			}
			if ty.Format() == val.FmtEmpty {
				t.Leaves[id] = L(val.NotEmpty)
				continue
			}
			if ty.Format() == val.FmtAny {
				t.Leaves[id] = L(val.Any{Thing: plainJSON(x)})
				continue
			}
			v := ParseScalar(ty, fmt.Sprint(x))
			if v == nil {
				return nil, fmt.Errorf("%s: unsupported leaf type %s", id, ty.Format())
			}
			t.Leaves[id] = L(v)
		}
	}
	return t, nil
}

// plainJSON turns json.Number leaves into float64 (what encoding/json gives without UseNumber).
func plainJSON(x interface{}) interface{} {
	switch t := x.(type) {
	case json.Number:
		f, _ := t.Float64()
		return f
	case map[string]interface{}:
		for k, v := range t {
			t[k] = plainJSON(v)
		}
	case []interface{}:
		for i, v := range t {
			t[i] = plainJSON(v)
		}
	}
	return x
}
