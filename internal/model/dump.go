package model

import (
	"fmt"
	"sort"
	"strings"

	"github.com/freeconf/yang/meta"
	"github.com/freeconf/yang/val"
)

// Dump is a canonical rendering of a compiled module through its public
// accessors only: a sorted-by-construction list of "path: property=value"
// lines. It is the observation used by the schema-side checks.
type Dump []string

func (d Dump) String() string { return strings.Join(d, "\n") }

// DumpOpts selects what is rendered.
type DumpOpts struct {
	Descriptions bool // description/reference texts
	Extensions   bool
	NoTypes      bool
}

func FullDump() DumpOpts { return DumpOpts{Descriptions: true, Extensions: true} }

func DumpModule(m *meta.Module, o DumpOpts) Dump {
	var d dumper
	d.o = o
	d.seen = map[meta.Meta]bool{}
	d.defs("", m, m.DataDefinitions())
	d.actions("", m)
	d.notifs("", m)
	// module-level identities: bases and directly derived identities in the order the accessor gives them
	var ids []string
	for name := range m.Identities() {
		ids = append(ids, name)
	}
	sort.Strings(ids)
	for _, name := range ids {
		i := m.Identities()[name]
		var derived []string
		for _, x := range i.DerivedDirect() {
			derived = append(derived, x.Ident())
		}
		d.add("identity "+name, "bases", strings.Join(i.BaseIds(), ","))
		d.add("identity "+name, "derived", strings.Join(derived, ","))
	}
	return d.out
}

type dumper struct {
	out  Dump
	o    DumpOpts
	seen map[meta.Meta]bool
}

func (d *dumper) add(path, prop string, v interface{}) {
	d.out = append(d.out, fmt.Sprintf("%s: %s=%v", path, prop, v))
}

func (d *dumper) typ(path string, t *meta.Type, depth int) {
	if t == nil {
		d.add(path, "type", "<nil>")
		return
	}
	if d.o.NoTypes {
		return
	}
	d.add(path, "type.format", t.Format())
	for i, r := range t.Range() {
		d.add(path, fmt.Sprintf("type.range[%d]", i), r.String())
	}
	for i, r := range t.Length() {
		d.add(path, fmt.Sprintf("type.length[%d]", i), r.String())
	}
	for i, p := range t.Patterns() {
		d.add(path, fmt.Sprintf("type.pattern[%d]", i), fmt.Sprintf("%q inverted=%v", p.Pattern, p.Inverted()))
	}
	if t.Format().Single() == val.FmtEnum {
		var es []string
		for _, e := range t.Enum() {
			es = append(es, fmt.Sprintf("%s=%d", e.Label, e.Id))
		}
		d.add(path, "type.enum", strings.Join(es, ","))
	}
	if t.Format().Single() == val.FmtBits {
		var bs []string
		for _, b := range t.Bits() {
			bs = append(bs, fmt.Sprintf("%s@%d", b.Ident(), b.Position))
		}
		d.add(path, "type.bits", strings.Join(bs, ","))
	}
	if t.Format().Single() == val.FmtDecimal64 {
		d.add(path, "type.fraction-digits", t.FractionDigits())
	}
	if t.Format().Single() == val.FmtIdentityRef {
		var bs []string
		for _, b := range t.Base() {
			bs = append(bs, b.Ident()+"{"+strings.Join(identityClosure(b), ",")+"}")
		}
		d.add(path, "type.identities", strings.Join(bs, ";"))
	}
	if t.Format().Single() == val.FmtUnion {
		for i, u := range t.Union() {
			if depth < 4 {
				d.typ(fmt.Sprintf("%s|union[%d]", path, i), u, depth+1)
			}
		}
	}
	if t.Format().Single() == val.FmtLeafRef {
		d.add(path, "type.path", t.Path())
		if r := t.Resolve(); r != nil && r != t && depth < 4 {
			d.add(path, "type.resolved-format", r.Format())
		}
	}
}

// identityClosure: names of all identities derived (transitively) from b.
func identityClosure(b *meta.Identity) []string {
	seen := map[string]bool{}
	var rec func(i *meta.Identity)
	rec = func(i *meta.Identity) {
		for _, d := range i.DerivedDirect() {
			if !seen[d.Ident()] {
				seen[d.Ident()] = true
				rec(d)
			}
		}
	}
	rec(b)
	var out []string
	for k := range seen {
		out = append(out, k)
	}
	sort.Strings(out)
	return out
}

func (d *dumper) common(path string, x meta.Meta) {
	if dd, ok := x.(meta.Describable); ok && d.o.Descriptions {
		if s := dd.Description(); s != "" {
			d.add(path, "description", fmt.Sprintf("%q", s))
		}
		if s := dd.Reference(); s != "" {
			d.add(path, "reference", fmt.Sprintf("%q", s))
		}
	}
	if hd, ok := x.(meta.HasDetails); ok {
		d.add(path, "config", hd.Config())
		d.add(path, "mandatory", hd.Mandatory())
	}
	if hw, ok := x.(meta.HasWhen); ok {
		if w := hw.When(); w != nil {
			d.add(path, "when", fmt.Sprintf("%q", w.Expression()))
		}
	}
	if hm, ok := x.(meta.HasMusts); ok {
		for i, mu := range hm.Musts() {
			d.add(path, fmt.Sprintf("must[%d]", i), fmt.Sprintf("%q msg=%q tag=%q", mu.Expression(), mu.ErrorMessage(), mu.ErrorAppTag()))
		}
	}
	if hp, ok := x.(meta.HasPresence); ok {
		if p := hp.Presence(); p != "" {
			d.add(path, "presence", fmt.Sprintf("%q", p))
		}
	}
	if hs, ok := x.(meta.HasStatus); ok {
		d.add(path, "status", hs.Status())
	}
	if d.o.Extensions {
		for i, e := range x.Extensions() {
			d.add(path, fmt.Sprintf("extension[%d]", i), fmt.Sprintf("%s:%s kw=%q arg=%q", e.Prefix(), e.Ident(), e.Keyword(), e.Argument()))
		}
	}
}

func (d *dumper) defs(path string, parent meta.Meta, defs []meta.Definition) {
	var order []string
	for _, x := range defs {
		order = append(order, x.Ident())
	}
	d.add(path, "children", strings.Join(order, ","))
	for _, x := range defs {
		p := path + "/" + x.Ident()
		if x.Parent() != parent {
			d.add(p, "parent-link", fmt.Sprintf("points to %T %v, expected %T", x.Parent(), identOf(x.Parent()), parent))
		}
		if d.seen[x] {
			d.add(p, "shared-definition", "also reachable at another path")
			continue
		}
		d.seen[x] = true
		switch y := x.(type) {
		case *meta.Container:
			d.add(p, "kind", "container")
			d.common(p, y)
			d.defs(p, y, y.DataDefinitions())
			d.actions(p, y)
			d.notifs(p, y)
		case *meta.List:
			d.add(p, "kind", "list")
			d.common(p, y)
			var ks []string
			for _, k := range y.KeyMeta() {
				ks = append(ks, k.Ident())
			}
			d.add(p, "key", strings.Join(ks, " "))
			d.add(p, "min-elements", y.MinElements())
			if y.IsMaxElementsSet() {
				d.add(p, "max-elements", y.MaxElements())
			}
			d.add(p, "unbounded", y.Unbounded())
			d.add(p, "ordered-by", y.OrderedBy())
			d.add(p, "unique", fmt.Sprint(y.Unique()))
			d.defs(p, y, y.DataDefinitions())
			d.actions(p, y)
			d.notifs(p, y)
		case *meta.Leaf:
			d.add(p, "kind", "leaf")
			d.common(p, y)
			d.add(p, "units", fmt.Sprintf("%q", y.Units()))
			if y.HasDefault() {
				d.add(p, "default", fmt.Sprintf("%v", y.DefaultValue()))
			}
			d.typ(p, y.Type(), 0)
		case *meta.LeafList:
			d.add(p, "kind", "leaf-list")
			d.common(p, y)
			d.add(p, "units", fmt.Sprintf("%q", y.Units()))
			if y.HasDefault() {
				d.add(p, "default", fmt.Sprintf("%v", y.DefaultValue()))
			}
			d.add(p, "min-elements", y.MinElements())
			if y.IsMaxElementsSet() {
				d.add(p, "max-elements", y.MaxElements())
			}
			d.add(p, "unbounded", y.Unbounded())
			d.add(p, "ordered-by", y.OrderedBy())
			d.typ(p, y.Type(), 0)
		case *meta.Any:
			d.add(p, "kind", "anydata")
			d.common(p, y)
		case *meta.Choice:
			d.add(p, "kind", "choice")
			d.common(p, y)
			if y.HasDefault() {
				d.add(p, "default", fmt.Sprintf("%v", y.DefaultValue()))
			}
			d.add(p, "cases", strings.Join(y.CaseIdents(), ","))
			for _, id := range y.CaseIdents() {
				c := y.Cases()[id]
				cp := p + "/" + id
				d.add(cp, "kind", "case")
				if c.Parent() != meta.Meta(y) {
					d.add(cp, "parent-link", "case does not point to its choice")
				}
				d.common(cp, c)
				d.defs(cp, c, c.DataDefinitions())
			}
		default:
			d.add(p, "kind", fmt.Sprintf("unexpected %T in data definitions", x))
		}
	}
}

func identOf(m meta.Meta) string {
	if i, ok := m.(meta.Identifiable); ok {
		return i.Ident()
	}
	return "?"
}

func (d *dumper) actions(path string, x meta.Meta) {
	ha, ok := x.(meta.HasActions)
	if !ok {
		return
	}
	var names []string
	for n := range ha.Actions() {
		names = append(names, n)
	}
	sort.Strings(names)
	if len(names) > 0 {
		d.add(path, "actions", strings.Join(names, ","))
	}
	for _, n := range names {
		a := ha.Actions()[n]
		p := path + "/" + n
		d.add(p, "kind", "action")
		d.common(p, a)
		if in := a.Input(); in != nil {
			d.add(p+"/input", "kind", "input")
			d.defs(p+"/input", in, in.DataDefinitions())
		}
		if out := a.Output(); out != nil {
			d.add(p+"/output", "kind", "output")
			d.defs(p+"/output", out, out.DataDefinitions())
		}
	}
}

func (d *dumper) notifs(path string, x meta.Meta) {
	hn, ok := x.(meta.HasNotifications)
	if !ok {
		return
	}
	var names []string
	for n := range hn.Notifications() {
		names = append(names, n)
	}
	sort.Strings(names)
	if len(names) > 0 {
		d.add(path, "notifications", strings.Join(names, ","))
	}
	for _, n := range names {
		no := hn.Notifications()[n]
		p := path + "/" + n
		d.add(p, "kind", "notification")
		d.common(p, no)
		d.defs(p, no, no.DataDefinitions())
	}
}

// DiffDumps returns the lines only in a and only in b.
func DiffDumps(a, b Dump) (onlyA, onlyB []string) {
	ma, mb := map[string]int{}, map[string]int{}
	for _, l := range a {
		ma[l]++
	}
	for _, l := range b {
		mb[l]++
	}
	for _, l := range a {
		if mb[l] < ma[l] {
			onlyA = append(onlyA, l)
			mb[l]++
		}
	}
	mb = map[string]int{}
	for _, l := range b {
		mb[l]++
	}
	for _, l := range b {
		if ma[l] < mb[l] {
			onlyB = append(onlyB, l)
			ma[l]++
		}
	}
	return
}
