package model

import (
	"fmt"

	"github.com/freeconf/yang/meta"
)

// Diff describes the first difference between want and got in schema order:
// kind is a value-free classification usable in signatures, what the
// concrete description.
func Diff(defs []meta.Definition, want, got *Tree, o CanonOpts, path string) (kind, what string) {
	for _, d := range FlatDefs(defs) {
		id := d.Ident()
		p := path + "/" + id
		switch x := d.(type) {
		case *meta.List:
			wl, wok := want.Lists[id]
			gl, gok := got.Lists[id]
			if o.EmptyListAbsent {
				wok = wok && len(wl.Entries) > 0
				gok = gok && len(gl.Entries) > 0
			}
			switch {
			case wok && !gok:
				return "list-missing", fmt.Sprintf("list %s missing", p)
			case !wok && gok:
				return "list-extra", fmt.Sprintf("list %s unexpectedly present (%d entries)", p, len(gl.Entries))
			case !wok:
				continue
			}
			gotBy := map[string]*Tree{}
			dup := false
			for _, e := range gl.Entries {
				k := KeyOf(x, e)
				if _, ok := gotBy[k]; ok {
					dup = true
				}
				gotBy[k] = e
			}
			if dup && len(x.KeyMeta()) > 0 {
				return "duplicate-key", fmt.Sprintf("list %s holds two entries with the same key", p)
			}
			wantBy := map[string]*Tree{}
			for _, e := range wl.Entries {
				wantBy[KeyOf(x, e)] = e
			}
			for _, e := range wl.Entries {
				k := KeyOf(x, e)
				ge, ok := gotBy[k]
				if !ok {
					return "entry-missing", fmt.Sprintf("entry %s=%s missing", p, k)
				}
				if kd, w := Diff(x.DataDefinitions(), e, ge, o, p+"="+k); kd != "" {
					return "entry/" + kd, w
				}
			}
			for _, e := range gl.Entries {
				if _, ok := wantBy[KeyOf(x, e)]; !ok {
					return "entry-extra", fmt.Sprintf("unexpected entry %s=%s", p, KeyOf(x, e))
				}
			}
			if !(gl.Unordered || wl.Unordered || o.IgnoreEntryOrder) {
				for i := range wl.Entries {
					if i < len(gl.Entries) && KeyOf(x, wl.Entries[i]) != KeyOf(x, gl.Entries[i]) {
						return "entry-order", fmt.Sprintf("entries of %s in a different order", p)
					}
				}
			}
		case meta.HasDataDefinitions:
			wc, wok := want.Conts[id]
			gc, gok := got.Conts[id]
			if o.EmptyContAbsent {
				wok = wok && !wc.deepEmpty(o)
				gok = gok && !gc.deepEmpty(o)
			}
			switch {
			case wok && !gok:
				return "container-missing", fmt.Sprintf("container %s missing", p)
			case !wok && gok:
				return "container-extra", fmt.Sprintf("container %s unexpectedly present: %s", p, gc)
			case !wok:
				continue
			}
			if kd, w := Diff(x.DataDefinitions(), wc, gc, o, p); kd != "" {
				return "container/" + kd, w
			}
		default:
			wl, wok := want.Leaves[id]
			gl, gok := got.Leaves[id]
			if o.ZeroLeafAbsent {
				wok = wok && !zeroCanon(wl.Canon)
				gok = gok && !zeroCanon(gl.Canon)
			}
			lk := "leaf"
			if lf, ok := d.(meta.Leafable); ok && lf.HasDefault() {
				lk = "default-leaf"
			}
			switch {
			case wok && !gok:
				return lk + "-missing", fmt.Sprintf("leaf %s missing (want %s)", p, wl.Canon)
			case !wok && gok:
				return lk + "-extra", fmt.Sprintf("leaf %s unexpectedly set to %s", p, gl.Canon)
			case wok && wl.Canon != gl.Canon:
				return lk + "-differs", fmt.Sprintf("leaf %s is %s, want %s", p, gl.Canon, wl.Canon)
			}
		}
	}
	for k, v := range got.Leaves {
		if len(k) > 0 && k[0] == '?' {
			return "unknown-content", fmt.Sprintf("%s%s: %s", path, k, v.Canon)
		}
	}
	return "", ""
}
