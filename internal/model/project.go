package model

import (
	"strings"

	"github.com/freeconf/yang/meta"
)

// Reference semantics of the read-side query parameters (DESIGN.md 4a).

type Window struct {
	List      []string // relative schema path of the list
	Start     int
	End       int  // -1 = open
	Inclusive bool // convention under test
}

type Params struct {
	Depth        int // 0 = unlimited
	Content      string
	Fields       [][]string // include set Q (nil = no filter)
	XFields      [][]string // exclude set
	TrimDefaults bool
	Range        *Window
}

func isConfig(d meta.Definition) bool {
	if hd, ok := d.(meta.HasDetails); ok {
		return hd.Config()
	}
	return true
}

func hasPrefix(p, q []string) bool { // q is a prefix of p
	if len(q) > len(p) {
		return false
	}
	for i := range q {
		if p[i] != q[i] {
			return false
		}
	}
	return true
}

func (pr Params) keepPath(p []string) bool {
	if pr.Fields != nil {
		ok := false
		for _, q := range pr.Fields {
			if hasPrefix(p, q) || hasPrefix(q, p) {
				ok = true
			}
		}
		if !ok {
			return false
		}
	}
	for _, q := range pr.XFields {
		if hasPrefix(p, q) {
			return false
		}
	}
	return true
}

// Project returns the part of t (rooted at a node whose children are defs)
// that the parameters keep. level is the level of t's children (1 for the
// children of the target), rel their relative schema path prefix.
func (pr Params) Project(defs []meta.Definition, t *Tree, level int, rel []string) *Tree {
	out := NewTree()
	for _, d := range FlatDefs(defs) {
		id := d.Ident()
		p := append(append([]string{}, rel...), id)
		if pr.Depth > 0 && level > pr.Depth {
			continue
		}
		if !pr.keepPath(p) {
			continue
		}
		switch x := d.(type) {
		case *meta.List:
			l, ok := t.Lists[id]
			if !ok {
				continue
			}
			if pr.Content == "config" && !isConfig(x) {
				continue
			}
			nl := &List{Unordered: l.Unordered}
			entries := l.Entries
			if pr.Range != nil && strings.Join(pr.Range.List, "/") == strings.Join(p, "/") {
				entries = window(entries, *pr.Range)
			}
			for _, e := range entries {
				ne := pr.Project(x.DataDefinitions(), e, level+1, p)
				// an entry is identified by its key whatever the filters say
				for _, km := range x.KeyMeta() {
					if lf, ok := e.Leaves[km.Ident()]; ok {
						ne.Leaves[km.Ident()] = lf
					}
				}
				nl.Entries = append(nl.Entries, ne)
			}
			out.Lists[id] = nl
		case meta.HasDataDefinitions:
			c, ok := t.Conts[id]
			if !ok {
				continue
			}
			if pr.Content == "config" && !isConfig(x) {
				continue
			}
			out.Conts[id] = pr.Project(x.DataDefinitions(), c, level+1, p)
		case meta.Leafable:
			lf, ok := t.Leaves[id]
			if !ok {
				continue
			}
			if pr.Content == "config" && !isConfig(x) {
				continue
			}
			if pr.Content == "nonconfig" && isConfig(x) {
				continue
			}
			if pr.TrimDefaults && x.HasDefault() {
				if dv := DefaultVal(x); dv != nil && CanonVal(dv) == lf.Canon {
					continue
				}
			}
			out.Leaves[id] = lf
		}
	}
	return out
}

func window(es []*Tree, w Window) []*Tree {
	if w.Start >= len(es) || w.Start < 0 {
		return nil
	}
	end := len(es)
	if w.End >= 0 {
		e := w.End
		if w.Inclusive {
			e++
		}
		if e < end {
			end = e
		}
	}
	if end <= w.Start {
		return nil
	}
	return es[w.Start:end]
}

// StripKeys removes key leaves from every entry (used when a filter makes
// their presence a matter of convention).
func StripKeys(defs []meta.Definition, t *Tree) {
	for _, d := range FlatDefs(defs) {
		id := d.Ident()
		switch x := d.(type) {
		case *meta.List:
			if l, ok := t.Lists[id]; ok {
				for _, e := range l.Entries {
					for _, km := range x.KeyMeta() {
						delete(e.Leaves, km.Ident())
					}
					StripKeys(x.DataDefinitions(), e)
				}
			}
		case meta.HasDataDefinitions:
			if c, ok := t.Conts[id]; ok {
				StripKeys(x.DataDefinitions(), c)
			}
		}
	}
}

// CountContainers counts container nodes of t (not lists, not entries).
func CountNodes(defs []meta.Definition, t *Tree) (containers, listsAndEntries int) {
	for _, d := range FlatDefs(defs) {
		id := d.Ident()
		switch x := d.(type) {
		case *meta.List:
			if l, ok := t.Lists[id]; ok {
				listsAndEntries++
				for _, e := range l.Entries {
					listsAndEntries++
					c, le := CountNodes(x.DataDefinitions(), e)
					containers += c
					listsAndEntries += le
				}
			}
		case meta.HasDataDefinitions:
			if c, ok := t.Conts[id]; ok {
				containers++
				cc, le := CountNodes(x.DataDefinitions(), c)
				containers += cc
				listsAndEntries += le
			}
		}
	}
	return
}
