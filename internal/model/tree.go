// Package model holds the harness-side reference data structures: data
// trees, canonical values, rendering to JSON/XML and bounded generators.
package model

import (
	"encoding/json"
	"fmt"
	"reflect"
	"sort"
	"strconv"
	"strings"

	"github.com/freeconf/yang/meta"
	"github.com/freeconf/yang/val"
)

// Leaf is a leaf or leaf-list value. V may be nil for inspected stores.
type Leaf struct {
	V     val.Value
	Canon string
}

// Tree is the content of a container or of one list entry. Choice members
// are stored directly under their identifier.
type Tree struct {
	Leaves map[string]Leaf
	Conts  map[string]*Tree
	Lists  map[string]*List
}

// List holds entries in store order. Unordered says the store keeps no
// order (map backed) so comparison sorts by key.
type List struct {
	Entries   []*Tree
	Unordered bool
}

func NewTree() *Tree {
	return &Tree{Leaves: map[string]Leaf{}, Conts: map[string]*Tree{}, Lists: map[string]*List{}}
}

func L(v val.Value) Leaf { return Leaf{V: v, Canon: CanonVal(v)} }

func (t *Tree) Clone() *Tree {
	if t == nil {
		return nil
	}
	c := NewTree()
	for k, v := range t.Leaves {
		c.Leaves[k] = v
	}
	for k, v := range t.Conts {
		c.Conts[k] = v.Clone()
	}
	for k, v := range t.Lists {
		nl := &List{Unordered: v.Unordered}
		for _, e := range v.Entries {
			nl.Entries = append(nl.Entries, e.Clone())
		}
		c.Lists[k] = nl
	}
	return c
}

// Size counts data nodes (leaves, containers, list entries).
func (t *Tree) Size() int {
	n := len(t.Leaves)
	for _, c := range t.Conts {
		n += 1 + c.Size()
	}
	for _, l := range t.Lists {
		for _, e := range l.Entries {
			n += 1 + e.Size()
		}
	}
	return n
}

func (t *Tree) Empty() bool {
	return len(t.Leaves) == 0 && len(t.Conts) == 0 && len(t.Lists) == 0
}

// KeyOf returns the canonical key tuple of an entry.
func KeyOf(l *meta.List, e *Tree) string {
	var parts []string
	for _, k := range l.KeyMeta() {
		if lf, ok := e.Leaves[k.Ident()]; ok {
			parts = append(parts, lf.Canon)
		} else {
			parts = append(parts, "<nokey>")
		}
	}
	return strings.Join(parts, "|")
}

// Canon renders the tree deterministically, walking the schema so that only
// schema-known content is compared. Content present in the tree but unknown to
// the schema is appended under "?" so it is never silently ignored.
// emptyListsAsAbsent: treat an existing empty list like an absent one.
type CanonOpts struct {
	EmptyListAbsent  bool
	EmptyContAbsent  bool
	IgnoreEntryOrder bool
	// ZeroLeafAbsent: a leaf holding the zero value of its Go representation (0, false, "")
	// compares like an absent leaf (Go structs cannot keep a scalar field unset).
	ZeroLeafAbsent bool
}

func zeroCanon(c string) bool { return c == "0" || c == "false" || c == `""` || c == "[]" }

func (t *Tree) Canon(defs []meta.Definition, o CanonOpts) string {
	var sb strings.Builder
	t.canon(&sb, defs, o)
	return sb.String()
}

// CaseIds lists the cases of a choice in name order, from the choice's case map alone (the
// library's own CaseIdents accessor is not trusted by the reference models).
func CaseIds(ch *meta.Choice) []string {
	var ids []string
	for id := range ch.Cases() {
		ids = append(ids, id)
	}
	sort.Strings(ids)
	return ids
}

// FlatDefs returns the data definitions with choices flattened (all cases).
func FlatDefs(defs []meta.Definition) []meta.Definition {
	var out []meta.Definition
	for _, d := range defs {
		if ch, ok := d.(*meta.Choice); ok {
			for _, id := range CaseIds(ch) {
				out = append(out, FlatDefs(ch.Cases()[id].DataDefinitions())...)
			}
			continue
		}
		out = append(out, d)
	}
	return out
}

func (t *Tree) canon(sb *strings.Builder, defs []meta.Definition, o CanonOpts) {
	sb.WriteString("{")
	seen := map[string]bool{}
	first := true
	sep := func() {
		if !first {
			sb.WriteString(" ")
		}
		first = false
	}
	for _, d := range FlatDefs(defs) {
		id := d.Ident()
		seen[id] = true
		switch x := d.(type) {
		case *meta.List:
			l, ok := t.Lists[id]
			if !ok || (o.EmptyListAbsent && len(l.Entries) == 0) {
				continue
			}
			sep()
			sb.WriteString(id + "=[")
			var parts []string
			for _, e := range l.Entries {
				var eb strings.Builder
				e.canon(&eb, x.DataDefinitions(), o)
				parts = append(parts, eb.String())
			}
			if l.Unordered || o.IgnoreEntryOrder {
				sort.Strings(parts)
			}
			sb.WriteString(strings.Join(parts, ","))
			sb.WriteString("]")
		case meta.HasDataDefinitions:
			c, ok := t.Conts[id]
			if !ok || (o.EmptyContAbsent && c.deepEmpty(o)) {
				continue
			}
			sep()
			sb.WriteString(id + "=")
			c.canon(sb, x.DataDefinitions(), o)
		default:
			lf, ok := t.Leaves[id]
			if !ok || (o.ZeroLeafAbsent && zeroCanon(lf.Canon)) {
				continue
			}
			sep()
			sb.WriteString(id + "=" + lf.Canon)
		}
	}
	var extra []string
	for k, v := range t.Leaves {
		if !seen[k] {
			extra = append(extra, "?"+k+"="+v.Canon)
		}
	}
	for k := range t.Conts {
		if !seen[k] {
			extra = append(extra, "?"+k+"={…}")
		}
	}
	for k := range t.Lists {
		if !seen[k] {
			extra = append(extra, "?"+k+"=[…]")
		}
	}
	sort.Strings(extra)
	for _, e := range extra {
		sep()
		sb.WriteString(e)
	}
	sb.WriteString("}")
}

func (t *Tree) deepEmpty(o CanonOpts) bool {
	if len(t.Leaves) > 0 {
		return false
	}
	for _, c := range t.Conts {
		if !c.deepEmpty(o) {
			return false
		}
	}
	for _, l := range t.Lists {
		if len(l.Entries) > 0 || !o.EmptyListAbsent {
			return false
		}
	}
	return true
}

// ---------------------------------------------------------------- canonical values

func fmtFloat(f float64) string { return strconv.FormatFloat(f, 'g', -1, 64) }

// CanonVal renders a typed value canonically (type-insensitive for numbers so
// that stores that widen ints still compare equal).
func CanonVal(v val.Value) string {
	if v == nil {
		return "<nil>"
	}
	if v.Format().IsList() {
		if l, ok := v.(val.Listable); ok {
			var parts []string
			for i := 0; i < l.Len(); i++ {
				parts = append(parts, CanonVal(l.Item(i)))
			}
			return "[" + strings.Join(parts, ",") + "]"
		}
		return "[?" + v.String() + "]"
	}
	switch x := v.(type) {
	case val.String:
		return strconv.Quote(string(x))
	case val.Bool:
		return strconv.FormatBool(bool(x))
	case val.Enum:
		return "enum:" + x.Label
	case val.IdentRef:
		return "id:" + x.Label
	case val.Bits:
		// the set positions identify the value (stores keep only those)
		return strconv.FormatUint(x.Positions, 10)
	case val.Decimal64:
		return fmtFloat(float64(x))
	case val.Binary:
		return fmt.Sprintf("bytes:%x", x.Value())
	case val.NotEmptyType:
		return "empty"
	case val.Any:
		return CanonAny(x.Thing)
	}
	if v.Format() == val.FmtEmpty {
		return "empty"
	}
	return CanonRaw(v.Value())
}

// CanonAny renders the content of an anydata: its JSON text with sorted members and numbers in
// their shortest form (what the content is, whatever Go types hold it).
func CanonAny(thing interface{}) string {
	b, err := json.Marshal(thing)
	if err != nil {
		return fmt.Sprintf("any:?%v", err)
	}
	var generic interface{}
	d := json.NewDecoder(strings.NewReader(string(b)))
	d.UseNumber()
	if err := d.Decode(&generic); err != nil {
		return "any:?" + string(b)
	}
	var norm func(x interface{}) interface{}
	norm = func(x interface{}) interface{} {
		switch t := x.(type) {
		case json.Number:
			if f, err := t.Float64(); err == nil {
				return json.Number(fmtFloat(f))
			}
		case map[string]interface{}:
			for k, v := range t {
				t[k] = norm(v)
			}
		case []interface{}:
			for i, v := range t {
				t[i] = norm(v)
			}
		}
		return x
	}
	out, _ := json.Marshal(norm(generic))
	return "any:" + string(out)
}

// CanonRaw renders a raw Go value found in a library store.
func CanonRaw(x interface{}) string {
	switch t := x.(type) {
	case nil:
		return "<nil>"
	case map[string]interface{}, []interface{}:
		return CanonAny(t)
	case val.Value:
		return CanonVal(t)
	case string:
		return strconv.Quote(t)
	case bool:
		return strconv.FormatBool(t)
	case []byte:
		return fmt.Sprintf("bytes:%x", t)
	}
	rv := reflect.ValueOf(x)
	switch {
	case rv.CanInt():
		return strconv.FormatInt(rv.Int(), 10)
	case rv.CanUint():
		return strconv.FormatUint(rv.Uint(), 10)
	case rv.CanFloat():
		return fmtFloat(rv.Float())
	case rv.Kind() == reflect.String:
		return strconv.Quote(rv.String())
	case rv.Kind() == reflect.Slice || rv.Kind() == reflect.Array:
		var parts []string
		for i := 0; i < rv.Len(); i++ {
			parts = append(parts, CanonRaw(rv.Index(i).Interface()))
		}
		return "[" + strings.Join(parts, ",") + "]"
	case rv.Kind() == reflect.Ptr || rv.Kind() == reflect.Interface:
		if rv.IsNil() {
			return "<nil>"
		}
		return CanonRaw(rv.Elem().Interface())
	}
	return fmt.Sprintf("?%T:%v", x, x)
}

// ---------------------------------------------------------------- JSON rendering (harness renderer, independent of the writers)

func jsonScalar(v val.Value) interface{} {
	switch x := v.(type) {
	case val.String:
		return string(x)
	case val.Bool:
		return bool(x)
	case val.Enum:
		return x.Label
	case val.IdentRef:
		return x.Label
	case val.Bits:
		return strings.Join(x.Labels, " ")
	case val.Int64:
		return strconv.FormatInt(int64(x), 10)
	case val.UInt64:
		return strconv.FormatUint(uint64(x), 10)
	case val.Decimal64:
		return json.Number(fmtFloat(float64(x)))
	case val.Binary:
		return string(x)
	case val.NotEmptyType:
		return []interface{}{nil}
	case val.Any:
		return x.Thing
	}
	if v.Format() == val.FmtEmpty {
		return []interface{}{nil}
	}
	return v.Value()
}

// Lex is the harness' own lexical form of a scalar value (what stands in a path key, an XML element
// or an expression), computed from the value's Go content - never through the library's String().
func Lex(v val.Value) string {
	switch x := v.(type) {
	case val.String:
		return string(x)
	case val.Bool:
		return strconv.FormatBool(bool(x))
	case val.Enum:
		return x.Label
	case val.IdentRef:
		return x.Label
	case val.Bits:
		return strings.Join(x.Labels, " ")
	case val.Decimal64:
		return fmtFloat(float64(x))
	case val.Binary:
		return string(x)
	case val.NotEmptyType:
		return ""
	}
	rv := reflect.ValueOf(v.Value())
	switch {
	case rv.CanInt():
		return strconv.FormatInt(rv.Int(), 10)
	case rv.CanUint():
		return strconv.FormatUint(rv.Uint(), 10)
	case rv.CanFloat():
		return fmtFloat(rv.Float())
	case rv.Kind() == reflect.String:
		return rv.String()
	}
	panic(fmt.Sprintf("harness: no lexical form for %T", v))
}

func jsonValue(v val.Value) interface{} {
	if l, ok := v.(val.Listable); ok && v.Format().IsList() {
		out := []interface{}{}
		for i := 0; i < l.Len(); i++ {
			out = append(out, jsonScalar(l.Item(i)))
		}
		return out
	}
	return jsonScalar(v)
}

// ToJSONObj converts the tree to nested maps for encoding/json.
func (t *Tree) ToJSONObj(defs []meta.Definition) map[string]interface{} {
	out := map[string]interface{}{}
	for _, d := range FlatDefs(defs) {
		id := d.Ident()
		switch x := d.(type) {
		case *meta.List:
			if l, ok := t.Lists[id]; ok {
				arr := []interface{}{}
				for _, e := range l.Entries {
					arr = append(arr, e.ToJSONObj(x.DataDefinitions()))
				}
				out[id] = arr
			}
		case meta.HasDataDefinitions:
			if c, ok := t.Conts[id]; ok {
				out[id] = c.ToJSONObj(x.DataDefinitions())
			}
		default:
			if lf, ok := t.Leaves[id]; ok && lf.V != nil {
				out[id] = jsonValue(lf.V)
			}
		}
	}
	return out
}

func (t *Tree) ToJSON(defs []meta.Definition) string {
	b, err := json.Marshal(t.ToJSONObj(defs))
	if err != nil {
		panic(err)
	}
	return string(b)
}

// String is a compact schema-less debug rendering.
func (t *Tree) String() string {
	var parts []string
	var ks []string
	for k := range t.Leaves {
		ks = append(ks, k)
	}
	sort.Strings(ks)
	for _, k := range ks {
		parts = append(parts, k+"="+t.Leaves[k].Canon)
	}
	ks = nil
	for k := range t.Conts {
		ks = append(ks, k)
	}
	sort.Strings(ks)
	for _, k := range ks {
		parts = append(parts, k+"="+t.Conts[k].String())
	}
	ks = nil
	for k := range t.Lists {
		ks = append(ks, k)
	}
	sort.Strings(ks)
	for _, k := range ks {
		var es []string
		for _, e := range t.Lists[k].Entries {
			es = append(es, e.String())
		}
		if t.Lists[k].Unordered {
			sort.Strings(es)
		}
		parts = append(parts, k+"=["+strings.Join(es, ",")+"]")
	}
	return "{" + strings.Join(parts, " ") + "}"
}
