package model

import (
	"crypto/sha1"
	"encoding/hex"
	"fmt"
	"reflect"
	"regexp"
	"sort"
	"strings"
	"unsafe"
)

// DeepHash hashes the complete object graph reachable from v, exported and
// unexported fields alike, with pointer identities canonicalised by first
// visit. Function values and regular expressions are opaque (hashed by
// presence / source text).
func DeepHash(v interface{}) string {
	h := &hasher{ids: map[uintptr]int{}}
	h.walk(reflect.ValueOf(v), 0)
	sum := sha1.Sum([]byte(h.sb.String()))
	return hex.EncodeToString(sum[:])
}

type hasher struct {
	sb  strings.Builder
	ids map[uintptr]int
	// limit > 0: stop descending below this depth (used to order map keys that are pointers
	// to large graphs without walking those graphs once per key)
	limit int
}

var regexpType = reflect.TypeOf((*regexp.Regexp)(nil))

func (h *hasher) walk(v reflect.Value, depth int) {
	if !v.IsValid() {
		h.sb.WriteString("<invalid>")
		return
	}
	if depth > 200 {
		h.sb.WriteString("<deep>")
		return
	}
	if h.limit > 0 && depth > h.limit {
		h.sb.WriteString("<cut>")
		return
	}
	switch v.Kind() {
	case reflect.Ptr:
		if v.IsNil() {
			h.sb.WriteString("nil;")
			return
		}
		if v.Type() == regexpType {
			re := reflect.NewAt(v.Type().Elem(), unsafe.Pointer(v.Pointer())).Interface().(*regexp.Regexp)
			h.sb.WriteString("re:" + re.String() + ";")
			return
		}
		p := v.Pointer()
		if id, seen := h.ids[p]; seen {
			fmt.Fprintf(&h.sb, "@%d;", id)
			return
		}
		h.ids[p] = len(h.ids)
		fmt.Fprintf(&h.sb, "&%d{", h.ids[p])
		h.walk(v.Elem(), depth+1)
		h.sb.WriteString("}")
	case reflect.Interface:
		if v.IsNil() {
			h.sb.WriteString("nil;")
			return
		}
		h.sb.WriteString(v.Elem().Type().String() + ":")
		h.walk(v.Elem(), depth+1)
	case reflect.Struct:
		h.sb.WriteString(v.Type().String() + "{")
		for i := 0; i < v.NumField(); i++ {
			f := v.Field(i)
			if !f.CanInterface() && f.CanAddr() {
				f = reflect.NewAt(f.Type(), unsafe.Pointer(f.UnsafeAddr())).Elem()
			}
			h.sb.WriteString(v.Type().Field(i).Name + "=")
			h.walk(f, depth+1)
			h.sb.WriteString(",")
		}
		h.sb.WriteString("}")
	case reflect.Slice:
		if v.IsNil() {
			h.sb.WriteString("nil;")
			return
		}
		fallthrough
	case reflect.Array:
		fmt.Fprintf(&h.sb, "[%d:", v.Len())
		for i := 0; i < v.Len(); i++ {
			h.walk(v.Index(i), depth+1)
			h.sb.WriteString(",")
		}
		if v.Kind() == reflect.Slice && v.Cap() > v.Len() && h.limit == 0 {
			// the spare capacity of the backing array: an append through another slice header writes there
			spare := v.Slice(0, v.Cap())
			h.sb.WriteString("|spare:")
			for i := v.Len(); i < spare.Len(); i++ {
				h.walk(spare.Index(i), depth+1)
				h.sb.WriteString(",")
			}
		}
		h.sb.WriteString("]")
	case reflect.Map:
		if v.IsNil() {
			h.sb.WriteString("nil;")
			return
		}
		type kv struct {
			k    string // ordering key
			key  reflect.Value
			v    reflect.Value
			deep bool
		}
		var kvs []kv
		it := v.MapRange()
		kk := v.Type().Key().Kind()
		big := kk == reflect.Ptr || kk == reflect.Interface || kk == reflect.Struct
		for it.Next() {
			kh := &hasher{ids: map[uintptr]int{}}
			if big {
				// keys that lead into large graphs are ordered by what is near them
				kh.limit = 4
			}
			kh.walk(it.Key(), 0)
			kvs = append(kvs, kv{kh.sb.String(), it.Key(), it.Value(), !big})
		}
		sort.SliceStable(kvs, func(i, j int) bool { return kvs[i].k < kvs[j].k })
		if big {
			// ties between shallow keys are resolved by the full walk of the tied keys only
			for i := 0; i < len(kvs); {
				j := i + 1
				for j < len(kvs) && kvs[j].k == kvs[i].k {
					j++
				}
				if j-i > 1 {
					for x := i; x < j; x++ {
						kh := &hasher{ids: map[uintptr]int{}}
						kh.walk(kvs[x].key, 0)
						kvs[x].k = kh.sb.String()
					}
					sort.SliceStable(kvs[i:j], func(a, b int) bool { return kvs[i+a].k < kvs[i+b].k })
				}
				i = j
			}
		}
		h.sb.WriteString("map{")
		for _, e := range kvs {
			if e.deep {
				h.sb.WriteString(e.k)
			} else {
				// identity and content of the key through the main walk (visited once)
				h.walk(e.key, depth+1)
			}
			h.sb.WriteString("=>")
			h.walk(e.v, depth+1)
			h.sb.WriteString(",")
		}
		h.sb.WriteString("}")
	case reflect.Func:
		if v.IsNil() {
			h.sb.WriteString("nilfunc;")
		} else {
			h.sb.WriteString("func;")
		}
	case reflect.Chan, reflect.UnsafePointer:
		h.sb.WriteString("opaque;")
	case reflect.String:
		fmt.Fprintf(&h.sb, "%q;", v.String())
	case reflect.Bool:
		fmt.Fprintf(&h.sb, "%v;", v.Bool())
	case reflect.Int, reflect.Int8, reflect.Int16, reflect.Int32, reflect.Int64:
		fmt.Fprintf(&h.sb, "%d;", v.Int())
	case reflect.Uint, reflect.Uint8, reflect.Uint16, reflect.Uint32, reflect.Uint64, reflect.Uintptr:
		fmt.Fprintf(&h.sb, "%d;", v.Uint())
	case reflect.Float32, reflect.Float64:
		fmt.Fprintf(&h.sb, "%v;", v.Float())
	default:
		fmt.Fprintf(&h.sb, "?%s;", v.Kind())
	}
}
