package model

import (
	"fmt"
	"io"
	"strconv"
	"strings"
	"sync"

	"github.com/freeconf/yang/meta"
	"github.com/freeconf/yang/parser"
	"github.com/freeconf/yang/source"
	"github.com/freeconf/yang/val"
)

// Schemas of the family F used by the data-API checks. Each is small and
// built so that operations collide (shared keys, nested lists, defaults).
var Schemas = map[string]string{
	// containers, defaults, list with nested container and nested list
	"base": `module base { namespace "urn:base"; prefix b; revision 0;
  leaf top { type string; }
  container c {
    leaf a { type string; }
    leaf b { type int32; default 7; }
    container d {
      leaf x { type string; }
      leaf y { type int32; default 5; }
    }
  }
  list l { key k;
    leaf k { type string; }
    leaf v { type int32; }
    leaf w { type string; default "dw"; }
    container m { leaf z { type string; } leaf zd { type int32; default 9; } }
    list n { key j;
      leaf j { type int32; }
      leaf u { type string; }
    }
  }
}`,
	// compound keys, int keys, leaf-list
	"keys": `module keys { namespace "urn:keys"; prefix k; revision 0;
  list p { key "a b";
    leaf a { type string; }
    leaf b { type int32; }
    leaf v { type string; }
  }
  list q { key i;
    leaf i { type int32; }
    leaf-list t { type string; }
  }
  container c { leaf-list u { type int32; } leaf e { type enumeration { enum one; enum two; } } leaf f { type boolean; } }
}`,
	// choices: flat, with containers/lists, nested, inside list
	"choice": `module choice { namespace "urn:choice"; prefix ch; revision 0;
  leaf o { type string; }
  choice h {
    case a { leaf a1 { type string; } leaf a2 { type int32; } }
    case b { container b1 { leaf x { type string; } } leaf b2 { type string; } }
    case c { list c1 { key k; leaf k { type string; } leaf v { type string; } } }
    leaf s { type string; }
  }
  container w {
    leaf keep { type string; }
    choice g {
      case p { leaf p1 { type string; } }
      case q {
        choice inner {
          case i { leaf i1 { type string; } }
          case j { leaf j1 { type string; } leaf j2 { type string; } }
        }
        leaf q2 { type string; }
      }
      case r {
        leaf r1 { type string; }
        choice late { leaf r2 { type string; } leaf r3 { type string; } }
      }
      case t { choice only { leaf t1 { type string; } case t2c { choice deeper { leaf t2 { type string; } } } } }
    }
  }
  list e { key k; leaf k { type string; }
    choice f { case x { leaf x1 { type string; } } case y { leaf y1 { type string; } } }
  }
}`,
}

func init() {
	Schemas["types"] = TypesSchema
	// several modules contribute to one tree: an imported grouping (idents imp*), a submodule
	// (idents s*), own augments into each of them
	Schemas["multi"] = `module multi { namespace "urn:multi"; prefix mu; import mimp { prefix i; } include msub; revision 0;
  container c { leaf own { type string; } uses i:g; container in { uses i:g2; leaf own2 { type string; } } leaf sidr { type identityref { base sub-base; } } }
  list l { key k; leaf k { type string; } uses i:g2; container lc { uses i:g; } }
  uses i:g3;
  augment "/c" { leaf aug1 { type string; } }
  augment "/c/impy" { leaf aug2 { type string; } }
  augment "/c/impch" { case augca { leaf augc1 { type string; } } }
  augment "/sc" { leaf aug3 { type string; } }
}`
	SchemaFiles["multi"] = map[string]string{
		"mimp": `module mimp { namespace "urn:mimp"; prefix mimp; revision 0;
  grouping g { leaf impx { type string; } container impy { leaf impz { type string; } }
    choice impch { case impca { leaf impc1 { type string; } } leaf impc2 { type string; } } }
  grouping g2 { leaf imp2 { type string; } }
  grouping g3 { container imptop { leaf impt { type string; } list impl { key impk; leaf impk { type string; } leaf impv { type string; } } } }
}`,
		"msub": `submodule msub { belongs-to multi { prefix mu; } import mimp { prefix i; }
  identity sub-base; identity sub-id { base sub-base; }
  container sc { leaf sl { type string; } uses i:g2; leaf ssidr { type identityref { base sub-base; } } }
  augment "/c" { leaf sa { type string; } }
}`,
	}
	ModuleOf["multi"] = func(ident string) string {
		if strings.HasPrefix(ident, "imp") {
			return "mimp"
		}
		return "multi"
	}
}

// TypesSchema: every built-in leaf type, leaf-lists, a keyed list.
const TypesSchema = `module types { namespace "urn:types"; prefix t; revision 0;
  identity base-id;
  identity id-a { base base-id; }
  identity id-b { base id-a; }
  typedef tu { type union { type int32; type string; } }
  typedef tu2 { type union { type int32; type string; } }
  typedef tnu { type union { type boolean; type union { type int32; type string; } } }
  container v {
    leaf s { type string; }
    leaf i8 { type int8; }
    leaf i16 { type int16; }
    leaf i32 { type int32; }
    leaf i64 { type int64; }
    leaf u8 { type uint8; }
    leaf u16 { type uint16; }
    leaf u32 { type uint32; }
    leaf u64 { type uint64; }
    leaf d2 { type decimal64 { fraction-digits 2; } }
    leaf b { type boolean; }
    leaf e { type enumeration { enum zero; enum one; enum five { value 5; } } }
    leaf bits { type bits { bit x; bit y; bit z; } }
    leaf idr { type identityref { base base-id; } }
    leaf emp { type empty; }
    anydata ad;
    leaf bin { type binary; }
    leaf un { type union { type int32; type string; } }
    leaf-list ls { type string; }
    leaf-list li { type int32; }
    leaf-list le { type enumeration { enum zero; enum one; enum five { value 5; } } }
    leaf-list lb { type boolean; }
    leaf-list ld { type decimal64 { fraction-digits 2; } }
    leaf-list lu { type uint64; }
    leaf uid { type union { type identityref { base base-id; } type int32; } }
    leaf ub { type union { type boolean; type int8; } }
    leaf-list lun { type union { type int32; type string; } }
    leaf tul { type tu; }
    leaf-list tull { type tu; }
    leaf-list tu2ll { type tu2; }
    leaf tu2l { type tu2; }
    leaf tnul { type tnu; }
    leaf-list tnull { type tnu; }
    leaf en { type enumeration { enum "1" { value 2; } enum "2" { value 1; } enum "x" { value 7; } } }
    leaf lr { type leafref { path "../i8"; } }
    leaf lre { type leafref { path "../e"; } }
    leaf-list llr { type leafref { path "../s"; } }
    leaf-list lli8 { type leafref { path "../i8"; } }
    leaf eq { type enumeration { enum "a\"b"; enum "c\\d"; enum "t\tb"; enum "q'x"; enum "<&>"; enum "sp ace"; } }
    leaf lridr { type leafref { path "../idr"; } }
    leaf lrbits { type leafref { path "../bits"; } }
    leaf-list lbits { type bits { bit x; bit y; bit z; } }
    leaf-list lidr { type identityref { base base-id; } }
    leaf-list lbin { type binary; }
    leaf-list li8 { type int8; }
    leaf-list li64 { type int64; }
    leaf-list lu8 { type uint8; }
  }
  list ent { key k; leaf k { type string; } leaf x { type int32; } container sub { leaf y { type string; } } }
  leaf last { type string; }
}`

var (
	schemaMu    sync.Mutex
	schemaCache = map[string]*meta.Module{}
)

// LoadText compiles YANG text (panics on error: harness schemas are valid).
// SchemaFiles holds the other modules / submodules a family member needs (by schema name).
var SchemaFiles = map[string]map[string]string{}

// ModuleOf gives, per schema name, the harness' own answer to "which module's text defines the
// data node with this identifier" (nil: the schema's only module).
var ModuleOf = map[string]func(ident string) string{}

func LoadText(text string) *meta.Module {
	return LoadTextWith(text, nil)
}

func LoadTextWith(text string, files map[string]string) *meta.Module {
	var op source.Opener
	if files != nil {
		op = func(name string, ext string) (io.Reader, error) {
			if t, ok := files[name]; ok {
				return strings.NewReader(t), nil
			}
			return nil, fmt.Errorf("%s not found", name)
		}
	}
	m, err := parser.LoadModuleFromString(op, text)
	if err != nil {
		panic(fmt.Sprintf("harness schema does not load: %v\n%s", err, text))
	}
	return m
}

// Schema returns a freshly compiled module for a family member. A new module
// per call keeps cases independent.
func Schema(name string) *meta.Module {
	text, ok := Schemas[name]
	if !ok {
		panic("unknown schema " + name)
	}
	return LoadTextWith(text, SchemaFiles[name])
}

// SharedSchema returns a cached module (read-only use).
func SharedSchema(name string) *meta.Module {
	schemaMu.Lock()
	defer schemaMu.Unlock()
	if m, ok := schemaCache[name]; ok {
		return m
	}
	m := Schema(name)
	schemaCache[name] = m
	return m
}

// ParseScalar converts text to a value of the leaf's scalar type with the
// harness' own rules (simple types only); nil if unsupported.
func ParseScalar(t *meta.Type, s string) val.Value {
	switch t.Format().Single() {
	case val.FmtString:
		return val.String(s)
	case val.FmtBool:
		return val.Bool(s == "true")
	case val.FmtInt8:
		i, _ := strconv.ParseInt(s, 10, 8)
		return val.Int8(i)
	case val.FmtInt16:
		i, _ := strconv.ParseInt(s, 10, 16)
		return val.Int16(i)
	case val.FmtInt32:
		i, _ := strconv.ParseInt(s, 10, 32)
		return val.Int32(i)
	case val.FmtInt64:
		i, _ := strconv.ParseInt(s, 10, 64)
		return val.Int64(i)
	case val.FmtUInt8:
		i, _ := strconv.ParseUint(s, 10, 8)
		return val.UInt8(i)
	case val.FmtUInt16:
		i, _ := strconv.ParseUint(s, 10, 16)
		return val.UInt16(i)
	case val.FmtUInt32:
		i, _ := strconv.ParseUint(s, 10, 32)
		return val.UInt32(i)
	case val.FmtUInt64:
		i, _ := strconv.ParseUint(s, 10, 64)
		return val.UInt64(i)
	case val.FmtDecimal64:
		f, _ := strconv.ParseFloat(s, 64)
		return val.Decimal64(f)
	case val.FmtEnum:
		for _, e := range t.Enum() {
			if e.Label == s {
				return e
			}
		}
	case val.FmtLeafRef:
		if r := t.Resolve(); r != nil && r != t {
			return ParseScalar(r, s)
		}
	case val.FmtIdentityRef:
		return val.IdentRef{Label: s}
	case val.FmtBinary:
		return val.Binary(s)
	case val.FmtBits:
		b := val.Bits{}
		for _, lbl := range strings.Fields(s) {
			for _, bd := range t.Bits() {
				if bd.Ident() == lbl {
					b.Labels = append(b.Labels, lbl)
					b.Positions |= 1 << bd.Position
				}
			}
		}
		return b
	case val.FmtUnion:
		// first member whose lexical space holds s (RFC 7950 9.12)
		hasString := false
		for _, mt := range t.Union() {
			switch mt.Format() {
			case val.FmtString:
				hasString = true
				continue
			case val.FmtIdentityRef:
				if meta.FindIdentity(mt.Base(), s) != nil {
					return val.IdentRef{Label: s}
				}
				continue
			case val.FmtBool:
				if s == "true" || s == "false" {
					return val.Bool(s == "true")
				}
				continue
			case val.FmtEnum:
				for _, e := range mt.Enum() {
					if e.Label == s {
						return e
					}
				}
				continue
			}
			if _, err := strconv.ParseFloat(s, 64); err == nil {
				if v := ParseScalar(mt, s); v != nil {
					return v
				}
			}
		}
		if !hasString {
			return nil
		}
		return val.String(s)
	}
	return nil
}

// DefaultVal is the harness' own reading of a leaf's schema default.
func DefaultVal(l meta.Leafable) val.Value {
	if !l.HasDefault() {
		return nil
	}
	switch d := l.DefaultValue().(type) {
	case string:
		return ParseScalar(l.Type(), d)
	case []string:
		var vs []val.Value
		for _, s := range d {
			v := ParseScalar(l.Type(), s)
			if v == nil {
				return nil
			}
			vs = append(vs, v)
		}
		if len(vs) == 0 {
			return nil
		}
		return ListOf(vs...)
	}
	return nil
}

// DefsAt resolves a schema path like "c/d" or "l" to its definition.
func DefAt(m *meta.Module, path string) meta.Definition {
	if path == "" {
		return nil
	}
	var cur meta.Meta = m
	for _, seg := range strings.Split(path, "/") {
		d := meta.Find(cur, seg)
		if d == nil {
			panic("no such schema path " + path)
		}
		cur = d
	}
	return cur.(meta.Definition)
}
