package eng

// Explicit-state breadth-first search over operation histories on the real
// code. A state is identified by the canonical key of the instance reached;
// live objects are not cloned: the successor of a state is computed by
// replaying its (shortest) history on a fresh instance plus one operation.

type StepViol struct {
	Sig  string
	What string
}

type Explorer[I any, O any] struct {
	// New builds a fresh instance in the initial state.
	New func() I
	// Ops lists the operations enabled in the instance's state, in canonical
	// (simplest first) order.
	Ops func(inst I) []O
	// Step applies op to the instance (implementation and reference model)
	// and returns the oracle violations of this transition.
	Step func(inst I, op O) []StepViol
	// Key is the canonical form of the instance's state.
	Key func(inst I) string
	// Depth bounds history length; MaxStates caps the visited set (0 = none).
	Depth     int
	MaxStates int
	// NoDedup explores the full tree of histories (no visited set).
	NoDedup bool
}

type HistViol[O any] struct {
	StepViol
	History []O
}

type BFSResult[O any] struct {
	States      int64
	Transitions int64
	MaxDepth    int
	Closed      bool // the frontier became empty before the depth bound
	Capped      bool
	Viols       []HistViol[O]
}

func (e *Explorer[I, O]) Run() BFSResult[O] {
	var r BFSResult[O]
	seen := map[string]bool{}
	seenSig := map[string]bool{}
	init := e.New()
	seen[e.Key(init)] = true
	r.States = 1
	frontier := [][]O{nil}
	for depth := 0; depth < e.Depth && len(frontier) > 0; depth++ {
		var next [][]O
		for _, hist := range frontier {
			// ops enabled at the state reached by hist
			base := e.New()
			ok := true
			for _, op := range hist {
				if vs := e.Step(base, op); len(vs) > 0 {
					ok = false // a violating prefix is not extended
					break
				}
			}
			if !ok {
				continue
			}
			ops := e.Ops(base)
			for _, op := range ops {
				inst := e.New()
				for _, h := range hist {
					e.Step(inst, h)
				}
				vs := e.Step(inst, op)
				r.Transitions++
				h2 := append(append([]O{}, hist...), op)
				if len(vs) > 0 {
					for _, v := range vs {
						if !seenSig[v.Sig] {
							seenSig[v.Sig] = true
							r.Viols = append(r.Viols, HistViol[O]{v, h2})
						}
					}
					continue
				}
				k := e.Key(inst)
				if e.NoDedup || !seen[k] {
					if !seen[k] {
						r.States++
					}
					seen[k] = true
					next = append(next, h2)
					if e.MaxStates > 0 && int(r.States) >= e.MaxStates {
						r.Capped = true
					}
				}
			}
			if r.Capped {
				break
			}
		}
		r.MaxDepth = depth + 1
		frontier = next
		if r.Capped {
			break
		}
	}
	r.Closed = len(frontier) == 0 && !r.Capped
	return r
}
