// Package eng is the shared machinery of the bounded-exhaustive checks:
// case enumeration driver, in-process and sub-process execution, violation
// signatures and known-findings matching, evidence and replay files.
package eng

import (
	"bufio"
	"crypto/sha1"
	"encoding/hex"
	"encoding/json"
	"fmt"
	"io"
	"os"
	"os/exec"
	"path/filepath"
	"regexp"
	"runtime"
	"runtime/debug"
	"sort"
	"strings"
	"sync"
	"time"
)

// Root is the verification directory (all artefacts live below it).
var Root = "/verif"

// Viol is one deviation from an oracle observed while running one case.
type Viol struct {
	// Sig is property/clause/site/symptom; never contains concrete values,
	// line numbers or addresses.
	Sig string `json:"sig"`
	// What is a one-line human description including the concrete example.
	What string `json:"what"`
	// Case is the minimal replayable case (defaults to the case being run).
	Case json.RawMessage `json:"case,omitempty"`
}

// Result is what running one case reports.
type Result struct {
	Viols []Viol `json:"viols,omitempty"`
	// Evals is the number of executions on the real code this case made
	// (defaults to 1 when zero).
	Evals int64 `json:"evals,omitempty"`
	// NontrivKeys are the distinct non-trivial inputs/states touched by the
	// case (by the rule the property states); counted globally distinct.
	NontrivKeys []string `json:"nk,omitempty"`
	// Nontriv adds to the distinct count directly, for cases that already
	// count distinct keys internally and whose keys cannot collide with
	// those of another case.
	Nontriv int64 `json:"nt,omitempty"`
	// Outcomes are labels of observed outcome classes (vacuity detector).
	Outcomes    []string `json:"oc,omitempty"`
	States      int64    `json:"st,omitempty"`
	Transitions int64    `json:"tr,omitempty"`
	// Capped is set when the case stopped at an internal cap before
	// finishing its enumeration.
	Capped bool `json:"capped,omitempty"`
	// Sample, if set, may be kept as one of the evidence samples.
	Sample interface{} `json:"sample,omitempty"`
	// Crash is set by the sub-process driver (not by props).
	Crash string `json:"crash,omitempty"`
}

func (r *Result) Add(sig, what string) {
	r.Viols = append(r.Viols, Viol{Sig: sig, What: what})
}

func (r *Result) AddCase(sig, what string, c interface{}) {
	b, _ := json.Marshal(c)
	r.Viols = append(r.Viols, Viol{Sig: sig, What: what, Case: b})
}

// Prop is one property's check.
type Prop interface {
	ID() string
	// Level is the evidence level category.
	Level() string
	// Rule describes enumeration and non-triviality (evidence "rule").
	Rule() string
	// Bounds describes the bounds of the tier.
	Bounds(tier string) map[string]interface{}
	// Cases enumerates every case of the tier, in canonical order, simplest
	// first. A case is any JSON-serialisable value.
	Cases(tier string, emit func(c interface{}))
	// Run executes one case on the real code and checks the oracle.
	Run(c json.RawMessage) Result
	// Subprocess says whether cases must run in crash-proof workers.
	Subprocess() bool
}

// Splitter is optionally implemented by sub-process props whose cases are
// batches: when a batch kills its worker (or hangs) the driver runs the
// sub-cases one by one to attribute the crash.
type Splitter interface {
	Split(c json.RawMessage) []json.RawMessage
}

// CrashSiter is optionally implemented by sub-process props: a site label for the
// signature of a worker death / deadline on the given case (input class, never the input).
type CrashSiter interface {
	CrashSite(c json.RawMessage) string
}

func crashSite(id string, c json.RawMessage) string {
	if cs, ok := Lookup(id).(CrashSiter); ok {
		if s := cs.CrashSite(c); s != "" {
			return s + "/"
		}
	}
	return ""
}

// Assumer is optionally implemented to list assumptions in evidence.
type Assumer interface{ Assumptions() []string }

var registry = map[string]Prop{}

func Register(p Prop)       { registry[p.ID()] = p }
func Lookup(id string) Prop { return registry[id] }
func IDs() []string {
	var ids []string
	for id := range registry {
		ids = append(ids, id)
	}
	sort.Strings(ids)
	return ids
}

// ---------------------------------------------------------------- findings

type Finding struct {
	Property   string `json:"property"`
	Signature  string `json:"signature,omitempty"`
	WhatFails  string `json:"what_fails,omitempty"`
	Status     string `json:"status"` // known | fixed
	Commit     string `json:"commit,omitempty"`
	WhatFailed string `json:"what_failed,omitempty"`
	Example    string `json:"example,omitempty"`
}

type findingsFile struct {
	Findings []Finding `json:"findings"`
}

func LoadFindings() ([]Finding, error) {
	b, err := os.ReadFile(filepath.Join(Root, "known_findings.json"))
	if err != nil {
		if os.IsNotExist(err) {
			return nil, nil
		}
		return nil, err
	}
	var f findingsFile
	if err := json.Unmarshal(b, &f); err != nil {
		return nil, err
	}
	return f.Findings, nil
}

// ---------------------------------------------------------------- run

type agg struct {
	first Viol
	count int64
	ord   int64
	// origin is the enumerated case that produced first (first.Case may be a smaller replay case)
	origin json.RawMessage
}

type Options struct {
	Tier     string
	Seed     int64
	Discover bool
	Workers  int
	// Budget ends the enumeration early (exhaustive:false); 0 = none.
	Budget time.Duration
	Self   string // path of this binary, for sub-process workers
}

// SafeRun runs one case in-process with panic recovery.
func SafeRun(p Prop, c json.RawMessage) (res Result) {
	defer func() {
		if r := recover(); r != nil {
			res.Viols = append(res.Viols, Viol{
				Sig:  p.ID() + "/harness/panic:" + TopFrame(debug.Stack()),
				What: fmt.Sprintf("unexpected panic while running case: %v", NormMsg(fmt.Sprint(r))),
			})
		}
	}()
	return p.Run(c)
}

// RunCheck enumerates and runs all cases of a property and returns the exit code.
func RunCheck(p Prop, o Options) int {
	start := time.Now()
	if o.Workers <= 0 {
		o.Workers = runtime.NumCPU()
	}
	known, err := LoadFindings()
	if err != nil {
		fmt.Fprintf(os.Stderr, "HARNESS-ERROR: known_findings.json: %v\n", err)
		return 2
	}
	knownSig := map[string]Finding{}
	for _, f := range known {
		if f.Property == p.ID() && f.Status == "known" {
			knownSig[f.Signature] = f
		}
	}

	type job struct {
		ord int64
		c   json.RawMessage
	}
	jobs := make(chan job, 256)
	type done struct {
		ord int64
		c   json.RawMessage
		r   Result
	}
	results := make(chan done, 256)

	var wg sync.WaitGroup
	for w := 0; w < o.Workers; w++ {
		wg.Add(1)
		go func() {
			defer wg.Done()
			var sp *subproc
			defer func() {
				if sp != nil {
					sp.close()
				}
			}()
			for j := range jobs {
				var r Result
				if p.Subprocess() {
					r, sp = runInSubproc(sp, o.Self, p.ID(), j.c)
					if r.Crash != "" {
						if spl, ok := p.(Splitter); ok {
							// attribute the crash: run the members of the batch one by one, splitting
							// again as long as a crashing member can be split
							var attribute func(c json.RawMessage, depth int) Result
							attribute = func(c json.RawMessage, depth int) Result {
								var sr Result
								sr, sp = runInSubprocD(sp, o.Self, p.ID(), c, SplitDeadline)
								if sr.Crash != "" && depth < 4 {
									if subs := spl.Split(c); len(subs) > 0 {
										var agg Result
										for _, sc := range subs {
											x := attribute(sc, depth+1)
											agg.Viols = append(agg.Viols, x.Viols...)
											agg.Evals += x.Evals
											agg.Nontriv += x.Nontriv
											agg.Outcomes = append(agg.Outcomes, x.Outcomes...)
										}
										return agg
									}
								}
								for i := range sr.Viols {
									if len(sr.Viols[i].Case) == 0 {
										sr.Viols[i].Case = c
									}
								}
								return sr
							}
							sigOfCrash := ""
							if len(r.Viols) > 0 {
								sigOfCrash = r.Viols[0].Sig
							}
							crashMu.Lock()
							crashAttributions[sigOfCrash]++
							takeApart := crashAttributions[sigOfCrash] <= maxAttributions
							crashMu.Unlock()
							if subs := spl.Split(j.c); len(subs) > 0 && takeApart {
								var agg Result
								for _, sc := range subs {
									x := attribute(sc, 1)
									agg.Viols = append(agg.Viols, x.Viols...)
									agg.Evals += x.Evals
									agg.Nontriv += x.Nontriv
									agg.Outcomes = append(agg.Outcomes, x.Outcomes...)
								}
								r = agg
							}
						}
					}
				} else {
					r = SafeRun(p, j.c)
				}
				results <- done{j.ord, j.c, r}
			}
		}()
	}

	var total int64
	exhaustive := true
	go func() {
		var ord int64
		deadline := time.Time{}
		if o.Budget > 0 {
			deadline = start.Add(o.Budget)
		}
		stop := false
		p.Cases(o.Tier, func(c interface{}) {
			if stop {
				return
			}
			if !deadline.IsZero() && time.Now().After(deadline) {
				stop = true
				exhaustive = false
				return
			}
			b, err := json.Marshal(c)
			if err != nil {
				panic(err)
			}
			jobs <- job{ord, b}
			ord++
		})
		total = ord
		close(jobs)
		wg.Wait()
		close(results)
	}()

	viols := map[string]*agg{}
	nontriv := map[string]struct{}{}
	outcomes := map[string]int64{}
	var evals, states, transitions, nontrivDirect, ncases int64
	var samples []interface{}
	var firstCases []json.RawMessage
	capped := false
	for d := range results {
		ncases++
		r := d.r
		if r.Evals == 0 {
			r.Evals = 1
		}
		evals += r.Evals
		states += r.States
		transitions += r.Transitions
		nontrivDirect += r.Nontriv
		if r.Capped {
			capped = true
		}
		for _, k := range r.NontrivKeys {
			nontriv[k] = struct{}{}
		}
		for _, oc := range r.Outcomes {
			outcomes[oc]++
		}
		if r.Sample != nil && len(samples) < 6 {
			samples = append(samples, r.Sample)
		}
		if len(firstCases) < 3 {
			firstCases = append(firstCases, d.c)
		}
		for _, v := range r.Viols {
			if len(v.Case) == 0 {
				v.Case = d.c
			}
			a := viols[v.Sig]
			if a == nil {
				viols[v.Sig] = &agg{first: v, count: 1, ord: d.ord, origin: d.c}
			} else {
				a.count++
				if d.ord < a.ord || (d.ord == a.ord && len(v.Case) < len(a.first.Case)) {
					a.first, a.ord, a.origin = v, d.ord, d.c
				}
			}
		}
	}
	if capped {
		exhaustive = false
	}

	// classify
	var sigs []string
	for s := range viols {
		sigs = append(sigs, s)
	}
	sort.Strings(sigs)
	knownHit := map[string]int64{}
	var fresh []string
	for _, s := range sigs {
		if _, ok := knownSig[s]; ok {
			knownHit[s] = viols[s].count
		} else {
			fresh = append(fresh, s)
		}
	}

	if o.Discover {
		for _, s := range sigs {
			a := viols[s]
			tag := "NEW  "
			if _, ok := knownSig[s]; ok {
				tag = "KNOWN"
			}
			fmt.Printf("%s %6d  %s\n        %s\n        case=%s\n", tag, a.count, s, a.first.What, trunc(string(a.first.Case), 600))
		}
		var stale []string
		for s := range knownSig {
			if _, ok := viols[s]; !ok {
				stale = append(stale, s)
			}
		}
		sort.Strings(stale)
		for _, s := range stale {
			fmt.Printf("STALE        %s\n", s)
		}
	}

	// confirm fresh violations: re-run 5x in the same mode, must reproduce
	exit := 0
	deadlineMisses := 0
	var confirmed []string
	for _, s := range fresh {
		a := viols[s]
		rerun := func(c json.RawMessage) int {
			ok := 0
			for i := 0; i < 5; i++ {
				var r Result
				if p.Subprocess() {
					var sp *subproc
					r, sp = runInSubproc(nil, o.Self, p.ID(), c)
					if sp != nil {
						sp.close()
					}
				} else {
					r = SafeRun(p, c)
				}
				for _, v := range r.Viols {
					if v.Sig == s {
						ok++
						break
					}
				}
			}
			return ok
		}
		ok := rerun(a.first.Case)
		if ok < 5 && len(a.origin) > 0 && string(a.origin) != string(a.first.Case) {
			// the smaller replay case does not show it (a defect of the harness' replay encoding):
			// confirm with the enumerated case it came from and keep that as the replay
			if rerun(a.origin) == 5 {
				fmt.Fprintf(os.Stderr, "HARNESS-NOTE: %s: replay case reproduced %d/5, the enumerated case 5/5; the enumerated case is kept as replay\n", s, ok)
				a.first.Case = a.origin
				ok = 5
			}
		}
		if ok == 5 {
			confirmed = append(confirmed, s)
		} else if ok == 0 && (strings.HasSuffix(s, "hang") || strings.HasSuffix(s, "/slow")) {
			// a deadline is a wall-clock limit: a case that missed it once (machine under load) and then
			// finishes five times out of five is no finding and no sign of a harness defect. The case is
			// not counted as covered by the first run: the run is not exhaustive.
			fmt.Fprintf(os.Stderr, "HARNESS-NOTE: %s: a deadline was missed once and the case finished in 5 of 5 re-runs (%s); run reported as not exhaustive\n", s, a.first.What)
			exhaustive = false
			deadlineMisses++
		} else {
			fmt.Fprintf(os.Stderr, "HARNESS-NONDETERMINISM: %s reproduced %d/5 (%s)\n", s, ok, a.first.What)
			exit = 2
		}
	}

	for _, s := range sortedKeys(knownHit) {
		fmt.Printf("KNOWN-FINDING: property=%s %s [%s] (%d cases)\n", p.ID(), knownSig[s].WhatFails, s, knownHit[s])
	}
	var replayPaths []string
	for i, s := range confirmed {
		a := viols[s]
		path := writeReplay(p.ID(), s, a.first)
		replayPaths = append(replayPaths, path)
		if i < 25 {
			fmt.Printf("VIOLATION property=%s replay=%s\n    signature: %s\n    what: %s\n", p.ID(), path, s, a.first.What)
		}
		exit = 1
	}
	if len(confirmed) > 25 {
		fmt.Printf("... and %d more violation signatures (see evidence)\n", len(confirmed)-25)
	}

	var stale []string
	for s := range knownSig {
		if _, ok := viols[s]; !ok {
			stale = append(stale, s)
		}
	}
	sort.Strings(stale)

	// evidence
	for _, c := range firstCases {
		if len(samples) >= 6 {
			break
		}
		var v interface{}
		json.Unmarshal(c, &v)
		samples = append(samples, v)
	}
	cov := map[string]interface{}{
		"evaluations":                    evals,
		"cases":                          ncases,
		"distinct_nontrivial":            int64(len(nontriv)) + nontrivDirect,
		"rule":                           p.Rule(),
		"samples":                        samples,
		"exhaustive":                     exhaustive,
		"deadline_misses_not_reproduced": deadlineMisses,
		"bounds":                         p.Bounds(o.Tier),
		"distinct_outcomes":              len(outcomes),
		"outcomes":                       outcomes,
		"known_findings_hit":             knownHit,
		"stale_known_findings":           stale,
		"new_violation_signatures":       confirmed,
		"workers":                        o.Workers,
		"cases_enumerated":               total,
	}
	if p.Level() == "model_checking" {
		cov["states"] = states
		cov["transitions"] = transitions
		cov["traces_validated_against_impl"] = transitions
	} else if states > 0 {
		cov["states"] = states
		cov["transitions"] = transitions
	}
	ev := map[string]interface{}{
		"property_id": p.ID(),
		"tier":        o.Tier,
		"seed":        o.Seed,
		"level":       p.Level(),
		"coverage":    cov,
		"wall_s":      time.Since(start).Seconds(),
		"violations":  len(confirmed),
	}
	if a, ok := p.(Assumer); ok {
		ev["assumptions"] = a.Assumptions()
	}
	if !o.Discover {
		os.MkdirAll(filepath.Join(Root, "evidence"), 0o755)
		b, _ := json.MarshalIndent(ev, "", " ")
		if err := os.WriteFile(filepath.Join(Root, "evidence", p.ID()+".json"), append(b, '\n'), 0o644); err != nil {
			fmt.Fprintf(os.Stderr, "HARNESS-ERROR: evidence: %v\n", err)
			return 2
		}
	}
	fmt.Printf("%s %s: cases=%d evaluations=%d distinct_nontrivial=%d states=%d transitions=%d outcomes=%d known=%d new=%d exhaustive=%v wall=%.1fs\n",
		p.ID(), o.Tier, ncases, evals, int64(len(nontriv))+nontrivDirect, states, transitions, len(outcomes), len(knownHit), len(confirmed), exhaustive, time.Since(start).Seconds())
	return exit
}

func sortedKeys(m map[string]int64) []string {
	var ks []string
	for k := range m {
		ks = append(ks, k)
	}
	sort.Strings(ks)
	return ks
}

func trunc(s string, n int) string {
	if len(s) > n {
		return s[:n] + "…"
	}
	return s
}

// ---------------------------------------------------------------- replay

type ReplayFile struct {
	Property  string          `json:"property"`
	Signature string          `json:"signature"`
	What      string          `json:"what"`
	Case      json.RawMessage `json:"case"`
}

func writeReplay(id, sig string, v Viol) string {
	h := sha1.Sum([]byte(sig))
	dir := filepath.Join(Root, "replays", id)
	os.MkdirAll(dir, 0o755)
	path := filepath.Join(dir, hex.EncodeToString(h[:6])+".json")
	b, _ := json.MarshalIndent(ReplayFile{Property: id, Signature: sig, What: v.What, Case: v.Case}, "", " ")
	os.WriteFile(path, append(b, '\n'), 0o644)
	return path
}

// Replay re-runs one stored case; returns exit code 1 if the stored
// signature (or any violation) reproduces.
func Replay(path, self string) int {
	b, err := os.ReadFile(path)
	if err != nil {
		fmt.Fprintln(os.Stderr, err)
		return 2
	}
	var rf ReplayFile
	if err := json.Unmarshal(b, &rf); err != nil {
		fmt.Fprintln(os.Stderr, err)
		return 2
	}
	p := Lookup(rf.Property)
	if p == nil {
		fmt.Fprintf(os.Stderr, "unknown property %s\n", rf.Property)
		return 2
	}
	var r Result
	if p.Subprocess() {
		var sp *subproc
		r, sp = runInSubproc(nil, self, p.ID(), rf.Case)
		if sp != nil {
			sp.close()
		}
	} else {
		r = SafeRun(p, rf.Case)
	}
	code := 0
	for _, v := range r.Viols {
		mark := " "
		if v.Sig == rf.Signature {
			mark = "*"
			code = 1
		}
		fmt.Printf("%s %s\n    %s\n", mark, v.Sig, v.What)
	}
	if code == 1 {
		fmt.Printf("REPRODUCED property=%s signature=%s\n", rf.Property, rf.Signature)
	} else {
		fmt.Printf("NOT-REPRODUCED property=%s signature=%s (%d other violations)\n", rf.Property, rf.Signature, len(r.Viols))
	}
	return code
}

// ---------------------------------------------------------------- subprocess workers

type subproc struct {
	cmd  *exec.Cmd
	in   io.WriteCloser
	out  *bufio.Reader
	errb *tailBuf
}

type tailBuf struct {
	mu  sync.Mutex
	buf []byte
}

func (t *tailBuf) Write(p []byte) (int, error) {
	t.mu.Lock()
	defer t.mu.Unlock()
	if len(t.buf) < 16384 {
		n := 16384 - len(t.buf)
		if n > len(p) {
			n = len(p)
		}
		t.buf = append(t.buf, p[:n]...)
	}
	return len(p), nil
}

func (t *tailBuf) String() string {
	t.mu.Lock()
	defer t.mu.Unlock()
	return string(t.buf)
}

func startSubproc(self, id string) (*subproc, error) {
	cmd := exec.Command(self, "worker", id)
	in, err := cmd.StdinPipe()
	if err != nil {
		return nil, err
	}
	out, err := cmd.StdoutPipe()
	if err != nil {
		return nil, err
	}
	tb := &tailBuf{}
	cmd.Stderr = tb
	if err := cmd.Start(); err != nil {
		return nil, err
	}
	return &subproc{cmd: cmd, in: in, out: bufio.NewReaderSize(out, 1<<20), errb: tb}, nil
}

func (s *subproc) close() {
	s.in.Close()
	done := make(chan struct{})
	go func() { s.cmd.Wait(); close(done) }()
	select {
	case <-done:
	case <-time.After(2 * time.Second):
		s.cmd.Process.Kill()
		<-done
	}
}

func (s *subproc) kill() {
	s.cmd.Process.Kill()
	s.cmd.Wait()
}

// CaseDeadline is the per-case deadline in worker mode.
var CaseDeadline = 30 * time.Second

// Deadliner is optionally implemented by sub-process props whose cases legitimately run longer.
type Deadliner interface {
	CaseDeadline() time.Duration
}

func deadlineOf(id string) time.Duration {
	if d, ok := Lookup(id).(Deadliner); ok {
		return d.CaseDeadline()
	}
	return CaseDeadline
}

// SplitDeadline is the deadline of a member of a crashing batch run on its own (a single
// input takes milliseconds; a hang must not cost the batch deadline once per member).
var SplitDeadline = 20 * time.Second

// crashAttributions counts, per crash signature, how many crashing batches were taken apart;
// after maxAttributions the remaining ones are reported at batch level.
var (
	crashMu           sync.Mutex
	crashAttributions = map[string]int{}
)

const maxAttributions = 3

// runInSubproc runs one case in a worker, (re)starting it as needed. A worker
// death or deadline is turned into a violation with a crash signature.
func runInSubproc(sp *subproc, self, id string, c json.RawMessage) (Result, *subproc) {
	return runInSubprocD(sp, self, id, c, deadlineOf(id))
}

func runInSubprocD(sp *subproc, self, id string, c json.RawMessage, deadline time.Duration) (Result, *subproc) {
	var err error
	if sp == nil {
		if sp, err = startSubproc(self, id); err != nil {
			return Result{Viols: []Viol{{Sig: id + "/harness/worker-start", What: err.Error()}}}, nil
		}
	}
	if _, err = sp.in.Write(append(append([]byte{}, c...), '\n')); err != nil {
		sp.kill()
		return Result{Viols: []Viol{{Sig: id + "/harness/worker-write", What: err.Error()}}}, nil
	}
	type rd struct {
		line []byte
		err  error
	}
	ch := make(chan rd, 1)
	go func() {
		line, err := sp.out.ReadBytes('\n')
		ch <- rd{line, err}
	}()
	select {
	case x := <-ch:
		if x.err != nil {
			// worker died
			sp.cmd.Wait()
			stderr := sp.errb.String()
			kind := "fatal"
			if strings.Contains(stderr, "stack overflow") || strings.Contains(stderr, "goroutine stack exceeds") {
				kind = "fatal-stack-overflow"
			} else if strings.Contains(stderr, "out of memory") || strings.Contains(stderr, "cannot allocate") {
				kind = "fatal-out-of-memory"
			}
			frame := TopFrame([]byte(stderr))
			if kind == "fatal-stack-overflow" {
				// where the stack limit is hit is arbitrary: the frame is not part of the signature
				frame = "recursion"
			}
			return Result{
				Crash: kind,
				Viols: []Viol{{Sig: fmt.Sprintf("%s/crash/%s%s:%s", id, crashSite(id, c), kind, frame), What: fmt.Sprintf("worker process died (%s) in %s: %s", kind, frame, trunc(firstLine(stderr), 200))}},
			}, nil
		}
		var r Result
		if err := json.Unmarshal(x.line, &r); err != nil {
			sp.kill()
			return Result{Viols: []Viol{{Sig: id + "/harness/worker-protocol", What: err.Error() + ": " + trunc(string(x.line), 200)}}}, nil
		}
		return r, sp
	case <-time.After(deadline):
		sp.kill()
		return Result{
			Crash: "hang",
			Viols: []Viol{{Sig: id + "/crash/" + crashSite(id, c) + "hang", What: fmt.Sprintf("case did not finish within %v", deadline)}},
		}, nil
	}
}

func firstLine(s string) string {
	if i := strings.IndexByte(s, '\n'); i >= 0 {
		return s[:i]
	}
	return s
}

// WorkerMain is the loop of a worker process.
func WorkerMain(id string) int {
	p := Lookup(id)
	if p == nil {
		fmt.Fprintf(os.Stderr, "unknown property %s\n", id)
		return 2
	}
	debug.SetMaxStack(64 << 20)
	in := bufio.NewReaderSize(os.Stdin, 1<<20)
	out := bufio.NewWriter(os.Stdout)
	for {
		line, err := in.ReadBytes('\n')
		if len(line) > 0 {
			r := SafeRun(p, json.RawMessage(line))
			b, _ := json.Marshal(r)
			out.Write(b)
			out.WriteByte('\n')
			out.Flush()
		}
		if err != nil {
			return 0
		}
	}
}

// ---------------------------------------------------------------- panic attribution

var frameRe = regexp.MustCompile(`(?m)^(github\.com/freeconf/yang/[^\s(]+(?:\([^)]*\))?[^\s(]*)\(`)

// TopFrame returns the function name of the first library frame of a stack
// trace (no file names or line numbers).
func TopFrame(stack []byte) string {
	for _, line := range strings.Split(string(stack), "\n") {
		if !strings.HasPrefix(line, "github.com/freeconf/yang/") {
			continue
		}
		// strip argument list
		name := line
		if i := strings.LastIndex(name, "("); i > 0 {
			name = name[:i]
		}
		name = strings.TrimPrefix(name, "github.com/freeconf/yang/")
		// drop closure suffixes like .func1.2
		name = closureRe.ReplaceAllString(name, "")
		name = strings.Replace(name, "[...]", "", -1)
		return name
	}
	return "unknown"
}

var closureRe = regexp.MustCompile(`(\.func\d+)+(\.\d+)*$`)
var numRe = regexp.MustCompile(`0x[0-9a-f]+|\d+`)

// NormMsg normalises numbers and addresses out of a panic message.
func NormMsg(s string) string {
	s = numRe.ReplaceAllString(s, "N")
	return trunc(s, 160)
}

// Recover runs f and returns a description of a panic, if any: the top
// library frame and the normalised message.
func Recover(f func()) (frame, msg string, panicked bool) {
	defer func() {
		if r := recover(); r != nil {
			panicked = true
			frame = TopFrame(debug.Stack())
			msg = NormMsg(fmt.Sprint(r))
		}
	}()
	f()
	return
}
