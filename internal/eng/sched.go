package eng

// Cooperative scheduler with depth-first exploration of schedules under a
// preemption bound (CHESS-style iterative context bounding). Thread bodies run
// as goroutines but only the one holding the token runs; every scheduling
// point hands the token back. A schedule is the list of choices taken at the
// decision points; replaying a prefix must reproduce the same decision points.

type schedPoint struct {
	enabled        []int // canonical order: running thread first if enabled, then ascending ids
	runningEnabled bool
	chosen         int // index into enabled
}

type Schedule struct {
	Choices []int `json:"choices"`
}

type schedRun struct {
	points []schedPoint
	// Diverged is set when a replayed prefix asked for a choice that does not exist
	diverged bool
}

// RunSchedule executes bodies under the given choice prefix (choice 0 after it).
// yield must be called by a body at each of its scheduling points.
func RunSchedule(prefix []int, bodies []func(yield func())) schedRun {
	n := len(bodies)
	resume := make([]chan struct{}, n)
	type msg struct {
		tid  int
		done bool
	}
	back := make(chan msg)
	for i := range resume {
		resume[i] = make(chan struct{})
	}
	for i := range bodies {
		i := i
		go func() {
			<-resume[i]
			defer func() {
				// a panicking body still has to give the token back
				if r := recover(); r != nil {
					back <- msg{i, true}
					return
				}
			}()
			bodies[i](func() {
				back <- msg{i, false}
				<-resume[i]
			})
			back <- msg{i, true}
		}()
	}
	done := make([]bool, n)
	running := -1
	var run schedRun
	remaining := n
	for remaining > 0 {
		var enabled []int
		runningEnabled := running >= 0 && !done[running]
		if runningEnabled {
			enabled = append(enabled, running)
		}
		for t := 0; t < n; t++ {
			if !done[t] && t != running {
				enabled = append(enabled, t)
			} else if !done[t] && t == running && !runningEnabled {
				enabled = append(enabled, t)
			}
		}
		choice := 0
		if len(run.points) < len(prefix) {
			choice = prefix[len(run.points)]
			if choice >= len(enabled) {
				run.diverged = true
				choice = 0
			}
		}
		run.points = append(run.points, schedPoint{enabled: enabled, runningEnabled: runningEnabled, chosen: choice})
		running = enabled[choice]
		resume[running] <- struct{}{}
		m := <-back
		if m.done {
			done[m.tid] = true
			remaining--
		}
	}
	return run
}

// ExploreSchedules runs every schedule with at most bound preemptions
// (depth-first over choice prefixes); check is called after every execution
// with the choices taken. It returns the number of executions and whether the
// cap stopped the search.
func ExploreSchedules(bound int, maxExec int, mk func() []func(yield func()), check func(choices []int, diverged bool)) (execs int, capped bool) {
	type frame struct{ prefix []int }
	stack := []frame{{nil}}
	for len(stack) > 0 {
		f := stack[len(stack)-1]
		stack = stack[:len(stack)-1]
		if maxExec > 0 && execs >= maxExec {
			return execs, true
		}
		run := RunSchedule(f.prefix, mk())
		execs++
		choices := make([]int, len(run.points))
		for i, p := range run.points {
			choices[i] = p.chosen
		}
		check(choices, run.diverged)
		// preemptions used before each point
		pre := 0
		for i := 0; i < len(run.points); i++ {
			p := run.points[i]
			if i >= len(f.prefix) {
				cost := pre
				for alt := 1; alt < len(p.enabled); alt++ {
					c := cost
					if p.runningEnabled {
						c++ // switching away from a runnable thread is a preemption
					}
					if c > bound {
						continue
					}
					np := append(append([]int{}, choices[:i]...), alt)
					stack = append(stack, frame{np})
				}
			}
			if p.runningEnabled && p.chosen != 0 {
				pre++
			}
		}
	}
	return execs, false
}
