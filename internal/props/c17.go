package props

import (
	"encoding/json"
	"fmt"
	"math"
	"math/big"
	"strings"
	"verif/internal/model"

	"github.com/freeconf/yang/val"
	"verif/internal/eng"
)

// C17 — typed values are totally ordered like the numbers/strings they denote.
//
// part "values": per value type, all ordered pairs and all triples of a value
// set (exhaustive for 8-bit types, boundary sets for wider ones) are checked
// against the math/big (numbers) or code-point (text) order.
// part "tuples": CompareVals/EqualVals over all tuples of length 1..3.
// part "lookup" (c17_lookup.go): keyed list lookup on slice/map backed nodes.

type c17 struct{ base }

func init() {
	eng.Register(&c17{base{id: "C17", level: "exploration",
		rule: "per value type every ordered pair and triple of the value set (all 256 values for int8/uint8, boundary sets for wider types) is compared through Compare/Equal and against math/big or code-point order; tuples of length 1..3 through CompareVals/EqualVals; keyed lookup: every list content (ordered, no repetition, <=4 keys of a 5-value alphabet) x every lookup key on each list implementation. Non-trivial = distinct ordered pair (type,a,b) with a != b, distinct tuple pair differing in some component, or distinct (impl,keytype,content,lookup) with non-empty content"}})
}

type c17Case struct {
	Part string `json:"part"`
	Type string `json:"type"`
	// lookup part
	Impl    string `json:"impl,omitempty"`
	KeyType string `json:"keytype,omitempty"`
	Content []int  `json:"content,omitempty"`
}

func (p *c17) Bounds(tier string) map[string]interface{} {
	return map[string]interface{}{
		"int8,uint8":  "all 256 values: 65536 pairs, 2^24 triples each",
		"wider types": "boundary sets (min,min+1,-2^31-1,-2^31,-1,0,1,127,128,255,256,2^15+-1,2^16+-1,2^31+-1,2^32+-1,2^53+-1,2^63-1,max-1,max), pairs and triples",
		"text":        "12-word alphabet (prefixes, case, multi-byte), pairs and triples",
		"tuples":      "length 1..3 over 4-value sets per component type",
		"lookup":      "list contents: all ordered arrangements of <=4 distinct keys from a 5-key alphabet; all 5 lookup keys",
	}
}

var c17Types = []string{"int8", "uint8", "int16", "uint16", "int32", "uint32", "int64", "uint64", "decimal64", "string", "identityref", "binary", "enum", "bool"}

func (p *c17) Cases(tier string, emit func(interface{})) {
	for _, t := range c17Types {
		emit(c17Case{Part: "values", Type: t})
	}
	for _, t := range []string{"int8", "uint8", "int32", "uint32", "int64", "uint64", "string", "enum"} {
		emit(c17Case{Part: "tuples", Type: t})
	}
	// equality laws for the value types that have no order
	for _, t := range []string{"bits", "empty", "string-list", "int32-list", "enum-list", "identityref-list", "bool-list", "decimal64-list", "uint64-list"} {
		emit(c17Case{Part: "equality", Type: t})
	}
	emit(c17Case{Part: "mixed"})
	c17LookupCases(tier, emit)
}

// c17EqValues: values with a canonical denotation string; equal iff the strings are equal.
func c17EqValues(t string) []refVal {
	var out []refVal
	add := func(v val.Value, canon string) {
		c := canon
		out = append(out, refVal{v: v, txt: &c, lbl: canon})
	}
	switch t {
	case "bits":
		for _, b := range []val.Bits{{}, {Positions: 1, Labels: []string{"x"}}, {Positions: 2, Labels: []string{"y"}}, {Positions: 3, Labels: []string{"x", "y"}}, {Positions: 3, Labels: []string{"y", "x"}}, {Positions: 1 << 63, Labels: []string{"top"}}} {
			add(b, fmt.Sprint(b.Positions))
		}
	case "empty":
		add(val.NotEmpty, "empty")
		add(val.NotEmpty, "empty")
	case "string-list":
		for _, l := range [][]string{{}, {"a"}, {"a", "b"}, {"b", "a"}, {"a", "a"}, {"ab"}, {"a", ""}} {
			add(val.StringList(l), fmt.Sprintf("%q", l))
		}
	case "int32-list":
		for _, l := range [][]int32{{}, {1}, {1, 2}, {2, 1}, {1, 1}, {-1}, {12}} {
			add(val.Int32List(l), fmt.Sprint(l))
		}
	case "uint64-list":
		for _, l := range [][]uint64{{}, {1}, {1, 2}, {2, 1}, {1 << 63}, {1<<64 - 1}} {
			add(val.UInt64List(l), fmt.Sprint(l))
		}
	case "bool-list":
		for _, l := range [][]bool{{}, {true}, {false}, {true, false}, {false, true}} {
			add(val.BoolList(l), fmt.Sprint(l))
		}
	case "decimal64-list":
		for _, l := range [][]float64{{}, {1.5}, {1.5, 2}, {2, 1.5}, {-1.5}} {
			add(val.Decimal64List(l), fmt.Sprint(l))
		}
	case "enum-list":
		e := func(ids ...int) val.EnumList {
			var l val.EnumList
			for _, id := range ids {
				l = append(l, val.Enum{Id: id, Label: fmt.Sprintf("e%d", id)})
			}
			return l
		}
		for _, ids := range [][]int{{}, {0}, {0, 1}, {1, 0}, {7}} {
			add(e(ids...), fmt.Sprint(ids))
		}
	case "identityref-list":
		for _, l := range [][]string{{}, {"a"}, {"a", "b"}, {"b", "a"}} {
			var il val.IdentRefList
			for _, x := range l {
				il = append(il, val.IdentRef{Label: x})
			}
			add(il, fmt.Sprint(l))
		}
	}
	return out
}

func c17RunEquality(c c17Case) eng.Result {
	var res eng.Result
	vs := c17EqValues(c.Type)
	seen := map[string]bool{}
	report := func(law, what string) {
		sig := "C17/equal/" + c.Type + "/" + law
		if !seen[sig] {
			seen[sig] = true
			res.Add(sig, what)
		}
	}
	for i, a := range vs {
		for j, b := range vs {
			var eq bool
			fr, msg, pan := eng.Recover(func() { eq = val.Equal(a.v, b.v) })
			res.Evals++
			if i != j {
				res.Nontriv++
			}
			if pan {
				report("panic:"+fr, fmt.Sprintf("Equal(%s,%s) panics: %s", a.lbl, b.lbl, msg))
				continue
			}
			if want := *a.txt == *b.txt; eq != want {
				report("equal-vs-denotation", fmt.Sprintf("Equal(%s,%s)=%v, want %v", a.lbl, b.lbl, eq, want))
			}
		}
	}
	res.Outcomes = []string{"equality:" + c.Type}
	return res
}

// refVal pairs a library value with its reference denotation.
type refVal struct {
	v   val.Value
	num *big.Rat // numbers
	txt *string  // text
	lbl string
}

func refCmp(a, b refVal) int {
	if a.num != nil {
		return a.num.Cmp(b.num)
	}
	return strings.Compare(*a.txt, *b.txt) // byte order == code point order for valid UTF-8
}

func intSet(bits int, signed bool) []*big.Int {
	one := big.NewInt(1)
	var lo, hi *big.Int
	if signed {
		lo = new(big.Int).Neg(new(big.Int).Lsh(one, uint(bits-1)))
		hi = new(big.Int).Sub(new(big.Int).Lsh(one, uint(bits-1)), one)
	} else {
		lo = big.NewInt(0)
		hi = new(big.Int).Sub(new(big.Int).Lsh(one, uint(bits)), one)
	}
	var out []*big.Int
	if bits == 8 {
		for i := new(big.Int).Set(lo); i.Cmp(hi) <= 0; i = new(big.Int).Add(i, one) {
			out = append(out, i)
		}
		return out
	}
	cands := []*big.Int{lo, new(big.Int).Add(lo, one), hi, new(big.Int).Sub(hi, one)}
	for _, s := range []string{"-2147483649", "-2147483648", "-32769", "-32768", "-129", "-128", "-1", "0", "1", "2", "127", "128", "255", "256",
		"32767", "32768", "65535", "65536", "2147483647", "2147483648", "4294967295", "4294967296",
		"9007199254740991", "9007199254740993", "9223372036854775807", "9223372036854775808", "18446744073709551615",
		"-9223372036854775808", "-9223372036854775807", "-4611686018427387904", "4611686018427387904"} {
		b, _ := new(big.Int).SetString(s, 10)
		cands = append(cands, b)
	}
	seen := map[string]bool{}
	for _, c := range cands {
		if c.Cmp(lo) < 0 || c.Cmp(hi) > 0 || seen[c.String()] {
			continue
		}
		seen[c.String()] = true
		out = append(out, c)
	}
	return out
}

func mkInt(t string, b *big.Int) val.Value {
	switch t {
	case "int8":
		return val.Int8(b.Int64())
	case "uint8":
		return val.UInt8(b.Uint64())
	case "int16":
		return val.Int16(b.Int64())
	case "uint16":
		return val.UInt16(b.Uint64())
	case "int32":
		return val.Int32(b.Int64())
	case "uint32":
		return val.UInt32(b.Uint64())
	case "int64":
		return val.Int64(b.Int64())
	case "uint64":
		return val.UInt64(b.Uint64())
	}
	panic(t)
}

var c17Words = []string{"", "a", "A", "aa", "ab", "b", "a b", "é", "e", "中", "z", "\U0001F600"}

func c17Values(t string) []refVal {
	var out []refVal
	switch t {
	case "int8", "int16", "int32", "int64", "uint8", "uint16", "uint32", "uint64":
		bits := map[string]int{"int8": 8, "uint8": 8, "int16": 16, "uint16": 16, "int32": 32, "uint32": 32, "int64": 64, "uint64": 64}[t]
		for _, b := range intSet(bits, !strings.HasPrefix(t, "u")) {
			out = append(out, refVal{v: mkInt(t, b), num: new(big.Rat).SetInt(b), lbl: b.String()})
		}
	case "decimal64":
		for _, f := range []float64{-9223372036854775.808, -1e15, -2.5, -1, -0.5, -0.001, 0, 0.001, 0.5, 1, 1.5, 2.5, 1e15, 9223372036854775.807,
			-math.MaxFloat64, math.MaxFloat64, math.SmallestNonzeroFloat64} {
			r := new(big.Rat)
			r.SetFloat64(f)
			out = append(out, refVal{v: val.Decimal64(f), num: r, lbl: fmt.Sprint(f)})
		}
	case "string":
		for _, w := range c17Words {
			w := w
			out = append(out, refVal{v: val.String(w), txt: &w, lbl: fmt.Sprintf("%q", w)})
		}
	case "identityref":
		for _, w := range c17Words[1:] {
			w := w
			out = append(out, refVal{v: val.IdentRef{Label: w}, txt: &w, lbl: fmt.Sprintf("%q", w)})
		}
	case "binary":
		for _, w := range c17Words {
			w := w
			out = append(out, refVal{v: val.Binary([]byte(w)), txt: &w, lbl: fmt.Sprintf("%q", w)})
		}
	case "enum":
		for _, id := range []int{math.MinInt32, -1, 0, 1, 2, 7, math.MaxInt32} {
			out = append(out, refVal{v: val.Enum{Id: id, Label: fmt.Sprintf("e%d", id)}, num: new(big.Rat).SetInt64(int64(id)), lbl: fmt.Sprint(id)})
		}
	case "bool":
		out = append(out, refVal{v: val.Bool(false), num: big.NewRat(0, 1), lbl: "false"})
		out = append(out, refVal{v: val.Bool(true), num: big.NewRat(1, 1), lbl: "true"})
	}
	return out
}

func (p *c17) Run(raw json.RawMessage) eng.Result {
	var c c17Case
	decode(raw, &c)
	switch c.Part {
	case "values":
		return c17RunValues(c)
	case "tuples":
		return c17RunTuples(c)
	case "lookup":
		return c17RunLookup(c)
	case "equality":
		return c17RunEquality(c)
	case "mixed":
		return c17RunMixed()
	}
	panic("bad part " + c.Part)
}

func c17RunValues(c c17Case) eng.Result {
	var res eng.Result
	vs := c17Values(c.Type)
	n := len(vs)
	tbl := make([][]int8, n)
	seen := map[string]bool{}
	report := func(law, what string) {
		sig := "C17/compare/" + c.Type + "/" + law
		if !seen[sig] {
			seen[sig] = true
			res.Add(sig, what)
		}
	}
	ocs := map[string]bool{}
	for i := range vs {
		tbl[i] = make([]int8, n)
		for j := range vs {
			a, b := vs[i], vs[j]
			var got int
			var eq bool
			fr, msg, pan := eng.Recover(func() {
				got = sign(a.v.(val.Comparable).Compare(b.v.(val.Comparable)))
				eq = val.Equal(a.v, b.v)
			})
			res.Evals += 2
			if pan {
				report("panic:"+fr, fmt.Sprintf("%s: Compare/Equal(%s,%s) panics: %s", c.Type, a.lbl, b.lbl, msg))
				continue
			}
			tbl[i][j] = int8(got)
			want := refCmp(a, b)
			ocs[fmt.Sprintf("%s:%d", c.Type, got)] = true
			if i != j {
				res.Nontriv++
			}
			if got != want {
				report("order-vs-denotation", fmt.Sprintf("%s: %s.Compare(%s) has sign %d, the values order as %d", c.Type, a.lbl, b.lbl, got, want))
			}
			if eq != (want == 0) {
				report("equal-vs-denotation", fmt.Sprintf("%s: Equal(%s,%s)=%v but values compare %d", c.Type, a.lbl, b.lbl, eq, want))
			}
			if eq != (got == 0) {
				report("equal-vs-compare", fmt.Sprintf("%s: Equal(%s,%s)=%v but Compare=%d", c.Type, a.lbl, b.lbl, eq, got))
			}
		}
	}
	// laws on the observed table (independent of the reference)
	for i := 0; i < n; i++ {
		if tbl[i][i] != 0 {
			report("reflexive", fmt.Sprintf("%s: %s.Compare(itself) = %d", c.Type, vs[i].lbl, tbl[i][i]))
		}
		for j := 0; j < n; j++ {
			if tbl[i][j] != -tbl[j][i] {
				report("antisymmetry", fmt.Sprintf("%s: Compare(%s,%s)=%d but Compare(%s,%s)=%d", c.Type, vs[i].lbl, vs[j].lbl, tbl[i][j], vs[j].lbl, vs[i].lbl, tbl[j][i]))
			}
		}
	}
	for i := 0; i < n; i++ {
		for j := 0; j < n; j++ {
			if tbl[i][j] > 0 {
				continue
			}
			for k := 0; k < n; k++ {
				// a<=b and b<=c  =>  a<=c ; with a strict step the conclusion is strict
				if tbl[j][k] <= 0 {
					strict := tbl[i][j] < 0 || tbl[j][k] < 0
					if tbl[i][k] > 0 || (strict && tbl[i][k] == 0) {
						report("transitivity", fmt.Sprintf("%s: %s<=%s and %s<=%s but Compare(%s,%s)=%d", c.Type, vs[i].lbl, vs[j].lbl, vs[j].lbl, vs[k].lbl, vs[i].lbl, vs[k].lbl, tbl[i][k]))
					}
				}
			}
		}
	}
	res.Evals += int64(n) * int64(n) * int64(n) // triples checked on the observed table
	for k := range ocs {
		res.Outcomes = append(res.Outcomes, k)
	}
	res.Sample = map[string]interface{}{"type": c.Type, "values": n, "pairs": n * n, "triples": n * n * n, "example": []string{vs[0].lbl, vs[n-1].lbl}}
	return res
}

func c17RunTuples(c c17Case) eng.Result {
	var res eng.Result
	all := c17Values(c.Type)
	// 4 representative values: first, two middle, last
	pick := []refVal{all[0], all[len(all)/3], all[2*len(all)/3], all[len(all)-1]}
	other := c17Values("string")[1:4]
	seen := map[string]bool{}
	report := func(law, what string) {
		sig := "C17/tuples/" + c.Type + "/" + law
		if !seen[sig] {
			seen[sig] = true
			res.Add(sig, what)
		}
	}
	type tup struct {
		vs  []val.Value
		ref []refVal
	}
	var tups [][]refVal
	for l := 1; l <= 3; l++ {
		idx := make([]int, l)
		for {
			var t []refVal
			for pos, ix := range idx {
				if pos == 1 { // mix component types: 2nd component is a string
					t = append(t, other[ix%len(other)])
				} else {
					t = append(t, pick[ix])
				}
			}
			tups = append(tups, t)
			p := l - 1
			for p >= 0 {
				idx[p]++
				lim := len(pick)
				if p == 1 {
					lim = len(other)
				}
				if idx[p] < lim {
					break
				}
				idx[p] = 0
				p--
			}
			if p < 0 {
				break
			}
		}
	}
	toVals := func(t []refVal) []val.Value {
		var o []val.Value
		for _, r := range t {
			o = append(o, r.v)
		}
		return o
	}
	lbl := func(t []refVal) string {
		var o []string
		for _, r := range t {
			o = append(o, r.lbl)
		}
		return "(" + strings.Join(o, ",") + ")"
	}
	for _, a := range tups {
		for _, b := range tups {
			if len(a) != len(b) {
				// EqualVals must say false for different lengths
				if val.EqualVals(toVals(a), toVals(b)) {
					report("equal-length", fmt.Sprintf("EqualVals(%s,%s) = true", lbl(a), lbl(b)))
				}
				res.Evals++
				// and the order is still lexicographic: a tuple that is the beginning of another is first
				wantLen := 0
				for i := 0; i < len(a) && i < len(b) && wantLen == 0; i++ {
					wantLen = refCmp(a[i], b[i])
				}
				if wantLen == 0 {
					wantLen = sign(len(a) - len(b))
				}
				var gotLen int
				fr, msg, pan := eng.Recover(func() { gotLen = sign(val.CompareVals(toVals(a), toVals(b))) })
				res.Evals++
				res.Nontriv++
				if pan {
					report("different-lengths/panic:"+fr, fmt.Sprintf("CompareVals(%s,%s) panics: %s", lbl(a), lbl(b), msg))
				} else if gotLen != wantLen {
					report("different-lengths/lexicographic", fmt.Sprintf("CompareVals(%s,%s) has sign %d, lexicographic order is %d", lbl(a), lbl(b), gotLen, wantLen))
				}
				continue
			}
			want := 0
			for i := range a {
				if w := refCmp(a[i], b[i]); w != 0 {
					want = w
					break
				}
			}
			var got int
			var eq bool
			fr, msg, pan := eng.Recover(func() {
				got = sign(val.CompareVals(toVals(a), toVals(b)))
				eq = val.EqualVals(toVals(a), toVals(b))
			})
			res.Evals += 2
			if pan {
				report("panic:"+fr, fmt.Sprintf("CompareVals(%s,%s) panics: %s", lbl(a), lbl(b), msg))
				continue
			}
			if want != 0 {
				res.Nontriv++
			}
			if got != want {
				report("lexicographic", fmt.Sprintf("CompareVals(%s,%s) has sign %d, lexicographic order is %d", lbl(a), lbl(b), got, want))
			}
			if eq != (want == 0) {
				report("equal", fmt.Sprintf("EqualVals(%s,%s)=%v, lexicographic order is %d", lbl(a), lbl(b), eq, want))
			}
		}
	}
	res.Outcomes = []string{"tuples:" + c.Type}
	return res
}

// c17RunMixed: key tuples whose components are values of different types (the members of a union key)
// or of types without a numeric or textual order of their own (bits): CompareVals is still a total
// order that agrees with EqualVals, and never panics.
func c17RunMixed() eng.Result {
	var res eng.Result
	singles := []val.Value{val.Int32(-5), val.Int32(1), val.Int32(10), val.String("a"), val.String("b"), val.String("1"), val.String(""),
		val.Bits{Positions: 1, Labels: []string{"a"}}, val.Bits{Positions: 3, Labels: []string{"a", "b"}}, val.Bits{Positions: 4, Labels: []string{"c"}}, val.Bits{},
		val.Bool(true), val.Bool(false), val.UInt64(1 << 63), val.UInt64(1), val.Int64(1), val.Decimal64(1), val.Enum{Id: 1, Label: "one"}, val.IdentRef{Label: "a"}}
	var tups [][]val.Value
	for _, a := range singles {
		tups = append(tups, []val.Value{a})
	}
	for _, a := range singles[:8] {
		for _, b := range singles[:8] {
			tups = append(tups, []val.Value{a, b})
		}
	}
	seen := map[string]bool{}
	report := func(law, what string) {
		if sig := "C17/mixed/" + law; !seen[sig] {
			seen[sig] = true
			res.Add(sig, what)
		}
	}
	sign := func(x int) int {
		switch {
		case x < 0:
			return -1
		case x > 0:
			return 1
		}
		return 0
	}
	lbl := func(t []val.Value) string {
		var parts []string
		for _, v := range t {
			parts = append(parts, fmt.Sprintf("%s:%s", v.Format(), model.CanonVal(v)))
		}
		return "(" + strings.Join(parts, ",") + ")"
	}
	cmp := func(a, b []val.Value) (int, bool) {
		var c int
		fr, msg, pan := eng.Recover(func() { c = val.CompareVals(a, b) })
		if pan {
			report("panic:"+fr, fmt.Sprintf("CompareVals(%s,%s): %s", lbl(a), lbl(b), msg))
			return 0, false
		}
		return sign(c), true
	}
	for _, a := range tups {
		for _, b := range tups {
			if len(a) != len(b) {
				continue
			}
			res.Evals++
			res.Nontriv++
			ab, ok1 := cmp(a, b)
			ba, ok2 := cmp(b, a)
			if !ok1 || !ok2 {
				continue
			}
			if ab != -ba {
				report("not-antisymmetric", fmt.Sprintf("%s vs %s: %d and %d", lbl(a), lbl(b), ab, ba))
			}
			var eq bool
			fr, msg, pan := eng.Recover(func() { eq = val.EqualVals(a, b) })
			if pan {
				report("equal-panic:"+fr, fmt.Sprintf("EqualVals(%s,%s): %s", lbl(a), lbl(b), msg))
				continue
			}
			if eq != (ab == 0) {
				report("order-disagrees-with-equality", fmt.Sprintf("%s vs %s: compare %d, equal %v", lbl(a), lbl(b), ab, eq))
			}
		}
	}
	// transitivity over the single-component tuples
	for _, a := range singles {
		for _, b := range singles {
			for _, c := range singles {
				res.Evals++
				ab, ok1 := cmp([]val.Value{a}, []val.Value{b})
				bc, ok2 := cmp([]val.Value{b}, []val.Value{c})
				ac, ok3 := cmp([]val.Value{a}, []val.Value{c})
				if ok1 && ok2 && ok3 && ab <= 0 && bc <= 0 && ac > 0 {
					report("not-transitive", fmt.Sprintf("%s <= %s <= %s but first > third", lbl([]val.Value{a}), lbl([]val.Value{b}), lbl([]val.Value{c})))
				}
			}
		}
	}
	res.Outcomes = []string{"mixed"}
	return res
}
