package props

import (
	"encoding/json"
	"fmt"
	"sort"
	"strings"

	"github.com/freeconf/yang/meta"
	"github.com/freeconf/yang/node"
	"github.com/freeconf/yang/nodeutil"
	"github.com/freeconf/yang/val"
	"verif/internal/eng"
	"verif/internal/model"
	"verif/internal/store"
)

// C04 — export and JSON round trip reproduce exactly the data present.

type c04 struct{ base }

func init() {
	eng.Register(&c04{base{id: "C04", level: "model_checking",
		rule: "part values: a baseline tree over the all-types schema with one leaf at a time ranging over the full value alphabet of its type (thorough: every pair of leaves over reduced alphabets); part trees: every conforming tree up to the size bound over the structural schemas (containers, nested/compound-key lists, leaf-lists, choices). Each tree is held by each source store implementation and (a) exported through UpsertInto a recording reference node: the write events must be exactly the pre-order walk of the tree (every set leaf / created container / entry once, schema order, entries in source order, only defaults extra) and (b) written as JSON under each writer configuration, read back by the library's reader into a fresh reference store (must equal the tree) and written again (fixpoint). States = distinct trees, transitions = export or round-trip executions, all on the real code. Non-trivial = distinct (tree, source, config) with a non-empty tree"}})
}

type c04Case struct {
	Part   string `json:"part"`
	Schema string `json:"schema"`
	Source string `json:"source"`
	Leaf   string `json:"leaf,omitempty"`
	Leaf2  string `json:"leaf2,omitempty"`
	B      int    `json:"B,omitempty"`
	// replay
	Tree json.RawMessage `json:"tree,omitempty"`
	Cfg  string          `json:"cfg,omitempty"`
}

var c04Sources = []string{"ref", "reflect-map", "node-map"}

var jsonCfgs = []string{"compact", "pretty", "qualified", "pretty+qualified", "enumids"}

func jsonWtr(cfg string) nodeutil.JSONWtr {
	return nodeutil.JSONWtr{Pretty: strings.Contains(cfg, "pretty"), QualifyNamespace: strings.Contains(cfg, "qualified"), EnumAsIds: strings.Contains(cfg, "enumids")}
}

func (p *c04) Bounds(tier string) map[string]interface{} {
	return map[string]interface{}{"tree_size_bound": c04B(tier), "structural_schemas": []string{"base", "keys", "choice"}, "value_schema": "types (23 leaves, all built-in types and leaf-lists)",
		"sources": c04Sources, "json_configs": jsonCfgs, "pairs_of_leaves": tier == "thorough"}
}

func c04B(tier string) int {
	if tier == "thorough" {
		return 6
	}
	return 4
}

func typesLeaves() []string {
	m := model.SharedSchema("types")
	var out []string
	for _, d := range model.DefAt(m, "v").(meta.HasDataDefinitions).DataDefinitions() {
		out = append(out, d.Ident())
	}
	return out
}

func (p *c04) Cases(tier string, emit func(interface{})) {
	for _, src := range c04Sources {
		for _, lf := range typesLeaves() {
			emit(c04Case{Part: "values", Schema: "types", Source: src, Leaf: lf})
		}
		for _, sc := range []string{"base", "keys", "choice", "multi"} {
			emit(c04Case{Part: "trees", Schema: sc, Source: src, B: c04B(tier)})
		}
		emit(c04Case{Part: "lists", Schema: "base", Source: src})
	}
	// Go structs as the source (no choices through nodeutil.Reflect: it does not implement them)
	for _, src := range store.StructImpls {
		for _, sc := range []string{"base", "keys", "choice"} {
			if sc != "base" && strings.HasPrefix(src, "reflect-") {
				// nodeutil.Reflect over structs: no choices, and an unset enumeration kept in a
				// string field cannot be read ("could not coerce '' into enum")
				continue
			}
			emit(c04Case{Part: "trees", Schema: sc, Source: src, B: c04B(tier)})
		}
		emit(c04Case{Part: "lists", Schema: "base", Source: src})
	}
	if tier == "thorough" {
		ls := typesLeaves()
		for i, a := range ls {
			for _, b := range ls[i+1:] {
				emit(c04Case{Part: "values", Schema: "types", Source: "ref", Leaf: a, Leaf2: b})
			}
		}
	}
}

func typesBaseline(m *meta.Module) *model.Tree {
	t, err := model.FromJSON(m.DataDefinitions(), []byte(`{"v":{"s":"a"},"ent":[{"k":"a","x":1},{"k":"b","sub":{"y":"b"}}],"last":"z"}`))
	if err != nil {
		panic(err)
	}
	return t
}

// expectWrites lists the write events of a pre-order walk of t.
func expectWrites(defs []meta.Definition, t *model.Tree, path string, out *[]string) {
	for _, d := range model.FlatDefs(defs) {
		id := d.Ident()
		p := id
		if path != "" {
			p = path + "/" + id
		}
		switch x := d.(type) {
		case *meta.List:
			l, ok := t.Lists[id]
			if !ok {
				continue
			}
			*out = append(*out, "child:"+p)
			for _, e := range l.Entries {
				k := model.KeyOf(x, e)
				*out = append(*out, "next:"+p+"["+k+"]")
				expectWrites(x.DataDefinitions(), e, p+"="+k, out)
			}
		case meta.HasDataDefinitions:
			c, ok := t.Conts[id]
			if !ok {
				continue
			}
			*out = append(*out, "child:"+p)
			expectWrites(x.DataDefinitions(), c, p, out)
		default:
			if lf, ok := t.Leaves[id]; ok {
				*out = append(*out, "field:"+p+"="+lf.Canon)
			}
		}
	}
}

func recordedWrites(log *store.Log) []string {
	var out []string
	for _, e := range log.Events {
		p := e.Ident
		if e.Path != "" {
			p = e.Path + "/" + e.Ident
		}
		switch {
		case e.Kind == "child" && e.New:
			out = append(out, "child:"+p)
		case e.Kind == "next" && e.New:
			out = append(out, "next:"+e.Path+"["+e.Key+"]")
		case e.Kind == "field" && e.Write && !e.Clear:
			out = append(out, "field:"+p+"="+e.Val)
		case e.Kind == "child" && e.Del, e.Kind == "next" && e.Del, e.Kind == "field" && e.Clear:
			out = append(out, "delete:"+p)
		}
	}
	return out
}

func c04TypeOf(m *meta.Module, schemaPath string) string {
	defer func() { recover() }()
	d := model.DefAt(m, schemaPath)
	if lf, ok := d.(meta.Leafable); ok {
		return lf.Type().Format().String()
	}
	return "node"
}

// c04Check runs all clauses on one tree held by one source implementation.
func c04Check(c c04Case, m *meta.Module, t *model.Tree, what string, onlyCfg string, res *eng.Result, ss *sigSet) {
	env := &dataEnv{m: m, st: store.NewFor(c.Source, m)}
	env.b = node.NewBrowser(m, env.st.Root())
	tag := c.Leaf
	if c.Leaf2 != "" {
		tag += "+" + c.Leaf2
	}
	typ := "tree:" + c.Schema
	if c.Leaf != "" {
		typ = c04TypeOf(m, "v/"+c.Leaf)
		if c.Leaf2 != "" {
			typ += "+" + c04TypeOf(m, "v/"+c.Leaf2)
		}
	}
	site := "C04/" + c.Source
	var refSyms map[string]bool // symptoms the same tree shows with the reference store as source
	report := func(clause, sym, msg string, cfg string) {
		if c.Source != "ref" && onlyCfg == "" {
			if refSyms == nil {
				refSyms = map[string]bool{}
				var rr eng.Result
				rc := c
				rc.Source = "ref"
				c04Check(rc, m, t, what, "", &rr, &sigSet{res: &rr})
				for _, v := range rr.Viols {
					refSyms[strings.TrimPrefix(v.Sig, "C04/ref/")] = true
				}
			}
			if refSyms[clause+"/"+typ+"/"+sym] {
				return // not specific to this source: reported by the reference-source case
			}
		}
		sig := site + "/" + clause + "/" + typ + "/" + sym
		if ss.seen == nil {
			ss.seen = map[string]bool{}
		}
		if ss.seen[sig] {
			return
		}
		ss.seen[sig] = true
		rc := c
		rc.Part = "one"
		rc.Cfg = cfg
		tj, _ := json.Marshal(t.ToJSONObj(m.DataDefinitions()))
		rc.Tree = tj
		res.AddCase(sig, what+": "+msg, rc)
	}
	if err := env.populate(t); err != nil {
		if err == errUnrepresentable {
			return
		}
		report("populate", "harness", err.Error(), "")
		return
	}
	res.States++
	o := env.canonOpts()
	isStruct := store.IsStructImpl(c.Source)

	// (a) export into a recording reference node
	if onlyCfg == "" || onlyCfg == "export" {
		dst := store.NewRef(nil)
		log := &store.Log{}
		var err error
		fr, msg, pan := eng.Recover(func() { err = env.b.Root().UpsertInto(store.Wrap(dst.Node(), log, "dst")) })
		res.Evals++
		res.Transitions++
		switch {
		case pan:
			report("export", "panic:"+fr, msg, "export")
		case err != nil:
			report("export", "error", err.Error(), "export")
		default:
			model.StripDefaults(m.DataDefinitions(), t, dst.T)
			if kd, w := model.Diff(m.DataDefinitions(), t, dst.T, o, ""); kd != "" {
				report("export-result", kd, w, "export")
			} else if !isStruct { // a struct source reports its zero-valued fields too: the write sequence is only checked for sources that can leave a leaf unset

				var want []string
				expectWrites(m.DataDefinitions(), t, "", &want)
				got := stripDefaultWrites(m, t, recordedWrites(log))
				if env.st.MapLists() {
					// entry order of a map-backed source is its own business: compare as multisets
					sort.Strings(want)
					sort.Strings(got)
				}
				if sym, w := compareWrites(want, got); sym != "" {
					report("export-events", sym, w, "export")
				}
			}
		}
	}

	// (b) JSON round trip under every writer configuration
	compactSyms := map[string]bool{}
	jreport := func(cfg, sym, msg string) {
		if cfg == "compact" {
			compactSyms[sym] = true
			report("json", sym, msg, cfg)
		} else if !compactSyms[sym] {
			report("json:"+cfg, sym, msg, cfg)
		}
	}
	for _, cfg := range jsonCfgs {
		if onlyCfg != "" && onlyCfg != cfg {
			continue
		}
		res.Evals++
		res.Transitions++
		w := jsonWtr(cfg)
		var text string
		var err error
		fr, msg, pan := eng.Recover(func() { text, err = w.JSON(env.b.Root()) })
		report := func(_ string, sym, msg, cfg string) { jreport(cfg, sym, msg) }
		clause := ""
		if pan {
			report(clause, "write-panic:"+fr, msg, cfg)
			continue
		}
		if err != nil {
			report(clause, "write-error", err.Error(), cfg)
			continue
		}
		back := store.NewRef(nil)
		fr, msg, pan = eng.Recover(func() {
			var n node.Node
			if n, err = nodeutil.ReadJSON(text); err == nil {
				err = node.NewBrowser(m, back.Node()).Root().UpsertFrom(n)
			}
		})
		if pan {
			report(clause, "read-panic:"+fr, msg+" text="+text, cfg)
			continue
		}
		if err != nil {
			report(clause, "read-error", fmt.Sprintf("%v text=%s", err, text), cfg)
			continue
		}
		model.StripDefaults(m.DataDefinitions(), t, back.T)
		if kd, wd := model.Diff(m.DataDefinitions(), t, back.T, o, ""); kd != "" {
			report(clause, "roundtrip/"+kd, wd+" text="+text, cfg)
			continue
		}
		// fixpoint: writing what was read gives the same text
		var text2 string
		fr, msg, pan = eng.Recover(func() { text2, err = w.JSON(node.NewBrowser(m, back.Node()).Root()) })
		if pan || err != nil {
			report(clause, "rewrite-failed", fmt.Sprint(msg, err), cfg)
			continue
		}
		if text2 != text && !env.st.MapLists() {
			report(clause, "not-a-fixpoint", fmt.Sprintf("first %s second %s", text, text2), cfg)
		}
	}
	if !t.Empty() {
		res.Nontriv++
	}
}

// stripDefaultWrites drops writes of schema defaults for leaves the tree leaves unset.
func stripDefaultWrites(m *meta.Module, t *model.Tree, got []string) []string {
	var want []string
	expectWrites(m.DataDefinitions(), t, "", &want)
	wantSet := map[string]bool{}
	for _, w := range want {
		wantSet[w] = true
	}
	var out []string
	for _, g := range got {
		if !wantSet[g] && strings.HasPrefix(g, "field:") {
			// field:<path>/<leaf>=<canon>
			rest := g[len("field:"):]
			eq := strings.LastIndex(rest, "=")
			// the value itself may contain '='; find the split where the leaf resolves
			for i := 0; i < len(rest); i++ {
				if rest[i] != '=' {
					continue
				}
				p := rest[:i]
				leaf := p[strings.LastIndex(p, "/")+1:]
				if d := findLeaf(m, leaf); d != nil && d.HasDefault() {
					if dv := model.DefaultVal(d); dv != nil && model.CanonVal(dv) == rest[i+1:] {
						eq = -2
					}
				}
			}
			if eq == -2 {
				continue
			}
		}
		out = append(out, g)
	}
	return out
}

// findLeaf finds a leaf by identifier anywhere in the schema (harness schemas use unique leaf names per default value).
func findLeaf(m *meta.Module, ident string) meta.Leafable {
	var rec func(defs []meta.Definition) meta.Leafable
	rec = func(defs []meta.Definition) meta.Leafable {
		for _, d := range model.FlatDefs(defs) {
			if lf, ok := d.(meta.Leafable); ok {
				if d.Ident() == ident {
					return lf
				}
				continue
			}
			if h, ok := d.(meta.HasDataDefinitions); ok {
				if r := rec(h.DataDefinitions()); r != nil {
					return r
				}
			}
		}
		return nil
	}
	return rec(m.DataDefinitions())
}

func compareWrites(want, got []string) (sym, what string) {
	wc := map[string]int{}
	for _, w := range want {
		wc[w]++
	}
	gc := map[string]int{}
	for _, g := range got {
		gc[g]++
	}
	for _, w := range want {
		if gc[w] == 0 {
			return "missing-" + w[:strings.Index(w, ":")], "no write for " + w
		}
		if gc[w] > wc[w] {
			return "duplicated-" + w[:strings.Index(w, ":")], fmt.Sprintf("%s written %d times", w, gc[w])
		}
	}
	for _, g := range got {
		if wc[g] == 0 {
			return "extra-" + g[:strings.Index(g, ":")], "unexpected write " + g
		}
	}
	for i := range want {
		if want[i] != got[i] {
			return "reordered", fmt.Sprintf("position %d: want %s got %s", i, want[i], got[i])
		}
	}
	return "", ""
}

func (p *c04) Run(raw json.RawMessage) eng.Result {
	var c c04Case
	decode(raw, &c)
	var res eng.Result
	ss := &sigSet{res: &res}
	m := model.SharedSchema(c.Schema)
	switch c.Part {
	case "one":
		t, err := model.FromJSON(m.DataDefinitions(), c.Tree)
		if err != nil {
			panic(err)
		}
		c04Check(c, m, t, "replay", c.Cfg, &res, ss)
	case "values":
		vdefs := model.DefAt(m, "v").(meta.HasDataDefinitions)
		lf := vdefs.Definition(c.Leaf).(meta.Leafable)
		vals := model.FullVals(lf)
		var vals2 []val.Value
		if c.Leaf2 != "" {
			lf2 := vdefs.Definition(c.Leaf2).(meta.Leafable)
			all := model.FullVals(lf2)
			vals2 = all
			if len(all) > 3 {
				vals2 = []val.Value{all[0], all[len(all)/2], all[len(all)-1]}
			}
			if len(vals) > 3 {
				vals = []val.Value{vals[0], vals[len(vals)/2], vals[len(vals)-1]}
			}
		}
		for _, v := range vals {
			t := typesBaseline(m)
			t.Conts["v"].Leaves[c.Leaf] = model.L(v)
			if c.Leaf2 == "" {
				c04Check(c, m, t, fmt.Sprintf("%s=%s", c.Leaf, model.CanonVal(v)), "", &res, ss)
				continue
			}
			for _, v2 := range vals2 {
				t2 := t.Clone()
				t2.Conts["v"].Leaves[c.Leaf2] = model.L(v2)
				c04Check(c, m, t2, fmt.Sprintf("%s=%s %s=%s", c.Leaf, model.CanonVal(v), c.Leaf2, model.CanonVal(v2)), "", &res, ss)
			}
		}
		res.Outcomes = []string{"values:" + c.Leaf}
	case "lists":
		for _, t := range longListTrees(m) {
			c04Check(c, m, t, "tree "+t.String(), "", &res, ss)
		}
		res.Outcomes = []string{"lists"}
	case "trees":
		a := c03Alpha(c.Source)
		if c.Source != "ref" {
			// map-backed lists index entries by their first key component only
			a.Keys = func(l *meta.List) [][]val.Value {
				if len(l.KeyMeta()) > 1 {
					return nil
				}
				return model.DefaultKeys(l)
			}
		}
		a.AllOrders = true
		for _, t := range model.GenTrees(m.DataDefinitions(), c.B, a) {
			c04Check(c, m, t, "tree "+t.String(), "", &res, ss)
		}
		res.Outcomes = []string{"trees:" + c.Schema}
	}
	if res.Evals == 0 {
		res.Evals = 1
	}
	return res
}

// longListTrees: base-schema trees with lists of 0..5 entries (ascending and
// descending key order) and a nested list of 0..4 entries in the middle entry.
func longListTrees(m *meta.Module) []*model.Tree {
	var out []*model.Tree
	keys := []string{"a", "b", "c", "d", "e"}
	for n := 0; n <= len(keys); n++ {
		for _, desc := range []bool{false, true} {
			for nn := 0; nn <= 4; nn++ {
				var entries []string
				for i := 0; i < n; i++ {
					k := keys[i]
					if desc {
						k = keys[n-1-i]
					}
					var nested []string
					for j := 0; j < nn; j++ {
						nested = append(nested, fmt.Sprintf(`{"j":%d,"u":"%s"}`, j+1, k))
					}
					e := fmt.Sprintf(`{"k":"%s","v":%d`, k, i+1)
					if nn > 0 && i == n/2 {
						e += `,"n":[` + strings.Join(nested, ",") + `]`
					}
					entries = append(entries, e+"}")
				}
				doc := `{"top":"a","l":[` + strings.Join(entries, ",") + `]}`
				t, err := model.FromJSON(m.DataDefinitions(), []byte(doc))
				if err != nil {
					panic(err)
				}
				if n == 0 {
					delete(t.Lists, "l")
				}
				out = append(out, t)
			}
		}
	}
	return out
}
