package props

import (
	"bytes"
	"encoding/json"
	stdxml "encoding/xml"
	"fmt"
	"io"
	"strings"

	"github.com/freeconf/yang/meta"
	"github.com/freeconf/yang/node"
	"github.com/freeconf/yang/nodeutil"
	"github.com/freeconf/yang/val"
	"verif/internal/eng"
	"verif/internal/model"
	"verif/internal/store"
)

// C19 — XML export and import are inverse on every data tree.

type c19 struct{ base }

func init() {
	// a namespace URI with the characters XML reserves (RFC 3986 lets a query hold & and ')
	model.Schemas["nsmarkup"] = `module nsm { namespace "urn:nsm?a=1&b='2'&lt=<x>"; prefix nsm; revision 0;
  leaf top { type string; }
  container c { leaf a { type string; } }
  list l { key k; leaf k { type string; } leaf v { type int32; } }
}`
	eng.Register(&c19{base{id: "C19", level: "model_checking",
		rule: "trees of C04 (structural schemas to the size bound, lists of 0..5 entries) and an all-types baseline tree with one leaf at a time over its value alphabet (XML-hostile text: markup characters, quotes, CDATA terminator, leading/trailing/inner whitespace, tab/newline/CR, non-ASCII) are written by both XML writers (XMLWtr2 doc pretty/compact, streaming XMLWtr); the output must parse with encoding/xml as a single root element with nothing after it, and reading it back with ReadXMLDoc + UpsertFrom into a fresh reference store must give the original tree; part interleave: every interleaving of the child elements of a harness-rendered document that keeps the relative order within each list/leaf-list must read to the same tree. states = distinct trees, transitions = write/read executions. Non-trivial = distinct (tree, writer) with non-empty tree / distinct interleaving"}})
}

type c19Case struct {
	Part   string          `json:"part"`
	Schema string          `json:"schema"`
	Leaf   string          `json:"leaf,omitempty"`
	B      int             `json:"B,omitempty"`
	Tree   json.RawMessage `json:"tree,omitempty"`
	Writer string          `json:"writer,omitempty"`
	Perm   []int           `json:"perm,omitempty"`
}

var c19Writers = []string{"doc", "doc-pretty", "stream", "stream-second-document"}

// XMLText is the XML-hostile text alphabet (characters XML 1.0 cannot carry are excluded).
var XMLText = []string{"", "a", "<", ">", "&", `"`, "'", "]]>", "<![CDATA[x]]>", "&amp;", "a b", " lead", "trail ", "  ", "\t", "a\nb", "a\rb", "é", "中", "\U0001F600", "<a>b</a>"}

func (p *c19) Bounds(tier string) map[string]interface{} {
	return map[string]interface{}{"tree_size_bound": c04B(tier), "writers": c19Writers, "text_alphabet": XMLText, "interleave": "documents with <= 6 top-level child elements, all order-preserving interleavings"}
}

func (p *c19) Cases(tier string, emit func(interface{})) {
	for _, lf := range typesLeaves() {
		if lf == "ad" {
			continue // anydata has no defined XML form in the library (it prints the Go value)
		}
		emit(c19Case{Part: "values", Schema: "types", Leaf: lf})
	}
	for _, sc := range []string{"base", "keys", "choice", "multi", "nsmarkup"} {
		emit(c19Case{Part: "trees", Schema: sc, B: c04B(tier)})
	}
	emit(c19Case{Part: "lists", Schema: "base"})
	emit(c19Case{Part: "starts", Schema: "base"})
	emit(c19Case{Part: "starts", Schema: "multi"})
	emit(c19Case{Part: "starts", Schema: "nsmarkup"})
	emit(c19Case{Part: "interleave", Schema: "base"})
	emit(c19Case{Part: "interleave", Schema: "keys"})
}

// wellFormed parses text with the standard library: single root, nothing after.
// xmlNamespaces checks that every element is in the name space of the module that defines the
// node of that name (harness' own module map; the root element is the module itself).
func xmlNamespaces(m *meta.Module, text string) string {
	modOf := model.ModuleOf[m.Ident()]
	d := stdxml.NewDecoder(strings.NewReader(text))
	depth := 0
	for {
		tok, err := d.Token()
		if err != nil {
			return ""
		}
		switch t := tok.(type) {
		case stdxml.StartElement:
			want := m.Namespace()
			if depth > 0 && modOf != nil {
				want = "urn:" + modOf(t.Name.Local)
			}
			depth++
			if t.Name.Space != want {
				if depth == 1 {
					return "root-element-in-wrong-namespace"
				}
				return "element-in-wrong-namespace"
			}
		case stdxml.EndElement:
			depth--
		}
	}
}

func wellFormed(text string) string {
	d := stdxml.NewDecoder(strings.NewReader(text))
	depth, roots := 0, 0
	for {
		tok, err := d.Token()
		if err == io.EOF {
			break
		}
		if err != nil {
			return "malformed"
		}
		switch t := tok.(type) {
		case stdxml.StartElement:
			if depth == 0 {
				roots++
			}
			depth++
		case stdxml.EndElement:
			depth--
		case stdxml.CharData:
			if depth == 0 && len(bytes.TrimSpace(t)) > 0 {
				return "text-outside-root"
			}
		}
	}
	if roots == 0 {
		return "no-root-element"
	}
	if roots > 1 {
		return "several-root-elements"
	}
	return ""
}

func c19Write(sel *node.Selection, writer string) (string, error) {
	switch writer {
	case "doc":
		return nodeutil.WriteXMLDoc(sel, false)
	case "doc-pretty":
		return nodeutil.WriteXMLDoc(sel, true)
	case "stream":
		return nodeutil.WriteXML(sel)
	case "stream-second-document":
		// one writer object writes two documents, the second one is looked at
		var first, second bytes.Buffer
		w := nodeutil.NewXMLWtr(&first)
		if err := sel.InsertInto(w.Node()); err != nil {
			return "", err
		}
		w.Out = &second
		err := sel.InsertInto(w.Node())
		return second.String(), err
	}
	panic(writer)
}

func c19ReadBack(m *meta.Module, text string) (*model.Tree, error) {
	n, err := nodeutil.ReadXMLDoc(strings.NewReader(text))
	if err != nil {
		return nil, err
	}
	back := store.NewRef(nil)
	if err := node.NewBrowser(m, back.Node()).Root().UpsertFrom(n); err != nil {
		return nil, err
	}
	return back.T, nil
}

func c19Check(c c19Case, m *meta.Module, t *model.Tree, what, typ string, writers []string, res *eng.Result, ss *sigSet) {
	env := newEnv(c.Schema, "ref")
	if err := env.populate(t); err != nil {
		panic(err)
	}
	res.States++
	for _, w := range writers {
		res.Evals++
		res.Transitions++
		if !t.Empty() {
			res.Nontriv++
		}
		report := func(sym, msg string) {
			sig := "C19/" + w + "/" + typ + "/" + sym
			if w == "doc-pretty" && ss.seen["C19/doc/"+typ+"/"+sym] {
				return
			}
			if ss.seen == nil {
				ss.seen = map[string]bool{}
			}
			if ss.seen[sig] {
				return
			}
			ss.seen[sig] = true
			rc := c
			rc.Part, rc.Writer = "one", w
			tj, _ := json.Marshal(t.ToJSONObj(m.DataDefinitions()))
			rc.Tree = tj
			res.AddCase(sig, what+": "+msg, rc)
		}
		var text string
		var err error
		fr, msg, pan := eng.Recover(func() { text, err = c19Write(env.b.Root(), w) })
		if pan {
			report("write-panic:"+fr, msg)
			continue
		}
		if err != nil {
			report("write-error", err.Error())
			continue
		}
		if sym := wellFormed(text); sym != "" {
			report(sym, text)
			continue
		}
		if sym := xmlNamespaces(m, text); sym != "" {
			report(sym, text)
			continue
		}
		var back *model.Tree
		fr, msg, pan = eng.Recover(func() { back, err = c19ReadBack(m, text) })
		if pan {
			report("read-panic:"+fr, msg+" text="+text)
			continue
		}
		if err != nil {
			report("read-error", fmt.Sprintf("%v text=%s", err, text))
			continue
		}
		model.StripDefaults(m.DataDefinitions(), t, back)
		if kd, wd := model.Diff(m.DataDefinitions(), t, back, model.CanonOpts{}, ""); kd != "" {
			report("roundtrip/"+kd+c19TextClass(t, c.Leaf), wd+" text="+text)
		}
	}
}

// c19TextClass refines string-leaf findings by the class of text involved.
func c19TextClass(t *model.Tree, leaf string) string {
	if leaf == "" {
		return ""
	}
	lf, ok := t.Conts["v"].Leaves[leaf]
	if !ok {
		return ""
	}
	var s string
	switch x := lf.V.(type) {
	case val.String:
		s = string(x)
	case val.StringList:
		s = strings.Join([]string(x), "\x00")
	default:
		return ""
	}
	switch {
	case s == "":
		return "/empty-text"
	case strings.TrimSpace(s) == "":
		return "/only-whitespace"
	case strings.TrimSpace(s) != s:
		return "/outer-whitespace"
	case strings.ContainsAny(s, "\r"):
		return "/carriage-return"
	}
	for _, part := range strings.Split(s, "\x00") {
		if part == "" {
			return "/empty-text"
		}
		if strings.TrimSpace(part) != part {
			return "/outer-whitespace"
		}
	}
	return "/other-text"
}

// xmlRender is the harness' own XML rendering of a tree (children in the given order).
func xmlEsc(s string) string {
	var b bytes.Buffer
	stdxml.EscapeText(&b, []byte(s))
	return b.String()
}

func xmlLeafText(v val.Value) []string {
	if l, ok := v.(val.Listable); ok && v.Format().IsList() {
		var out []string
		for i := 0; i < l.Len(); i++ {
			out = append(out, xmlLeafText(l.Item(i))[0])
		}
		return out
	}
	switch x := v.(type) {
	case val.Decimal64:
		return []string{model.CanonVal(x)}
	case val.NotEmptyType:
		return []string{""}
	}
	return []string{model.Lex(v)}
}

type xmlChild struct {
	group string // identifier (elements of one list / leaf-list keep their order)
	text  string
}

func xmlChildren(defs []meta.Definition, t *model.Tree) []xmlChild {
	var out []xmlChild
	for _, d := range model.FlatDefs(defs) {
		id := d.Ident()
		switch x := d.(type) {
		case *meta.List:
			if l, ok := t.Lists[id]; ok {
				for _, e := range l.Entries {
					out = append(out, xmlChild{id, "<" + id + ">" + xmlBody(x.DataDefinitions(), e) + "</" + id + ">"})
				}
			}
		case meta.HasDataDefinitions:
			if c, ok := t.Conts[id]; ok {
				out = append(out, xmlChild{id, "<" + id + ">" + xmlBody(x.DataDefinitions(), c) + "</" + id + ">"})
			}
		default:
			if lf, ok := t.Leaves[id]; ok {
				for _, s := range xmlLeafText(lf.V) {
					out = append(out, xmlChild{id, "<" + id + ">" + xmlEsc(s) + "</" + id + ">"})
				}
			}
		}
	}
	return out
}

func xmlBody(defs []meta.Definition, t *model.Tree) string {
	var sb strings.Builder
	for _, c := range xmlChildren(defs, t) {
		sb.WriteString(c.text)
	}
	return sb.String()
}

// interleavings enumerates all orders of children that keep the relative order within each group.
func interleavings(ch []xmlChild, emit func(order []int)) {
	n := len(ch)
	used := make([]bool, n)
	var cur []int
	var rec func()
	rec = func() {
		if len(cur) == n {
			emit(append([]int{}, cur...))
			return
		}
		for i := 0; i < n; i++ {
			if used[i] {
				continue
			}
			// i may be placed only if all earlier members of its group are placed
			ok := true
			for j := 0; j < i; j++ {
				if ch[j].group == ch[i].group && !used[j] {
					ok = false
				}
			}
			if !ok {
				continue
			}
			used[i] = true
			cur = append(cur, i)
			rec()
			cur = cur[:len(cur)-1]
			used[i] = false
		}
	}
	rec()
}

var c19InterleaveDocs = map[string][]string{
	"base": {
		`{"top":"a","c":{"a":"a"},"l":[{"k":"a","v":1},{"k":"b","v":2},{"k":"c"}]}`,
		`{"l":[{"k":"a","v":1,"n":[{"j":1,"u":"a"},{"j":2,"u":"b"}],"m":{"z":"a"}}]}`,
	},
	"keys": {
		`{"p":[{"a":"a","b":1,"v":"a"},{"a":"a","b":2}],"q":[{"i":1,"t":["a","b","c"]}],"c":{"u":[1,2],"e":"one","f":true}}`,
	},
}

func c19Interleave(c c19Case, m *meta.Module, res *eng.Result, ss *sigSet) {
	for _, doc := range c19InterleaveDocs[c.Schema] {
		t, err := model.FromJSON(m.DataDefinitions(), []byte(doc))
		if err != nil {
			panic(err)
		}
		// interleave at the top level and inside the first list entry / container that has several children
		type site struct {
			name string
			defs []meta.Definition
			tree *model.Tree
			wrap func(body string) string
		}
		root := m.Ident()
		ns := m.Namespace()
		sites := []site{{"top-level", m.DataDefinitions(), t, func(b string) string { return `<` + root + ` xmlns="` + ns + `">` + b + `</` + root + `>` }}}
		for _, d := range m.DataDefinitions() {
			if lm, ok := d.(*meta.List); ok {
				if l, ok := t.Lists[lm.Ident()]; ok && len(l.Entries) > 0 {
					e := l.Entries[0]
					id := lm.Ident()
					rest := ""
					for _, o := range l.Entries[1:] {
						rest += "<" + id + ">" + xmlBody(lm.DataDefinitions(), o) + "</" + id + ">"
					}
					sites = append(sites, site{"list-entry", lm.DataDefinitions(), e, func(b string) string {
						return `<` + root + ` xmlns="` + ns + `"><` + id + `>` + b + `</` + id + `>` + rest + `</` + root + `>`
					}})
				}
			}
			if cm, ok := d.(*meta.Container); ok {
				if ct, ok := t.Conts[cm.Ident()]; ok {
					id := cm.Ident()
					sites = append(sites, site{"container", cm.DataDefinitions(), ct, func(b string) string {
						return `<` + root + ` xmlns="` + ns + `"><` + id + `>` + b + `</` + id + `></` + root + `>`
					}})
				}
			}
		}
		for _, s := range sites {
			ch := xmlChildren(s.defs, s.tree)
			if len(ch) > 7 {
				ch = ch[:7]
			}
			// expected tree: the part of t this site renders
			want := model.NewTree()
			switch s.name {
			case "top-level":
				want = t
			}
			interleavings(ch, func(order []int) {
				var sb strings.Builder
				for _, i := range order {
					sb.WriteString(ch[i].text)
				}
				text := s.wrap(sb.String())
				res.Evals++
				res.Transitions++
				res.States++
				res.Nontriv++
				var back *model.Tree
				var err error
				fr, msg, pan := eng.Recover(func() { back, err = c19ReadBack(m, text) })
				sig, what := "", ""
				switch {
				case pan:
					sig, what = "C19/interleave/"+s.name+"/read-panic:"+fr, msg
				case err != nil:
					sig, what = "C19/interleave/"+s.name+"/read-error", err.Error()
				default:
					// compare with the tree the canonical (schema) order reads to
					canonText := s.wrap(xmlBody(s.defs, s.tree))
					ref, rerr := c19ReadBack(m, canonText)
					if rerr != nil {
						sig, what = "C19/interleave/"+s.name+"/read-error", rerr.Error()
						break
					}
					if s.name == "top-level" {
						ref = want
					}
					model.StripDefaults(m.DataDefinitions(), ref, back)
					if kd, wd := model.Diff(m.DataDefinitions(), ref, back, model.CanonOpts{}, ""); kd != "" {
						sig, what = "C19/interleave/"+s.name+"/"+kd, wd
					}
				}
				if sig != "" {
					if ss.seen == nil {
						ss.seen = map[string]bool{}
					}
					if !ss.seen[sig] {
						ss.seen[sig] = true
						res.Add(sig, what+" text="+text)
					}
				}
			})
		}
	}
}

// c19Starts: the export starts at every container and list entry of a fixed tree instead of the root;
// the document is read back into that node of a tree from which the node's content was removed.
func c19Starts(c c19Case, m *meta.Module, res *eng.Result, ss *sigSet) {
	doc := c18Inits["two"]
	if c.Schema == "multi" {
		doc = `{"c":{"own":"a","impx":"b","impy":{"impz":"c","aug2":"d"},"in":{"imp2":"e","own2":"f"},"aug1":"g","sa":"h"},
		  "l":[{"k":"a","imp2":"i","lc":{"impx":"j"}},{"k":"b"}],"imptop":{"impt":"k","impl":[{"impk":"a","impv":"l"}]},"sc":{"sl":"m","imp2":"n","aug3":"o"}}`
	}
	t, err := model.FromJSON(m.DataDefinitions(), []byte(doc))
	if err != nil {
		panic(err)
	}
	var starts []string
	startsOf(m.DataDefinitions(), t, "", &starts)
	modOf := model.ModuleOf[m.Ident()]
	for _, start := range starts {
		ep := entryPoint{start}
		kind := ep.kind(m)
		if kind == "list" {
			continue // a list is a sequence of elements, not one: no single-root document can hold it
		}
		for _, w := range c19Writers {
			res.Evals++
			res.Transitions++
			res.Nontriv++
			res.States++
			site := fmt.Sprintf("C19/%s/start-at-%s:%s", w, kind, c.Schema)
			if modOf != nil {
				def := ep.def(m)
				site += "/defined-by-" + modOf(def.Ident())
			}
			desc := fmt.Sprintf("export from %q", start)
			env := newEnv(c.Schema, "ref")
			if err := env.populate(t); err != nil {
				panic(err)
			}
			var text string
			var werr error
			fr, msg, pan := eng.Recover(func() {
				var sel *node.Selection
				if sel, werr = env.b.Root().Find(start); werr == nil && sel != nil {
					text, werr = c19Write(sel, w)
				}
			})
			switch {
			case pan:
				ss.add(site+"/write-panic:"+fr, desc+": "+msg)
				continue
			case werr != nil:
				ss.add(site+"/write-error", desc+": "+werr.Error())
				continue
			}
			if sym := wellFormed(text); sym != "" {
				ss.add(site+"/"+sym, desc+": "+text)
				continue
			}
			// read back into a tree whose node at start is emptied (a list entry keeps its keys)
			emptied := t.Clone()
			et, _ := ep.locate(m, emptied)
			keep := map[string]bool{}
			if lm, isList := ep.def(m).(*meta.List); isList {
				for _, km := range lm.KeyMeta() {
					keep[km.Ident()] = true
				}
			}
			for id := range et.Leaves {
				if !keep[id] {
					delete(et.Leaves, id)
				}
			}
			et.Conts, et.Lists = map[string]*model.Tree{}, map[string]*model.List{}
			env2 := newEnv(c.Schema, "ref")
			if err := env2.populate(emptied); err != nil {
				panic(err)
			}
			var rerr error
			fr, msg, pan = eng.Recover(func() {
				var n node.Node
				if n, rerr = nodeutil.ReadXMLDoc(strings.NewReader(text)); rerr != nil {
					return
				}
				var sel *node.Selection
				if sel, rerr = env2.b.Root().Find(start); rerr == nil && sel != nil {
					rerr = sel.UpsertFrom(n)
				}
			})
			switch {
			case pan:
				ss.add(site+"/read-panic:"+fr, desc+": "+msg+" text="+text)
				continue
			case rerr != nil:
				ss.add(site+"/read-error", fmt.Sprintf("%s: %v text=%s", desc, rerr, text))
				continue
			}
			back := env2.snap()
			model.StripDefaults(m.DataDefinitions(), t, back)
			if kd, wd := model.Diff(m.DataDefinitions(), t, back, model.CanonOpts{}, ""); kd != "" {
				ss.add(site+"/roundtrip/"+kd, fmt.Sprintf("%s: %s text=%s", desc, wd, text))
			}
		}
	}
}

func (p *c19) Run(raw json.RawMessage) eng.Result {
	var c c19Case
	decode(raw, &c)
	var res eng.Result
	ss := &sigSet{res: &res}
	m := model.SharedSchema(c.Schema)
	switch c.Part {
	case "one":
		t, err := model.FromJSON(m.DataDefinitions(), c.Tree)
		if err != nil {
			panic(err)
		}
		typ := "tree:" + c.Schema
		if c.Leaf != "" {
			typ = c04TypeOf(m, "v/"+c.Leaf)
		}
		c19Check(c, m, t, "replay", typ, []string{c.Writer}, &res, ss)
	case "values":
		lf := model.DefAt(m, "v").(meta.HasDataDefinitions).Definition(c.Leaf).(meta.Leafable)
		vals := model.FullVals(lf)
		eff := lf.Type()
		if eff.Format().Single() == val.FmtLeafRef {
			eff = eff.Resolve()
		}
		if eff.Format().Single() == val.FmtString {
			vals = nil
			for _, s := range XMLText {
				vals = append(vals, val.String(s))
			}
			// every single XML 1.0 character up to U+00FF and the encoding boundaries, one per document
			for _, s := range model.CharAlphabet() {
				r := []rune(s)[1]
				if r == 0x9 || r == 0xA || r == 0xD || (r >= 0x20 && r <= 0xD7FF) || (r >= 0xE000 && r <= 0xFFFD) || r >= 0x10000 {
					vals = append(vals, val.String(s))
				}
			}
			if lf.Type().Format().IsList() {
				vals = []val.Value{val.StringList{"a"}, val.StringList{"a", "b", "c"}, val.StringList{" b", "a"}, val.StringList{"<&>", "", "a b"}, val.StringList(XMLText)}
			}
		}
		for _, v := range vals {
			t := typesBaseline(m)
			t.Conts["v"].Leaves[c.Leaf] = model.L(v)
			c19Check(c, m, t, fmt.Sprintf("%s=%s", c.Leaf, model.CanonVal(v)), c04TypeOf(m, "v/"+c.Leaf), c19Writers, &res, ss)
		}
		res.Outcomes = []string{"values:" + c.Leaf}
	case "trees":
		a := model.DefaultAlpha()
		a.AllOrders = true
		for _, t := range model.GenTrees(m.DataDefinitions(), c.B, a) {
			c19Check(c, m, t, "tree "+t.String(), "tree:"+c.Schema, c19Writers, &res, ss)
		}
		res.Outcomes = []string{"trees:" + c.Schema}
	case "starts":
		c19Starts(c, m, &res, ss)
		res.Outcomes = []string{"starts:" + c.Schema}
	case "lists":
		for _, t := range longListTrees(m) {
			c19Check(c, m, t, "tree "+t.String(), "tree:"+c.Schema, c19Writers, &res, ss)
		}
		res.Outcomes = []string{"lists"}
	case "interleave":
		c19Interleave(c, m, &res, ss)
		res.Outcomes = []string{"interleave:" + c.Schema}
	}
	if res.Evals == 0 {
		res.Evals = 1
	}
	return res
}
