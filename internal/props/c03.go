package props

import (
	"encoding/json"
	"fmt"
	"strings"

	"github.com/freeconf/yang/meta"
	"github.com/freeconf/yang/node"
	"verif/internal/eng"
	"verif/internal/model"
	"verif/internal/store"
)

// C03 — upsert / insert / update are keyed deep merges with defined failures.

type c03 struct{ base }

func init() {
	eng.Register(&c03{base{id: "C03", level: "model_checking",
		rule: "part pairs: every pair (S,T) of conforming trees with |S|+|T| <= B over the schema, for each strategy x direction x entry point x store x source; part bfs: explicit-state search from the empty store over the operation alphabet (strategy x entry x small S) to the depth bound, deduplicated on the canonical store content. Every edit runs on the real library and is compared with the keyed-deep-merge reference model (result, error class, unmentioned paths). Non-trivial = pair with both S and T non-empty / transition leaving a non-empty state"}})
}

type c03Case struct {
	Part   string `json:"part"`
	Schema string `json:"schema"`
	Store  string `json:"store"`
	Source string `json:"source"`
	Strat  string `json:"strategy"`
	Dir    string `json:"dir"`
	Entry  string `json:"entry"`
	B      int    `json:"B"`
	Depth  int    `json:"depth,omitempty"`
	// replay of a single pair / history
	S   json.RawMessage `json:"S,omitempty"`
	T   json.RawMessage `json:"T,omitempty"`
	Ops []c03Op         `json:"ops,omitempty"`
}

type c03Op struct {
	Strat string `json:"strategy"`
	Entry string `json:"entry"`
	SIdx  int    `json:"s"`
	SDesc string `json:"S,omitempty"`
}

func (p *c03) Bounds(tier string) map[string]interface{} {
	B, d := c03Bounds(tier)
	return map[string]interface{}{"B(|S|+|T|)": B, "bfs_depth": d, "schemas": []string{"base", "keys"}, "stores": c03Stores(),
		"sources": []string{"ref", "json", "xml"}, "strategies": []string{"upsert", "insert", "update"}, "directions": []string{"from", "into"},
		"value alphabet": "2 values per leaf, 3 keys per list (4 tuples for compound keys), <=2 entries per list"}
}

func c03Stores() []string {
	out := append(append([]string{}, store.Impls...), "reflect-slice", "node-slice")
	out = append(out, store.StructImpls...)
	out = append(out, store.StructValImpls...)
	return append(out, "node-structembed")
}

func c03Bounds(tier string) (int, int) {
	if tier == "thorough" {
		return 5, 3
	}
	return 4, 2
}

var c03Entries = map[string][]string{
	"base": {"", "c", "c/d", "l", "l=a", "l=a/m", "l=a/n"},
	"keys": {"", "p", "p=a,1", "q", "q=1", "c"},
}

func (p *c03) Cases(tier string, emit func(interface{})) {
	B, depth := c03Bounds(tier)
	for _, schema := range []string{"base", "keys"} {
		for _, st := range c03Stores() {
			for _, strat := range []string{"upsert", "insert", "update"} {
				for _, entry := range c03Entries[schema] {
					emit(c03Case{Part: "pairs", Schema: schema, Store: st, Source: "ref", Strat: strat, Dir: "from", Entry: entry, B: B})
					emit(c03Case{Part: "pairs", Schema: schema, Store: st, Source: "json", Strat: strat, Dir: "from", Entry: entry, B: B})
					if !store.IsStructImpl(st) {
						emit(c03Case{Part: "pairs", Schema: schema, Store: st, Source: "xml", Strat: strat, Dir: "from", Entry: entry, B: B})
					}
					emit(c03Case{Part: "pairs", Schema: schema, Store: st, Source: "ref", Strat: strat, Dir: "into", Entry: entry, B: B})
				}
			}
			emit(c03Case{Part: "bfs", Schema: schema, Store: st, Source: "ref", Depth: depth})
			if st == "ref" {
				// the library's nodes over Go data as the SOURCE of the edit (target: reference store)
				for _, src := range c03Stores()[1:] {
					if strings.HasPrefix(src, "reflect-struct") {
						// nodeutil.Reflect reads the zero value of a Go int or bool field as a set leaf: a
						// struct cannot say "unset", so what such a source mentions is not S
						continue
					}
					for _, strat := range []string{"upsert", "insert", "update"} {
						for _, entry := range c03Entries[schema] {
							emit(c03Case{Part: "pairs", Schema: schema, Store: st, Source: "lib:" + src, Strat: strat, Dir: "from", Entry: entry, B: B})
						}
					}
				}
			}
			for _, strat := range []string{"upsert", "insert", "update"} {
				for _, entry := range []string{"", map[string]string{"base": "l", "keys": "p"}[schema]} {
					srcs := []string{"ref", "json"}
					if st == "ref" {
						for _, src := range c03Stores()[1:] {
							if !strings.HasPrefix(src, "reflect-struct") {
								srcs = append(srcs, "lib:"+src)
							}
						}
					}
					for _, src := range srcs {
						emit(c03Case{Part: "lists", Schema: schema, Store: st, Source: src, Strat: strat, Dir: "from", Entry: entry})
					}
				}
			}
		}
	}
}

func stratOf(s string) model.Strategy {
	switch s {
	case "upsert":
		return model.Upsert
	case "insert":
		return model.Insert
	case "update":
		return model.Update
	}
	panic(s)
}

// nonKeyDefs drops key leaves of a list entry's definitions.
func entryDefs(m *meta.Module, ep entryPoint) []meta.Definition {
	defs := ep.defs(m)
	if ep.kind(m) != "entry" {
		return defs
	}
	lm := ep.def(m).(*meta.List)
	var out []meta.Definition
	for _, d := range defs {
		isKey := false
		for _, k := range lm.KeyMeta() {
			if k.Ident() == d.Ident() {
				isKey = true
			}
		}
		if !isKey {
			out = append(out, d)
		}
	}
	return out
}

// c03Sources enumerates the S trees for an entry point.
func c03Alpha(storeImpl string) model.Alpha {
	a := model.DefaultAlpha()
	if strings.HasSuffix(storeImpl, "map") || storeImpl == "reflect-slice" || storeImpl == "node-slice" {
		// map-backed lists index by the first key component only; in the map-of-maps stores a
		// list that does not exist yet is created by the library as a map even in the "slice"
		// variants. Only the struct stores have slices throughout.
		a.Keys = model.DistinctFirstKeys
	}
	return a
}

func c03Sources(m *meta.Module, ep entryPoint, max int, a model.Alpha) []*model.Tree {
	if ep.kind(m) == "list" {
		lm := ep.def(m).(*meta.List)
		var out []*model.Tree
		for _, t := range model.GenTrees([]meta.Definition{lm}, max, a) {
			if _, ok := t.Lists[lm.Ident()]; ok {
				out = append(out, t)
			}
		}
		return out
	}
	return model.GenTrees(entryDefs(m, ep), max, a)
}

type editOutcome struct {
	err   error
	panic string
	frame string
}

// applyEdit runs one edit on the real library.
func applyEdit(env *dataEnv, ep entryPoint, src string, strat model.Strategy, dir string, s *model.Tree) (out editOutcome, applicable bool) {
	fr, msg, pan := eng.Recover(func() {
		root := env.b.Root()
		sel := root
		if ep.Path != "" {
			var err error
			sel, err = root.Find(ep.Path)
			if err != nil {
				out.err = fmt.Errorf("find %s: %w", ep.Path, err)
				applicable = true
				return
			}
			if sel == nil {
				return
			}
		}
		applicable = true
		if dir == "from" {
			n, err := sourceNode(src, env.m, ep, s)
			if err != nil {
				out.err = err
				return
			}
			switch strat {
			case model.Upsert:
				out.err = sel.UpsertFrom(n)
			case model.Insert:
				out.err = sel.InsertFrom(n)
			case model.Update:
				out.err = sel.UpdateFrom(n)
			}
			return
		}
		// into: a browser over a reference store holding S at the same path
		srcRoot := embedAt(env.m, ep, s)
		sb := node.NewBrowser(env.m, store.NewRef(srcRoot).Node())
		ssel := sb.Root()
		if ep.Path != "" {
			var err error
			ssel, err = ssel.Find(ep.Path)
			if err != nil || ssel == nil {
				out.err = fmt.Errorf("harness: source find %s: %v", ep.Path, err)
				return
			}
		}
		switch strat {
		case model.Upsert:
			out.err = ssel.UpsertInto(sel.Node)
		case model.Insert:
			out.err = ssel.InsertInto(sel.Node)
		case model.Update:
			out.err = ssel.UpdateInto(sel.Node)
		}
	})
	if pan {
		out.panic, out.frame = msg, fr
		applicable = true
	}
	return
}

// embedAt builds a root tree that holds s at the entry point's path.
func embedAt(m *meta.Module, ep entryPoint, s *model.Tree) *model.Tree {
	if ep.Path == "" {
		return s.Clone()
	}
	root := model.NewTree()
	cur := root
	var curMeta meta.Meta = m
	segs := strings.Split(ep.Path, "/")
	for i, seg := range segs {
		name, key, hasKey := seg, "", false
		if j := strings.Index(seg, "="); j >= 0 {
			name, key, hasKey = seg[:j], seg[j+1:], true
		}
		d := meta.Find(curMeta, name)
		curMeta = d
		last := i == len(segs)-1
		if lm, ok := d.(*meta.List); ok {
			if !hasKey {
				cur.Lists[name] = s.Clone().Lists[name]
				return root
			}
			e := model.NewTree()
			if last {
				e = s.Clone()
			}
			for ki, kt := range strings.Split(key, ",") {
				km := lm.KeyMeta()[ki]
				e.Leaves[km.Ident()] = model.L(model.ParseScalar(km.Type(), kt))
			}
			cur.Lists[name] = &model.List{Entries: []*model.Tree{e}}
			cur = e
			continue
		}
		c := model.NewTree()
		if last {
			c = s.Clone()
		}
		cur.Conts[name] = c
		cur = c
	}
	return root
}

// modelEdit applies the reference semantics to t (in place).
func modelEdit(m *meta.Module, ep entryPoint, strat model.Strategy, s, t *model.Tree, unordered bool, alt ...bool) (model.ErrClass, bool) {
	mg := model.Merger{Default: model.DefaultVal, NewUnordered: unordered, UpsertBelowEntries: len(alt) > 0 && alt[0]}
	tt, tl := ep.locate(m, t)
	if tt == nil && tl == nil {
		return model.OK, false
	}
	if tl != nil {
		lm := ep.def(m).(*meta.List)
		return mg.MergeList(lm, s.Lists[lm.Ident()], tl, strat), true
	}
	return mg.MergeContainer(ep.defs(m), s, tt, strat, false), true
}

func (p *c03) Run(raw json.RawMessage) eng.Result {
	var c c03Case
	decode(raw, &c)
	switch c.Part {
	case "pairs":
		return c03RunPairs(c)
	case "pair":
		return c03RunPair(c)
	case "lists":
		return c03RunLists(c)
	case "bfs":
		return c03RunBFS(c)
	case "history":
		return c03RunHistory(c)
	}
	panic("bad part")
}

func c03Site(c c03Case, m *meta.Module) string {
	return fmt.Sprintf("C03/%s/%s/%s/%s/%s", c.Store, c.Source, c.Strat, c.Dir, entryPoint{c.Entry}.kind(m)+":"+c.Schema+":"+entryName(c.Entry))
}

func entryName(e string) string {
	if e == "" {
		return "root"
	}
	return e
}

// checkEdit runs one (S,T) pair; returns violations (sig, what).
func c03CheckPair(c c03Case, s, t *model.Tree) (sig, what, outcome string, ran bool) {
	env := newEnv(c.Schema, c.Store)
	ep := entryPoint{c.Entry}
	site := c03Site(c, env.m)
	if err := env.populate(t); err != nil {
		if err == errUnrepresentable {
			return "", "", "", false
		}
		return "C03/harness/populate/" + c.Store, fmt.Sprintf("T=%s: %v", t, err), "", true
	}
	strat := stratOf(c.Strat)
	before := env.snap()
	if _, ok := modelEdit(env.m, ep, strat, s, t.Clone(), false); !ok {
		return "", "", "", false
	}
	env.srcUnordered = strings.HasPrefix(c.Source, "lib:") && strings.HasSuffix(c.Source, "map")
	out, applicable := applyEdit(env, ep, c.Source, strat, c.Dir, s)
	if out.err == errUnrepresentable {
		return "", "", "", false
	}
	desc := fmt.Sprintf("%s %s %s at %q: S=%s T=%s", c.Strat, c.Dir, c.Source, c.Entry, s, t)
	sig, what, oc := c03Judge(env, site, ep, strat, s, before, out, applicable, desc)
	return sig, what, oc, true
}

// c03Judge compares the implementation's outcome with the reference model
// applied to the state before the edit.
func c03Judge(env *dataEnv, site string, ep entryPoint, strat model.Strategy, s, before *model.Tree, out editOutcome, applicable bool, desc string) (sig, what, outcome string) {
	if !applicable {
		return site + "/entry-not-found", desc + ": Find returned no selection for an existing node", ""
	}
	if out.panic != "" {
		return site + "/panic:" + out.frame, desc + ": panic: " + out.panic, "panic"
	}
	got := env.snap()
	class := errClass(out.err)
	o := env.canonOpts()
	if env.srcUnordered {
		// a Go map as the source has no entry order to hand over
		o.IgnoreEntryOrder = true
	}
	judge := func(alt bool) (string, string) {
		want := before.Clone()
		wantClass, _ := modelEdit(env.m, ep, strat, s, want, env.st.MapLists(), alt)
		if wantClass == model.OK {
			if class != model.OK {
				return "/error-on-valid:" + class.String(), fmt.Sprintf("%s: unexpected error: %v", desc, out.err)
			}
			if kd, w := model.Diff(env.m.DataDefinitions(), want, got, o, ""); kd != "" {
				return "/wrong-result/" + kd, fmt.Sprintf("%s: %s; want %s got %s", desc, w, want, got)
			}
			return "", ""
		}
		if class != wantClass {
			return "/wrong-error-class/want-" + wantClass.String() + "-got-" + class.String(), fmt.Sprintf("%s: want %s, got err=%v; store now %s", desc, wantClass, out.err, got)
		}
		// unmentioned paths must be unchanged after a failed edit
		bt, _ := ep.locate(env.m, before)
		at, _ := ep.locate(env.m, got)
		if bt != nil && at != nil {
			if msg := model.CheckUnmentioned(ep.defs(env.m), s, bt, at, ep.Path, o); msg != "" {
				return "/unmentioned-changed-after-error", desc + ": " + msg
			}
		}
		return "", ""
	}
	sym, w := judge(false)
	if sym == "" {
		return "", "", class.String()
	}
	// known alternate semantics: everything below a list entry is upserted
	if altSym, _ := judge(true); altSym == "" {
		return "C03/editor/" + strat.String() + "/upsert-below-list-entry", w, class.String()
	}
	return site + sym, w, class.String()
}

func c03RunPairs(c c03Case) eng.Result {
	var res eng.Result
	ss := &sigSet{res: &res}
	m := model.SharedSchema(c.Schema)
	ep := entryPoint{c.Entry}
	a := c03Alpha(c.Store)
	ts := model.GenTrees(m.DataDefinitions(), c.B, a)
	srcs := c03Sources(m, ep, c.B, a)
	ocs := map[string]bool{}
	for _, t := range ts {
		tt, tl := ep.locate(m, t)
		if tt == nil && tl == nil {
			continue
		}
		for _, s := range srcs {
			if s.Size()+t.Size() > c.B {
				continue
			}
			sig, what, oc, ran := c03CheckPair(c, s, t)
			if !ran {
				continue
			}
			res.Evals++
			res.States++
			res.Transitions++
			if !s.Empty() && !t.Empty() {
				res.Nontriv++
			}
			if oc != "" {
				ocs[c.Strat+":"+oc] = true
			}
			if sig != "" && !ss.seen[sig] {
				sj, _ := json.Marshal(treeJSON(m, ep, s, true))
				tj, _ := json.Marshal(treeJSON(m, entryPoint{}, t, false))
				rc := c
				rc.Part, rc.S, rc.T = "pair", sj, tj
				if ss.seen == nil {
					ss.seen = map[string]bool{}
				}
				ss.seen[sig] = true
				res.AddCase(sig, what, rc)
			}
		}
	}
	for k := range ocs {
		res.Outcomes = append(res.Outcomes, k)
	}
	if res.Evals == 0 {
		res.Evals = 1
	}
	return res
}

// c03ListDocs: documents holding list l with the given numbers of entries; keys are distinct members of
// {a,b,c} in every order, each entry takes every combination of the per-entry variants.
func c03ListDocs(list string, keys []string, counts []int, variants []string) []string {
	var out []string
	var rec func(n int, used []string, acc []string)
	rec = func(n int, used []string, acc []string) {
		if n == 0 {
			out = append(out, `{"`+list+`":[`+strings.Join(acc, ",")+`]}`)
			return
		}
		for _, k := range keys {
			dup := false
			for _, u := range used {
				dup = dup || u == k
			}
			if dup {
				continue
			}
			for _, v := range variants {
				rec(n-1, append(append([]string{}, used...), k), append(append([]string{}, acc...), `{`+k+v+`}`))
			}
		}
	}
	for _, n := range counts {
		if n == 0 {
			out = append(out, `{}`)
			continue
		}
		rec(n, nil, nil)
	}
	return out
}

// c03RunLists: list-shaped pairs beyond the size bound of part pairs: S lists 1..2 entries in every
// order (new before existing, existing before new), T holds 0..2 entries with further leaves set.
func c03RunLists(c c03Case) eng.Result {
	var res eng.Result
	ss := &sigSet{res: &res, seen: map[string]bool{}}
	m := model.SharedSchema(c.Schema)
	ep := entryPoint{c.Entry}
	ocs := map[string]bool{}
	parse := func(doc string) *model.Tree {
		t, err := model.FromJSON(m.DataDefinitions(), []byte(doc))
		if err != nil {
			panic(err)
		}
		return t
	}
	var srcs, ts []*model.Tree
	list, keys := "l", []string{`"k":"a"`, `"k":"b"`, `"k":"c"`}
	sv, tv := []string{``, `,"v":2`}, []string{`,"v":1`, `,"v":1,"w":"x"`}
	if c.Schema == "keys" {
		// compound key of two types; two tuples share their first component
		list, keys = "p", []string{`"a":"a","b":1`, `"a":"a","b":2`, `"a":"b","b":1`}
		if c03Alpha(c.Store).Keys != nil || c03Alpha(strings.TrimPrefix(c.Source, "lib:")).Keys != nil {
			// map-backed lists are Go maps keyed by the first key leaf and report only that one as
			// the key of a row: the single-key list q (an int32 key) is used for them
			list, keys = "q", []string{`"i":1`, `"i":2`, `"i":3`}
			sv, tv = []string{``, `,"t":["b"]`}, []string{``, `,"t":["a"]`}
			if c.Entry == "p" {
				c.Entry = "q"
				ep = entryPoint{c.Entry}
			}
		}
		sv, tv = []string{``, `,"v":"b"`}, []string{``, `,"v":"a"`}
	}
	for _, d := range c03ListDocs(list, keys, []int{1, 2}, sv) {
		srcs = append(srcs, parse(d))
	}
	for _, d := range c03ListDocs(list, keys, []int{0, 1, 2}, tv) {
		ts = append(ts, parse(d))
	}
	for _, t := range ts {
		if tt, tl := ep.locate(m, t); tt == nil && tl == nil {
			continue
		}
		for _, s := range srcs {
			sig, what, oc, ran := c03CheckPair(c, s, t)
			if !ran {
				continue
			}
			res.Evals++
			res.States++
			res.Transitions++
			res.Nontriv++
			if oc != "" {
				ocs[c.Strat+":"+oc] = true
			}
			if sig != "" && !ss.seen[sig] {
				sj, _ := json.Marshal(treeJSON(m, ep, s, true))
				tj, _ := json.Marshal(treeJSON(m, entryPoint{}, t, false))
				rc := c
				rc.Part, rc.S, rc.T = "pair", sj, tj
				ss.seen[sig] = true
				res.AddCase(sig, what, rc)
			}
		}
	}
	for k := range ocs {
		res.Outcomes = append(res.Outcomes, k)
	}
	if res.Evals == 0 {
		res.Evals = 1
	}
	return res
}

// treeJSON serialises a tree for replay files (typed via the schema).
func treeJSON(m *meta.Module, ep entryPoint, t *model.Tree, atEntry bool) map[string]interface{} {
	if atEntry && ep.kind(m) == "list" {
		return t.ToJSONObj([]meta.Definition{ep.def(m)})
	}
	if atEntry {
		return t.ToJSONObj(ep.defs(m))
	}
	return t.ToJSONObj(m.DataDefinitions())
}

func c03RunPair(c c03Case) eng.Result {
	var res eng.Result
	m := model.SharedSchema(c.Schema)
	ep := entryPoint{c.Entry}
	var defs []meta.Definition
	if ep.kind(m) == "list" {
		defs = []meta.Definition{ep.def(m)}
	} else {
		defs = ep.defs(m)
	}
	s, err := model.FromJSON(defs, c.S)
	if err != nil {
		panic(err)
	}
	t, err := model.FromJSON(m.DataDefinitions(), c.T)
	if err != nil {
		panic(err)
	}
	sig, what, _, _ := c03CheckPair(c, s, t)
	if sig != "" {
		res.Add(sig, what)
	}
	return res
}
