package props

import (
	"encoding/json"
	"errors"
	"fmt"
	"io"
	"os"
	"path/filepath"
	"sort"
	"strings"

	"github.com/freeconf/yang/meta"
	"github.com/freeconf/yang/node"
	"github.com/freeconf/yang/nodeutil"
	"github.com/freeconf/yang/parser"
	"github.com/freeconf/yang/source"
	"github.com/freeconf/yang/val"
	"verif/internal/eng"
)

// C14 — loading any text terminates with a module or an error.

type c14 struct{ base }

func init() {
	eng.Register(&c14{base{id: "C14", level: "fault_enumeration", sub: true,
		rule: "corpus = every .yang file of the repository + generated modules covering all statement kinds; for each: every byte prefix, every single-token deletion / duplication / substitution by each token-class representative; parameter sweeps (nesting depth, concatenation parts, extension arguments, siblings 1..300), NUL and non-UTF-8 bytes at every position of a small module, every reference graph on <= 3 nodes for typedef / grouping / identity / import / include / leafref cycles and wrong-kind targets, and every opener behaviour (nil, missing, error, failing k-th Read, wrong module kind or name). Every input is loaded in a crash-proof worker process with a deadline: the result must be (module, nil) or (nil, error), and a returned module must survive a full accessor walk and schema export. Non-trivial = distinct input that is not the unmodified file"}})
}

type c14Case struct {
	Kind  string `json:"kind"` // prefix | token | sweep | bytes | cycle | opener
	File  string `json:"file,omitempty"`
	Shape string `json:"shape,omitempty"`
	From  int    `json:"from"`
	To    int    `json:"to"`
}

const c14Batch = 150

func (p *c14) Bounds(tier string) map[string]interface{} {
	return map[string]interface{}{"corpus_files": len(c14Corpus(tier)), "token_substitutes": c14Subst, "two_token_mutations": "gen/small: all token pairs x {delete,duplicate,{,},;,\"}^2; thorough also gen/everything x {delete,duplicate}^2", "sweeps": c14Shapes, "sweep_max": 300, "cycle_graphs": "all functions {1..3} -> {1..3, none} per reference kind", "deadline_per_batch_s": 10}
}

var c14Subst = []string{"{", "}", ";", "+", `"x"`, "x", "container", "p:x", "123", "type", "uses", `'`, `"`}

var c14Shapes = []string{"nest-container", "nest-list", "nest-choice-case", "nest-grouping", "concat-parts", "extension-args", "siblings", "nest-uses-chain", "long-ident", "nest-augment", "comment-eof", "string-eof"}

const c14Everything = `module everything { yang-version 1.1; namespace "urn:everything"; prefix ev;
  import everything-types { prefix et; }
  include everything-sub;
  organization "org"; contact "contact"; description "desc" + " more"; reference "ref";
  revision 2020-01-01 { description "rev"; reference "r"; }
  extension ext { argument name { yin-element true; } description "d"; }
  feature f1 { description "d"; } feature f2 { if-feature f1; }
  identity base-id { description "d"; } identity id-a { base base-id; } identity id-b { base id-a; if-feature f1; }
  typedef t1 { type int32 { range "0..10"; } default 5; units "u"; description "d"; }
  typedef t2 { type t1 { range "1..5"; } }
  typedef e1 { type enumeration { enum a { value 1; description "d"; } enum b; } }
  grouping g1 { description "d"; leaf gl { type string; } container gc { leaf x { type t1; } } uses g2; }
  grouping g2 { leaf g2l { type et:remote-type; } }
  container c { presence "p"; config true; description "d"; reference "r"; status current; when "a='x'"; must "a" { error-message "m"; error-app-tag "t"; description "d"; }
    ev:ext "arg";
    leaf a { type string { length "1..10"; pattern "[a-z]*" { modifier invert-match; error-message "e"; } } mandatory true; units "x"; }
    leaf b { type t2; default 3; config true; if-feature "f1 and not f2"; }
    leaf-list ll { type string; ordered-by user; min-elements 0; max-elements 10; }
    leaf d { type decimal64 { fraction-digits 2; range "0.5..9.5"; } }
    leaf e { type e1; } leaf bi { type bits { bit x { position 1; } bit y; } } leaf bn { type binary; } leaf em { type empty; }
    leaf idr { type identityref { base base-id; } } leaf lr { type leafref { path "../a"; require-instance false; } }
    leaf un { type union { type int32; type string; } } leaf ii { type instance-identifier; } anydata ad; anyxml ax;
    uses g1 { refine gl { default "x"; description "d"; } augment gc { leaf aug { type string; } } when "a"; if-feature f1; }
    choice ch { default ca; mandatory false; case ca { leaf ca1 { type string; } } case cb { container cb1 { leaf x { type string; } } } leaf sh { type string; } }
    list l { key "k1 k2"; unique "u1 u2"; min-elements 1; max-elements unbounded; ordered-by system;
      leaf k1 { type string; } leaf k2 { type int32; } leaf u1 { type string; } leaf u2 { type string; }
      action act { input { leaf i { type string; } } output { leaf o { type string; } } }
      notification n1 { leaf x { type string; } } }
  }
  augment "/c" { when "a"; leaf augleaf { type string; } }
  augment "/c/ch" { case cc { leaf cc1 { type string; } } }
  rpc r1 { description "d"; input { leaf i { type string; } uses g2; } output { leaf o { type string; } } }
  notification n { leaf x { type string; } }
  deviation "/c/d" { deviate add { units "m"; } }
  deviation "/c/ii" { deviate not-supported; }
  deviation "/c/ll" { deviate replace { max-elements 5; } deviate delete { min-elements 0; } }
}`

const c14EverythingTypes = `module everything-types { namespace "urn:everything-types"; prefix et; revision 0;
  typedef remote-type { type string { length "0..5"; } default "r"; }
  grouping rg { leaf rl { type remote-type; } }
  identity remote-id;
}`

const c14EverythingSub = `submodule everything-sub { belongs-to everything { prefix ev; }
  container subc { leaf x { type string; } }
  grouping subg { leaf sl { type string; } }
}`

var c14Gen = map[string]string{"gen/everything": c14Everything, "gen/everything-types": c14EverythingTypes, "gen/everything-sub": c14EverythingSub,
	"gen/small": `module small { namespace "urn:s"; prefix s; revision 0; container c { leaf a { type string; default "x"; } list l { key k; leaf k { type int32 { range "1..5|7"; } } } } }`}

// c14Corpus lists corpus entries (repo-relative paths or gen/ names), smallest first.
func c14Corpus(tier string) []string {
	var files []string
	filepath.Walk("/repo", func(path string, info os.FileInfo, err error) error {
		if err == nil && !info.IsDir() && strings.HasSuffix(path, ".yang") {
			files = append(files, strings.TrimPrefix(path, "/repo/"))
		}
		return nil
	})
	sort.Slice(files, func(i, j int) bool {
		a, _ := os.Stat("/repo/" + files[i])
		b, _ := os.Stat("/repo/" + files[j])
		if a.Size() != b.Size() {
			return a.Size() < b.Size()
		}
		return files[i] < files[j]
	})
	if tier != "thorough" {
		// quick: the generated modules and the smallest corpus files
		var small []string
		for _, f := range files {
			if st, _ := os.Stat("/repo/" + f); st.Size() <= 700 {
				small = append(small, f)
			}
		}
		files = small
	}
	var gen []string
	for g := range c14Gen {
		gen = append(gen, g)
	}
	sort.Strings(gen)
	return append(gen, files...)
}

func c14Text(file string) string {
	if t, ok := c14Gen[file]; ok {
		return t
	}
	b, err := os.ReadFile("/repo/" + file)
	if err != nil {
		return ""
	}
	return string(b)
}

func c14Opener(file string) source.Opener {
	gen := func(name, ext string) (io.Reader, error) {
		if t, ok := c14Gen["gen/"+name]; ok {
			return strings.NewReader(t), nil
		}
		return nil, nil
	}
	if strings.HasPrefix(file, "gen/") {
		return gen
	}
	return source.Any(source.Dir("/repo/"+filepath.Dir(file)), source.Dir("/repo/yang"))
}

type yTok struct{ start, end int }

// yangTokens splits text into tokens with the harness' own scanner.
func yangTokens(text string) []yTok {
	var toks []yTok
	i := 0
	for i < len(text) {
		c := text[i]
		switch {
		case c == ' ' || c == '\t' || c == '\n' || c == '\r':
			i++
		case c == '/' && i+1 < len(text) && text[i+1] == '/':
			for i < len(text) && text[i] != '\n' {
				i++
			}
		case c == '/' && i+1 < len(text) && text[i+1] == '*':
			j := strings.Index(text[i+2:], "*/")
			if j < 0 {
				i = len(text)
			} else {
				i += j + 4
			}
		case c == '{' || c == '}' || c == ';' || c == '+':
			toks = append(toks, yTok{i, i + 1})
			i++
		case c == '"' || c == '\'':
			j := i + 1
			for j < len(text) && text[j] != c {
				if c == '"' && text[j] == '\\' {
					j++
				}
				j++
			}
			if j < len(text) {
				j++
			}
			toks = append(toks, yTok{i, j})
			i = j
		default:
			j := i
			for j < len(text) && !strings.ContainsRune(" \t\n\r{};", rune(text[j])) {
				j++
			}
			toks = append(toks, yTok{i, j})
			i = j
		}
	}
	return toks
}

func (p *c14) Cases(tier string, emit func(interface{})) {
	for _, f := range c14Corpus(tier) {
		text := c14Text(f)
		for from := 0; from < len(text); from += c14Batch * 4 {
			to := from + c14Batch*4
			if to > len(text) {
				to = len(text)
			}
			emit(c14Case{Kind: "prefix", File: f, From: from, To: to})
		}
		n := len(yangTokens(text))
		for from := 0; from < n; from += 12 {
			to := from + 12
			if to > n {
				to = n
			}
			emit(c14Case{Kind: "token", File: f, From: from, To: to})
		}
	}
	// two simultaneous token mutations: every pair of tokens x every pair of mutation kinds
	// on the small generated module; thorough: delete/duplicate pairs on the module that
	// holds every statement kind
	{
		n := len(yangTokens(c14Gen["gen/small"]))
		for i := 0; i < n; i++ {
			emit(c14Case{Kind: "token2", File: "gen/small", From: i, To: i + 1})
		}
		if tier == "thorough" {
			n := len(yangTokens(c14Gen["gen/everything"]))
			for i := 0; i < n; i++ {
				emit(c14Case{Kind: "token2", File: "gen/everything", From: i, To: i + 1})
			}
		}
	}
	max := 300
	for _, sh := range c14Shapes {
		for from := 1; from <= max; from += 25 {
			emit(c14Case{Kind: "sweep", Shape: sh, From: from, To: from + 25})
		}
	}
	small := c14Gen["gen/small"]
	for from := 0; from < len(small); from += 50 {
		to := from + 50
		if to > len(small) {
			to = len(small)
		}
		emit(c14Case{Kind: "bytes", File: "gen/small", From: from, To: to})
	}
	nc := len(c14Cycles())
	for from := 0; from < nc; from += 20 {
		to := from + 20
		if to > nc {
			to = nc
		}
		emit(c14Case{Kind: "cycle", From: from, To: to})
	}
	no := len(c14Openers())
	for i := 0; i < no; i++ {
		emit(c14Case{Kind: "opener", From: i, To: i + 1})
	}
}

func (p *c14) Split(raw json.RawMessage) []json.RawMessage {
	var c c14Case
	decode(raw, &c)
	if c.To-c.From <= 1 {
		return nil
	}
	var out []json.RawMessage
	for i := c.From; i < c.To; i++ {
		s := c
		s.From, s.To = i, i+1
		b, _ := json.Marshal(s)
		out = append(out, b)
	}
	return out
}

// ---------------------------------------------------------------- one load

// c14Load loads text and walks the result; returns "" or a symptom.
func c14Load(text string, opener source.Opener) (sym, what string) {
	var m *meta.Module
	var err error
	fr, msg, pan := eng.Recover(func() { m, err = parser.LoadModuleFromString(opener, text) })
	switch {
	case pan:
		return "panic:" + fr, msg
	case m == nil && err == nil:
		return "neither-module-nor-error", ""
	case err != nil:
		return "", ""
	}
	fr, msg, pan = eng.Recover(func() { c14Walk(m) })
	if pan {
		return "accessor-walk-panic:" + fr, msg
	}
	return "", ""
}

var c14FcYang *meta.Module

// c14Walk touches the public accessors of everything reachable from the module.
func c14Walk(m *meta.Module) {
	var walkType func(t *meta.Type, depth int)
	walkType = func(t *meta.Type, depth int) {
		if t == nil || depth > 8 {
			return
		}
		_ = t.Ident()
		_ = t.Format()
		_ = t.Range()
		_ = t.Length()
		_ = t.Patterns()
		_ = t.Enum()
		_ = t.Enums()
		_ = t.Bits()
		_ = t.Base()
		_ = t.FractionDigits()
		_ = t.Path()
		_ = t.UnionFormats()
		_ = t.IdentityBases()
		for _, u := range t.Union() {
			walkType(u, depth+1)
		}
		if t.Format().Single() == val.FmtLeafRef {
			walkType(t.Resolve(), depth+1)
		}
		for _, r := range t.Range() {
			_ = r.String()
		}
	}
	seen := map[meta.Meta]bool{}
	var walk func(d meta.Meta, depth int)
	walk = func(d meta.Meta, depth int) {
		if d == nil || seen[d] || depth > 40 {
			return
		}
		seen[d] = true
		if x, ok := d.(meta.Identifiable); ok {
			_ = x.Ident()
		}
		if x, ok := d.(meta.Describable); ok {
			_ = x.Description()
			_ = x.Reference()
		}
		if x, ok := d.(meta.HasDetails); ok {
			_ = x.Config()
			_ = x.Mandatory()
		}
		if x, ok := d.(meta.HasWhen); ok {
			if w := x.When(); w != nil {
				_ = w.Expression()
			}
		}
		if x, ok := d.(meta.HasMusts); ok {
			for _, mu := range x.Musts() {
				_ = mu.Expression()
			}
		}
		if x, ok := d.(meta.HasExtensions); ok {
			for _, e := range x.Extensions() {
				_ = e.Ident()
				_ = e.Prefix()
				_ = e.Keyword()
				_ = e.Argument()
			}
		}
		if x, ok := d.(meta.Leafable); ok {
			_ = x.HasDefault()
			_ = x.DefaultValue()
			_ = x.Units()
			walkType(x.Type(), 0)
			if t := x.Type(); t != nil && t.Format().Single() == val.FmtIdentityRef {
				_, _ = node.NewValue(t, "no-such-identity")
			}
		}
		if x, ok := d.(*meta.List); ok {
			_ = x.KeyMeta()
			_ = x.MinElements()
			_ = x.MaxElements()
			_ = x.Unique()
			_ = x.OrderedBy()
		}
		if x, ok := d.(*meta.Choice); ok {
			for _, id := range x.CaseIdents() {
				walk(x.Cases()[id], depth+1)
			}
		}
		if x, ok := d.(meta.HasDataDefinitions); ok {
			for _, c := range x.DataDefinitions() {
				_ = meta.SchemaPath(c)
				walk(c, depth+1)
			}
		}
		if x, ok := d.(meta.HasActions); ok {
			for _, a := range x.Actions() {
				walk(a, depth+1)
				if in := a.Input(); in != nil {
					walk(in, depth+1)
				}
				if out := a.Output(); out != nil {
					walk(out, depth+1)
				}
			}
		}
		if x, ok := d.(meta.HasNotifications); ok {
			for _, n := range x.Notifications() {
				walk(n, depth+1)
			}
		}
	}
	_ = m.Namespace()
	_ = m.Prefix()
	_ = m.Revision()
	_ = m.Contact()
	_ = m.Organization()
	var ids []*meta.Identity
	for _, i := range m.Identities() {
		_ = i.Ident()
		_ = i.Base()
		_ = i.DerivedDirect()
		_ = i.DerivedDirectIds()
		ids = append(ids, i)
	}
	// the lookup every identityref value goes through, for a name that is not there
	_ = meta.FindIdentity(ids, "no-such-identity")
	for _, f := range m.Features() {
		_ = f.Ident()
	}
	for _, t := range m.Typedefs() {
		walkType(t.Type(), 0)
	}
	walk(m, 0)
	// the library's own schema browser
	if c14FcYang == nil {
		c14FcYang, _ = parser.LoadModule(source.Dir("/repo/yang"), "fc-yang")
	}
	if ym := c14FcYang; ym != nil {
		b := nodeutil.SchemaBrowser(ym, m)
		if sel := b.Root(); sel != nil {
			_, _ = nodeutil.WriteJSON(sel)
		}
	}
	_ = node.NewBrowser
}

// ---------------------------------------------------------------- generators

func c14Sweep(shape string, n int) (text string, opener source.Opener) {
	var sb strings.Builder
	hdr := `module s { namespace "urn:s"; prefix s; revision 0; `
	switch shape {
	case "nest-container":
		sb.WriteString(hdr)
		for i := 0; i < n; i++ {
			fmt.Fprintf(&sb, "container c%d { ", i)
		}
		sb.WriteString("leaf x { type string; } ")
		sb.WriteString(strings.Repeat("} ", n) + "}")
	case "nest-list":
		sb.WriteString(hdr)
		for i := 0; i < n; i++ {
			fmt.Fprintf(&sb, "list l%d { key k; leaf k { type string; } ", i)
		}
		sb.WriteString(strings.Repeat("} ", n) + "}")
	case "nest-choice-case":
		sb.WriteString(hdr + "container top { ")
		for i := 0; i < n; i++ {
			fmt.Fprintf(&sb, "choice c%d { case k%d { ", i, i)
		}
		sb.WriteString("leaf x { type string; } ")
		sb.WriteString(strings.Repeat("} } ", n) + "} }")
	case "nest-grouping":
		sb.WriteString(hdr)
		for i := 0; i < n; i++ {
			fmt.Fprintf(&sb, "grouping g%d { ", i)
		}
		sb.WriteString("leaf x { type string; } ")
		sb.WriteString(strings.Repeat("} ", n) + "}")
	case "concat-parts":
		sb.WriteString(hdr + "description ")
		for i := 0; i < n; i++ {
			if i > 0 {
				sb.WriteString(" + ")
			}
			fmt.Fprintf(&sb, `"p%d"`, i)
		}
		sb.WriteString("; }")
	case "extension-args":
		sb.WriteString(hdr + "extension e { argument a; } container c { s:e")
		for i := 0; i < n; i++ {
			fmt.Fprintf(&sb, " a%d", i)
		}
		sb.WriteString("; } }")
	case "siblings":
		sb.WriteString(hdr)
		for i := 0; i < n; i++ {
			fmt.Fprintf(&sb, "leaf l%d { type string; } ", i)
		}
		sb.WriteString("}")
	case "nest-uses-chain":
		sb.WriteString(hdr)
		for i := 0; i < n; i++ {
			if i == n-1 {
				fmt.Fprintf(&sb, "grouping g%d { leaf x%d { type string; } } ", i, i)
			} else {
				fmt.Fprintf(&sb, "grouping g%d { leaf x%d { type string; } uses g%d; } ", i, i, i+1)
			}
		}
		sb.WriteString("uses g0; }")
	case "long-ident":
		sb.WriteString(hdr + "leaf " + strings.Repeat("a", n*20) + " { type string; } }")
	case "nest-augment":
		sb.WriteString(hdr + "container c0 { } ")
		path := "/c0"
		for i := 1; i <= n && i <= 120; i++ {
			fmt.Fprintf(&sb, `augment "%s" { container c%d { } } `, path, i)
			path += fmt.Sprintf("/c%d", i)
		}
		sb.WriteString("}")
	case "comment-eof":
		sb.WriteString(hdr + "leaf x { type string; } }" + strings.Repeat(" ", n%5))
		switch n % 4 {
		case 0:
			sb.WriteString("// trailing comment without newline")
		case 1:
			sb.WriteString("/* unterminated")
		case 2:
			sb.WriteString("/* terminated */")
		case 3:
			sb.WriteString("//")
		}
	case "string-eof":
		sb.WriteString(hdr + `description "` + strings.Repeat("x", n))
		if n%2 == 0 {
			sb.WriteString(`\`)
		}
	}
	return sb.String(), nil
}

type c14Scenario struct {
	name   string
	text   string
	opener source.Opener
}

func memOpener(mods map[string]string) source.Opener {
	return func(name, ext string) (io.Reader, error) {
		if t, ok := mods[name]; ok {
			return strings.NewReader(t), nil
		}
		return nil, nil
	}
}

var c14CyclesCache []c14Scenario

// c14Cycles: every reference graph on <= 3 nodes per reference kind, plus wrong-kind targets.
func c14Cycles() []c14Scenario {
	if c14CyclesCache != nil {
		return c14CyclesCache
	}
	var out []c14Scenario
	hdr := `module cy { namespace "urn:cy"; prefix cy; revision 0; `
	// functions f: {0,1,2} -> {0,1,2,3(=base/none)}
	for code := 0; code < 64; code++ {
		f := []int{code % 4, (code / 4) % 4, (code / 16) % 4}
		name := fmt.Sprintf("%d%d%d", f[0], f[1], f[2])
		// typedefs
		var sb strings.Builder
		sb.WriteString(hdr)
		for i := 0; i < 3; i++ {
			if f[i] == 3 {
				fmt.Fprintf(&sb, "typedef t%d { type string; } ", i)
			} else {
				fmt.Fprintf(&sb, "typedef t%d { type t%d; } ", i, f[i])
			}
		}
		sb.WriteString("leaf x { type t0; } }")
		out = append(out, c14Scenario{"typedef-graph-" + name, sb.String(), nil})
		// identities
		sb.Reset()
		sb.WriteString(hdr)
		for i := 0; i < 3; i++ {
			if f[i] == 3 {
				fmt.Fprintf(&sb, "identity i%d; ", i)
			} else {
				fmt.Fprintf(&sb, "identity i%d { base i%d; } ", i, f[i])
			}
		}
		sb.WriteString("leaf x { type identityref { base i0; } } }")
		out = append(out, c14Scenario{"identity-graph-" + name, sb.String(), nil})
		// groupings
		sb.Reset()
		sb.WriteString(hdr)
		for i := 0; i < 3; i++ {
			if f[i] == 3 {
				fmt.Fprintf(&sb, "grouping g%d { leaf l%d { type string; } } ", i, i)
			} else {
				fmt.Fprintf(&sb, "grouping g%d { leaf l%d { type string; } container c%d { uses g%d; } } ", i, i, i, f[i])
			}
		}
		sb.WriteString("uses g0; }")
		out = append(out, c14Scenario{"grouping-graph-" + name, sb.String(), nil})
		// direct uses (no container in between)
		sb.Reset()
		sb.WriteString(hdr)
		for i := 0; i < 3; i++ {
			if f[i] == 3 {
				fmt.Fprintf(&sb, "grouping g%d { leaf l%d { type string; } } ", i, i)
			} else {
				fmt.Fprintf(&sb, "grouping g%d { leaf l%d { type string; } uses g%d; } ", i, i, f[i])
			}
		}
		sb.WriteString("uses g0; }")
		out = append(out, c14Scenario{"grouping-direct-graph-" + name, sb.String(), nil})
		// identities
		sb.Reset()
		sb.WriteString(hdr)
		for i := 0; i < 3; i++ {
			if f[i] == 3 {
				fmt.Fprintf(&sb, "identity i%d; ", i)
			} else {
				fmt.Fprintf(&sb, "identity i%d { base i%d; } ", i, f[i])
			}
		}
		sb.WriteString("leaf x { type identityref { base i0; } } }")
		out = append(out, c14Scenario{"identity-graph-" + name, sb.String(), nil})
		// leafrefs
		sb.Reset()
		sb.WriteString(hdr)
		for i := 0; i < 3; i++ {
			if f[i] == 3 {
				fmt.Fprintf(&sb, "leaf r%d { type string; } ", i)
			} else {
				fmt.Fprintf(&sb, `leaf r%d { type leafref { path "../r%d"; } } `, i, f[i])
			}
		}
		sb.WriteString("}")
		out = append(out, c14Scenario{"leafref-graph-" + name, sb.String(), nil})
		// imports among modules m0..m2 (main = m0)
		mods := map[string]string{}
		for i := 0; i < 3; i++ {
			imp := ""
			if f[i] != 3 {
				imp = fmt.Sprintf("import m%d { prefix p%d; } ", f[i], f[i])
			}
			mods[fmt.Sprintf("m%d", i)] = fmt.Sprintf(`module m%d { namespace "urn:m%d"; prefix m%d; %srevision 0; leaf x%d { type string; } }`, i, i, i, imp, i)
		}
		out = append(out, c14Scenario{"import-graph-" + name, mods["m0"], memOpener(mods)})
		// includes among submodules
		subs := map[string]string{}
		for i := 0; i < 3; i++ {
			inc := ""
			if f[i] != 3 {
				inc = fmt.Sprintf("include s%d; ", f[i])
			}
			subs[fmt.Sprintf("s%d", i)] = fmt.Sprintf(`submodule s%d { belongs-to main { prefix m; } %s leaf y%d { type string; } }`, i, inc, i)
		}
		main := `module main { namespace "urn:main"; prefix m; include s0; revision 0; leaf x { type string; } }`
		out = append(out, c14Scenario{"include-graph-" + name, main, memOpener(subs)})
		// the same graphs with nothing but the references in the bodies (a cycle is then not
		// cut short by a duplicate-name conflict), and with the references spelled through prefixes
		for _, pfx := range []string{"", "cy:"} {
			tag := "bare"
			if pfx != "" {
				tag = "ownprefix"
			}
			sb.Reset()
			sb.WriteString(hdr)
			for i := 0; i < 3; i++ {
				if f[i] == 3 {
					fmt.Fprintf(&sb, "grouping g%d { } ", i)
				} else {
					fmt.Fprintf(&sb, "grouping g%d { uses %sg%d; } ", i, pfx, f[i])
				}
			}
			sb.WriteString("container c { uses " + pfx + "g0; } }")
			out = append(out, c14Scenario{"grouping-" + tag + "-graph-" + name, sb.String(), nil})
			if pfx == "" {
				continue
			}
			sb.Reset()
			sb.WriteString(hdr)
			for i := 0; i < 3; i++ {
				if f[i] == 3 {
					fmt.Fprintf(&sb, "typedef t%d { type string; } ", i)
				} else {
					fmt.Fprintf(&sb, "typedef t%d { type %st%d; } ", i, pfx, f[i])
				}
			}
			sb.WriteString("leaf x { type " + pfx + "t0; } }")
			out = append(out, c14Scenario{"typedef-" + tag + "-graph-" + name, sb.String(), nil})
			sb.Reset()
			sb.WriteString(hdr)
			for i := 0; i < 3; i++ {
				if f[i] == 3 {
					fmt.Fprintf(&sb, "identity i%d; ", i)
				} else {
					fmt.Fprintf(&sb, "identity i%d { base %si%d; } ", i, pfx, f[i])
				}
			}
			sb.WriteString("leaf x { type identityref { base " + pfx + "i0; } } }")
			out = append(out, c14Scenario{"identity-" + tag + "-graph-" + name, sb.String(), nil})
		}
		// typedefs and groupings of a submodule referring to each other through the belongs-to prefix
		{
			var tds, grs string
			for i := 0; i < 3; i++ {
				if f[i] == 3 {
					tds += fmt.Sprintf("typedef t%d { type string; } ", i)
					grs += fmt.Sprintf("grouping g%d { } ", i)
				} else {
					tds += fmt.Sprintf("typedef t%d { type m:t%d; } ", i, f[i])
					grs += fmt.Sprintf("grouping g%d { uses m:g%d; } ", i, f[i])
				}
			}
			mainT := `module main { namespace "urn:main"; prefix m; include s0; revision 0; leaf x { type t0; } }`
			out = append(out, c14Scenario{"typedef-submodule-graph-" + name, mainT, memOpener(map[string]string{"s0": `submodule s0 { belongs-to main { prefix m; } ` + tds + `}`})})
			mainG := `module main { namespace "urn:main"; prefix m; include s0; revision 0; container c { uses g0; } }`
			out = append(out, c14Scenario{"grouping-submodule-graph-" + name, mainG, memOpener(map[string]string{"s0": `submodule s0 { belongs-to main { prefix m; } ` + grs + `}`})})
		}
		// one typedef / grouping / identity per module, referring to the one of the imported module
		{
			mods := map[string]string{}
			for i := 0; i < 3; i++ {
				imp, td, gr, id := "", "typedef t { type string; } ", "grouping g { } ", "identity i; "
				if f[i] != 3 && f[i] != i {
					imp = fmt.Sprintf("import m%d { prefix p%d; } ", f[i], f[i])
					td = fmt.Sprintf("typedef t { type p%d:t; } ", f[i])
					gr = fmt.Sprintf("grouping g { uses p%d:g; } ", f[i])
					id = fmt.Sprintf("identity i { base p%d:i; } ", f[i])
				} else if f[i] == i {
					td = fmt.Sprintf("typedef t { type m%d:t; } ", i)
					gr = fmt.Sprintf("grouping g { uses m%d:g; } ", i)
					id = fmt.Sprintf("identity i { base m%d:i; } ", i)
				}
				use := ""
				if i == 0 {
					use = "leaf x { type t; } container c { uses g; } leaf y { type identityref { base i; } } "
				}
				mods[fmt.Sprintf("m%d", i)] = fmt.Sprintf(`module m%d { namespace "urn:m%d"; prefix m%d; %srevision 0; %s%s%s%s}`, i, i, i, imp, td, gr, id, use)
			}
			out = append(out, c14Scenario{"cross-module-definition-graph-" + name, mods["m0"], memOpener(mods)})
		}
		// includes among submodules that hold nothing else
		{
			subs := map[string]string{}
			for i := 0; i < 3; i++ {
				inc := ""
				if f[i] != 3 {
					inc = fmt.Sprintf("include s%d; ", f[i])
				}
				subs[fmt.Sprintf("s%d", i)] = fmt.Sprintf(`submodule s%d { belongs-to main { prefix m; } %s}`, i, inc)
			}
			out = append(out, c14Scenario{"include-bare-graph-" + name, `module main { namespace "urn:main"; prefix m; include s0; revision 0; }`, memOpener(subs)})
		}
	}
	// wrong-kind and missing targets
	kinds := map[string]string{"leaf": "c/lf", "container": "c", "list": "c/li", "rpc": "r1", "missing": "c/nope", "leaf-list": "c/ll", "choice": "c/ch", "case": "c/ch/ca", "notification": "n1", "rpc-input": "r1/input"}
	body := `container c { leaf lf { type string; } list li { key k; leaf k { type string; } } leaf-list ll { type string; } choice ch { case ca { leaf cl { type string; } } } } rpc r1 { input { leaf i { type string; } } } notification n1 { leaf x { type string; } } `
	var ks []string
	for k := range kinds {
		ks = append(ks, k)
	}
	sort.Strings(ks)
	for _, k := range ks {
		p := kinds[k]
		out = append(out, c14Scenario{"augment-target-" + k, hdr + body + fmt.Sprintf(`augment "/%s" { leaf added { type string; } } }`, p), nil})
		out = append(out, c14Scenario{"augment-case-into-" + k, hdr + body + fmt.Sprintf(`augment "/%s" { case added { leaf al { type string; } } } }`, p), nil})
		out = append(out, c14Scenario{"augment-action-into-" + k, `module cy { yang-version 1.1; namespace "urn:cy"; prefix cy; revision 0; ` + body + fmt.Sprintf(`augment "/%s" { action act { input { leaf i { type string; } } } } }`, p), nil})
		out = append(out, c14Scenario{"augment-notification-into-" + k, `module cy { yang-version 1.1; namespace "urn:cy"; prefix cy; revision 0; ` + body + fmt.Sprintf(`augment "/%s" { notification nn { leaf e { type string; } } } }`, p), nil})
		out = append(out, c14Scenario{"augment-container-list-choice-into-" + k, hdr + body + fmt.Sprintf(`augment "/%s" { container ac { } list al { key k; leaf k { type string; } } choice ach { leaf s { type string; } } leaf-list all { type string; } anydata ad; uses ag; } grouping ag { leaf agl { type string; } } }`, p), nil})
		for _, dv := range []string{"not-supported;", `add { units "u"; }`, `add { default "d"; }`, `add { must "x"; }`, `add { unique "k"; }`, `replace { type int32; }`, `replace { config false; }`, `replace { mandatory true; }`, `replace { max-elements 3; }`, `delete { units "u"; }`, `delete { default "d"; }`, `add { min-elements 1; }`} {
			out = append(out, c14Scenario{"deviation-" + strings.Fields(dv)[0] + "-" + strings.Trim(strings.Fields(dv + " x x")[2], ";{}") + "-on-" + k, hdr + body + fmt.Sprintf(`deviation "/%s" { deviate %s } }`, p, dv), nil})
		}
		out = append(out, c14Scenario{"leafref-target-" + k, hdr + body + fmt.Sprintf(`leaf ref { type leafref { path "/%s"; } } }`, p), nil})
		out = append(out, c14Scenario{"leafref-relative-target-" + k, hdr + body + fmt.Sprintf(`container o { leaf ref { type leafref { path "../%s"; } } } }`, p), nil})
		out = append(out, c14Scenario{"refine-target-" + k, hdr + `grouping g { ` + body + `} container u { uses g { refine ` + p + ` { description "d"; } } } }`, nil})
		out = append(out, c14Scenario{"uses-augment-target-" + k, hdr + `grouping g { ` + body + `} container u { uses g { augment ` + p + ` { leaf added { type string; } } } } }`, nil})
	}
	for _, extra := range []c14Scenario{
		{"key-names-container", hdr + `list l { key c; container c { } } }`, nil},
		{"key-names-missing", hdr + `list l { key nope; leaf k { type string; } } }`, nil},
		{"key-empty", hdr + `list l { key ""; leaf k { type string; } } }`, nil},
		{"union-without-members", hdr + `leaf u { type union; } }`, nil},
		{"enumeration-without-enums", hdr + `leaf e { type enumeration; } }`, nil},
		{"leafref-without-path", hdr + `leaf r { type leafref; } }`, nil},
		{"identityref-without-base", hdr + `leaf r { type identityref; } }`, nil},
		{"identityref-unknown-base", hdr + `leaf r { type identityref { base nope; } } }`, nil},
		{"decimal64-without-fraction", hdr + `leaf d { type decimal64; } }`, nil},
		{"unknown-type", hdr + `leaf x { type nope; } }`, nil},
		{"unknown-prefix-type", hdr + `leaf x { type zz:nope; } }`, nil},
		{"uses-unknown", hdr + `uses nope; }`, nil},
		{"uses-unknown-prefix", hdr + `uses zz:nope; }`, nil},
		{"typedef-self", hdr + `typedef t { type t; } leaf x { type t; } }`, nil},
		{"belongs-to-mismatch", `module main { namespace "urn:main"; prefix m; include s0; revision 0; }`, memOpener(map[string]string{"s0": `submodule s0 { belongs-to other { prefix o; } leaf y { type string; } }`})},
		{"include-a-module", `module main { namespace "urn:main"; prefix m; include s0; revision 0; }`, memOpener(map[string]string{"s0": `module s0 { namespace "urn:s0"; prefix s; revision 0; leaf y { type string; } }`})},
		{"import-a-submodule", `module main { namespace "urn:main"; prefix m; import s0 { prefix s; } revision 0; }`, memOpener(map[string]string{"s0": `submodule s0 { belongs-to main { prefix m; } leaf y { type string; } }`})},
		{"import-wrong-name", `module main { namespace "urn:main"; prefix m; import s0 { prefix s; } revision 0; }`, memOpener(map[string]string{"s0": `module other { namespace "urn:o"; prefix o; revision 0; }`})},
		{"import-file-declares-another-module-that-imports-the-file", `module main { namespace "urn:main"; prefix m; import b { prefix b; } revision 0; }`, memOpener(map[string]string{"b": `module c { namespace "urn:c"; prefix c; import b { prefix b; } revision 0; }`})},
		{"import-file-declares-another-module", `module main { namespace "urn:main"; prefix m; import b { prefix b; } revision 0; leaf x { type b:t; } }`, memOpener(map[string]string{"b": `module c { namespace "urn:c"; prefix c; revision 0; typedef t { type string; } }`})},
		{"import-self", `module main { namespace "urn:main"; prefix m; import main { prefix mm; } revision 0; }`, memOpener(map[string]string{"main": `module main { namespace "urn:main"; prefix m; import main { prefix mm; } revision 0; }`})},
		{"include-self", `module main { namespace "urn:main"; prefix m; include main; revision 0; }`, memOpener(map[string]string{"main": `module main { namespace "urn:main"; prefix m; include main; revision 0; }`})},
		{"empty-text", ``, nil},
		{"only-whitespace", "  \n\t ", nil},
		{"only-comment", "// nothing", nil},
		{"submodule-as-main", `submodule s { belongs-to m { prefix m; } leaf x { type string; } }`, nil},
		{"default-on-container", hdr + `container c { default "x"; } }`, nil},
		{"revision-bad-date", hdr + `revision not-a-date; }`, nil},
		{"dup-leaf", hdr + `leaf x { type string; } leaf x { type string; } }`, nil},
		{"dup-typedef", hdr + `typedef t { type string; } typedef t { type int32; } }`, nil},
		{"augment-own-subtree-recursive", hdr + `container c { } augment "/c" { container c { } } augment "/c/c" { container c { } } }`, nil},
		{"choice-default-unknown-case", hdr + `choice ch { default nope; case a { leaf x { type string; } } } }`, nil},
		{"if-feature-unknown", hdr + `leaf x { if-feature nope; type string; } }`, nil},
		{"bits-duplicate-position", hdr + `leaf b { type bits { bit a { position 1; } bit b { position 1; } } } }`, nil},
		{"enum-duplicate", hdr + `leaf e { type enumeration { enum a; enum a; } } }`, nil},
		{"range-garbage", hdr + `leaf r { type int32 { range "a..b"; } } }`, nil},
		{"range-empty", hdr + `leaf r { type int32 { range ""; } } }`, nil},
		{"length-garbage", hdr + `leaf r { type string { length "..|.."; } } }`, nil},
		{"pattern-bad-regex", hdr + `leaf r { type string { pattern "(["; } } }`, nil},
		{"fraction-digits-garbage", hdr + `leaf d { type decimal64 { fraction-digits x; } } }`, nil},
		{"max-elements-garbage", hdr + `leaf-list l { type string; max-elements x; } }`, nil},
		{"min-elements-negative", hdr + `leaf-list l { type string; min-elements -1; } }`, nil},
		{"enum-value-garbage", hdr + `leaf e { type enumeration { enum a { value x; } } } }`, nil},
		{"bit-position-garbage", hdr + `leaf e { type bits { bit a { position x; } } } }`, nil},
		{"config-garbage", hdr + `leaf x { config maybe; type string; } }`, nil},
		{"extension-no-colon", hdr + `foo bar; }`, nil},
		{"extension-unknown-prefix", hdr + `zz:foo bar; }`, nil},
		{"rpc-in-container", hdr + `container c { rpc r { } } }`, nil},
		{"input-outside-rpc", hdr + `container c { input { leaf x { type string; } } } }`, nil},
		{"case-outside-choice", hdr + `container c { case k { leaf x { type string; } } } }`, nil},
		{"key-outside-list", hdr + `container c { key k; } }`, nil},
		{"type-outside-leaf", hdr + `container c { type string; } }`, nil},
		// the half of an rpc / action that is not there, addressed by augment, deviation and leafref
		{"augment-missing-rpc-output", hdr + `rpc r { input { leaf i { type string; } } } augment "/r/output" { leaf x { type string; } } }`, nil},
		{"augment-missing-rpc-input", hdr + `rpc r { output { leaf o { type string; } } } augment "/r/input" { leaf x { type string; } } }`, nil},
		{"augment-rpc-without-input-and-output", hdr + `rpc r { } augment "/r/input" { leaf x { type string; } } augment "/r/output" { leaf y { type string; } } }`, nil},
		{"deviation-missing-rpc-output", hdr + `rpc r { input { leaf i { type string; } } } deviation "/r/output" { deviate not-supported; } }`, nil},
		{"deviation-below-missing-rpc-output", hdr + `rpc r { input { leaf i { type string; } } } deviation "/r/output/o" { deviate not-supported; } }`, nil},
		{"deviation-missing-rpc-input", hdr + `rpc r { output { leaf o { type string; } } } deviation "/r/input" { deviate not-supported; } }`, nil},
		{"leafref-into-missing-rpc-output", hdr + `rpc r { input { leaf i { type string; } } } leaf l { type leafref { path "/r/output/o"; } } }`, nil},
		{"leafref-into-missing-rpc-input", hdr + `rpc r { output { leaf o { type string; } } } leaf l { type leafref { path "/r/input/i"; } } }`, nil},
		{"leafref-to-rpc-output-node-itself", hdr + `rpc r { input { leaf i { type string; } } } leaf l { type leafref { path "/r/output"; } } }`, nil},
		{"augment-missing-action-output", hdr + `container c { action a { input { leaf i { type string; } } } } augment "/c/a/output" { leaf x { type string; } } }`, nil},
		{"deviation-missing-action-input", hdr + `container c { action a { output { leaf o { type string; } } } } deviation "/c/a/input/i" { deviate not-supported; } }`, nil},
		{"when-must-on-missing-halves", hdr + `rpc r { input { leaf i { type string; must "../../output/o"; } } } }`, nil},
		// a statement stated twice where it may stand once, the first time with an empty argument
		{"second-default-after-empty-default/leaf", hdr + `leaf a { type string; default ""; default "x"; } }`, nil},
		{"second-default-after-empty-default/leaf-single-quoted", hdr + `leaf a { type string; default ''; default "x"; } }`, nil},
		{"second-default-after-empty-default/typedef", hdr + `typedef t { type string; default ""; default "x"; } leaf a { type t; } }`, nil},
		{"second-default-after-empty-default/choice", hdr + `choice ch { default ""; default "a"; leaf a { type string; } } }`, nil},
		{"second-default/refine", hdr + `grouping g { leaf a { type string; } } uses g { refine a { default ""; default "y"; } } }`, nil},
		{"second-default/deviate-add", hdr + `leaf a { type string; } deviation "/a" { deviate add { default "p"; default "q"; } } }`, nil},
		{"second-default/deviate-add-after-empty", hdr + `leaf a { type string; } deviation "/a" { deviate add { default ""; default "q"; } } }`, nil},
		{"second-default/deviate-replace", hdr + `leaf a { type string; default "d"; } deviation "/a" { deviate replace { default "p"; default "q"; } } }`, nil},
		{"second-units", hdr + `leaf a { type string; units ""; units "x"; } }`, nil},
		{"second-description-empty-first", hdr + `leaf a { type string; description ""; description "x"; } }`, nil},
		{"second-presence-empty-first", hdr + `container c { presence ""; presence "x"; } }`, nil},
		{"second-key", hdr + `list l { key k; key k; leaf k { type string; } } }`, nil},
		{"second-type", hdr + `leaf a { type string; type int32; } }`, nil},
		// substatements in bodies that do not take them
		{"modifier-in-range", hdr + `leaf a { type int32 { range "1..2" { modifier invert-match; } } } }`, nil},
		{"modifier-in-length", hdr + `leaf a { type string { length "1..2" { modifier invert-match; } } } }`, nil},
		{"modifier-in-leaf", hdr + `leaf a { type string; modifier invert-match; } }`, nil},
		{"error-message-in-leaf", hdr + `leaf a { type string; error-message "m"; } }`, nil},
		{"fraction-digits-in-string", hdr + `leaf a { type string { fraction-digits 2; } } }`, nil},
		{"path-in-string", hdr + `leaf a { type string { path "../b"; } } }`, nil},
		{"enum-in-string", hdr + `leaf a { type string { enum x; } } }`, nil},
		{"bit-in-enumeration", hdr + `leaf a { type enumeration { bit x; } } }`, nil},
		{"base-in-string", hdr + `leaf a { type string { base nope; } } }`, nil},
		// a module that says belongs-to
		{"module-with-belongs-to/unknown-type", `module main { namespace "urn:main"; prefix m; belongs-to other { prefix o; } revision 0; leaf x { type nope; } }`, nil},
		{"module-with-belongs-to/unknown-grouping", `module main { namespace "urn:main"; prefix m; belongs-to other { prefix o; } revision 0; uses nope; }`, nil},
		{"module-with-belongs-to/own-prefix-type", `module main { namespace "urn:main"; prefix m; belongs-to other { prefix o; } revision 0; leaf x { type o:t; } }`, nil},
		{"module-with-belongs-to/plain", `module main { namespace "urn:main"; prefix m; belongs-to other { prefix o; } revision 0; leaf x { type string; } }`, nil},
		{"two-modules-in-one-text", `module a { namespace "urn:a"; prefix a; revision 0; } module b { namespace "urn:b"; prefix b; revision 0; }`, nil},
	} {
		out = append(out, extra)
	}
	// a module that states belongs-to and includes submodules whose references go by every prefix in sight
	for _, ref := range []string{"uses aa:g;", "uses a:g;", "uses zz:g;", "uses g;", "leaf x { type aa:t; }", "leaf x { type a:t; }", "leaf x { type zz:t; }", "leaf x { type t; }", "leaf x { type identityref { base aa:i; } }", "leaf x { if-feature aa:f; type string; }", `augment "/aa:top" { leaf y { type string; } }`, `uses aa:g { refine l { default "d"; } }`} {
		for _, btName := range []string{"z", "a"} {
			top := `module a { namespace "urn:a"; prefix a; belongs-to ` + btName + ` { prefix zz; } include s; grouping g { leaf l { type string; } } typedef t { type string; } identity i; feature f; container top { } }`
			sub := `submodule s { belongs-to a { prefix aa; } container c { ` + ref + ` } }`
			if strings.HasPrefix(ref, "augment") {
				sub = `submodule s { belongs-to a { prefix aa; } ` + ref + ` }`
			}
			out = append(out, c14Scenario{"module-with-belongs-to-and-include/" + btName + "/" + strings.Trim(strings.Fields(ref)[0]+"-"+strings.Fields(ref)[1], `{};"`), top, memOpener(map[string]string{"s": sub})})
			// and a regular module with the same submodule
			plain := `module a { namespace "urn:a"; prefix a; include s; grouping g { leaf l { type string; } } typedef t { type string; } identity i; feature f; container top { } }`
			if btName == "z" {
				out = append(out, c14Scenario{"submodule-reference-by-prefix/" + strings.Trim(strings.Fields(ref)[0]+"-"+strings.Fields(ref)[1], `{};"`), plain, memOpener(map[string]string{"s": sub})})
			}
		}
	}
	// groupings that use themselves (a freeconf extension) below a choice, a case, a list, an rpc
	for name, body := range map[string]string{
		"in-a-case":                 `grouping g { choice c { case a { uses g; leaf l { type string; } } } } container top { uses g; }`,
		"in-a-shorthand-container":  `grouping g { choice c { container x { uses g; } leaf l { type string; } } } container top { uses g; }`,
		"in-a-nested-choice":        `grouping g { choice c { case a { choice d { case b { uses g; } } leaf l { type string; } } } } container top { uses g; }`,
		"in-a-list-in-a-case":       `grouping g { leaf n { type string; } choice c { case a { list kids { key n; uses g; } } } } container top { uses g; }`,
		"two-groupings-via-choices": `grouping g { choice c { case a { uses h; } } } grouping h { choice d { case b { uses g; leaf l { type string; } } } } container top { uses g; }`,
		"in-rpc-input-choice":       `grouping g { choice c { case a { uses g; leaf l { type string; } } } } rpc r { input { uses g; } }`,
	} {
		out = append(out, c14Scenario{"recursive-grouping/" + name, hdr + body + " }", nil})
	}
	// numeric arguments far outside what the statement takes
	for _, n := range []string{"0", "1", "18", "19", "255", "65536", "2147483647", "2147483648", "99999999999999999999", "-1"} {
		out = append(out,
			c14Scenario{"fraction-digits-" + n, hdr + `leaf a { type decimal64 { fraction-digits ` + n + `; range "1..2"; } } }`, nil},
			c14Scenario{"fraction-digits-" + n + "-bare-max", hdr + `leaf a { type decimal64 { fraction-digits ` + n + `; range "min..5 | max"; } } }`, nil},
			c14Scenario{"min-elements-" + n, hdr + `leaf-list a { type string; min-elements ` + n + `; } }`, nil},
			c14Scenario{"max-elements-" + n, hdr + `leaf-list a { type string; max-elements ` + n + `; } }`, nil},
			c14Scenario{"enum-value-" + n, hdr + `leaf a { type enumeration { enum x { value ` + n + `; } enum y; } } }`, nil},
			c14Scenario{"bit-position-" + n, hdr + `leaf a { type bits { bit x { position ` + n + `; } bit y; } } }`, nil},
		)
	}
	// bounds of range and length that are no plain numbers, in every position of one and two alternatives
	for _, tok := range []string{"NaN", "Inf", "+inf", "-Infinity", "1e400", "-1e400", "0x10", "1_0", "1e2", ".5", "5.", "--1", "+-1", "min", "max", "MAX", "", " "} {
		for si, shape := range []string{"1..%s", "%s..5", "%s", "1..2 | 4..%s", "%s..2 | 4..5", "1..2 | %s", "%s | 4..5", "1..2|4..5|%s..9", "%s..%s"} {
			arg := strings.Replace(shape, "%s", tok, -1)
			name := fmt.Sprintf("bound-%q-shape-%d", tok, si)
			out = append(out,
				c14Scenario{"range-int32/" + name, hdr + `leaf a { type int32 { range "` + arg + `"; } } }`, nil},
				c14Scenario{"range-uint64/" + name, hdr + `leaf a { type uint64 { range "` + arg + `"; } } }`, nil},
				c14Scenario{"range-decimal64/" + name, hdr + `leaf a { type decimal64 { fraction-digits 2; range "` + arg + `"; } } }`, nil},
				c14Scenario{"length-string/" + name, hdr + `leaf a { type string { length "` + arg + `"; } } }`, nil},
				c14Scenario{"range-typedef-narrowed/" + name, hdr + `typedef t { type int32 { range "0..100"; } } leaf-list a { type t { range "` + arg + `"; } } }`, nil},
				c14Scenario{"range-union-member/" + name, hdr + `leaf a { type union { type int8 { range "` + arg + `"; } type string; } } }`, nil},
			)
		}
	}
	// every statement in every body: most placements are not YANG, some are and mean nothing there
	// (config below rpc input); each is one load
	for _, b := range c14Bodies {
		for _, st := range c14Statements {
			out = append(out, c14Scenario{"placement/" + strings.Fields(st)[0] + "-" + strings.Trim(strings.Fields(st + " -")[1], `";{}`) + "-in-" + b[0], c14PlaceHdr + strings.Replace(b[1], "%s", st, 1) + " }", nil})
		}
	}
	c14CyclesCache = out
	return out
}

const c14PlaceHdr = `module pl { yang-version 1.1; namespace "urn:pl"; prefix pl; revision 0; feature f; grouping g0 { leaf g0l { type string; } } identity b0; `

var c14Bodies = [][2]string{
	{"module", `%s`},
	{"container", `container c { %s }`},
	{"leaf", `leaf a { type string; %s }`},
	{"leaf-list", `leaf-list a { type string; %s }`},
	{"list", `list l { key k; leaf k { type string; } %s }`},
	{"choice", `choice ch { leaf a { type string; } %s }`},
	{"case", `choice ch { case x { leaf a { type string; } %s } }`},
	{"anydata", `anydata d { %s }`},
	{"anyxml", `anyxml d { %s }`},
	{"rpc", `rpc r { %s }`},
	{"input", `rpc r { input { leaf a { type string; } %s } }`},
	{"output", `rpc r { output { leaf a { type string; } %s } }`},
	{"leaf-in-input", `rpc r { input { leaf a { type string; %s } } }`},
	{"leaf-in-output", `rpc r { output { leaf a { type string; %s } } }`},
	{"container-in-input", `rpc r { input { container c { %s } } }`},
	{"list-in-output", `rpc r { output { list l { %s } } }`},
	{"choice-in-input", `rpc r { input { choice ch { leaf a { type string; } %s } } }`},
	{"action", `container c { action a { %s } }`},
	{"leaf-in-action-input", `container c { action a { input { leaf a { type string; %s } } } }`},
	{"leaf-in-action-below-config-false", `container c { config false; action a { input { leaf a { type string; %s } } } }`},
	{"notification", `notification n { %s }`},
	{"leaf-in-notification", `notification n { leaf a { type string; %s } }`},
	{"leaf-in-notification-in-list", `list l { key k; leaf k { type string; } notification n { leaf a { type string; %s } } }`},
	{"grouping", `grouping g { %s } uses g;`},
	{"leaf-of-grouping-used-in-input", `grouping g { leaf a { type string; %s } } rpc r { input { uses g; } }`},
	{"leaf-of-grouping-used-below-config-false", `grouping g { leaf a { type string; %s } } container c { config false; uses g; }`},
	{"typedef", `typedef t { type string; %s } leaf a { type t; }`},
	{"identity", `identity i { %s }`},
	{"feature", `feature f2 { %s }`},
	{"extension", `extension e { %s }`},
	{"augment", `container c { } augment "/c" { leaf a { type string; } %s }`},
	{"leaf-augmented-into-input", `rpc r { input { leaf i { type string; } } } augment "/r/input" { leaf a { type string; %s } }`},
	{"leaf-augmented-below-config-false", `container c { config false; } augment "/c" { leaf a { type string; %s } }`},
	{"uses", `grouping g { leaf a { type string; } } uses g { %s }`},
	{"refine", `grouping g { leaf a { type string; } } uses g { refine a { %s } }`},
	{"refine-in-input", `grouping g { leaf a { type string; } } rpc r { input { uses g { refine a { %s } } } }`},
	{"refine-container", `grouping g { container a { } } uses g { refine a { %s } }`},
	{"refine-list", `grouping g { list a { key k; leaf k { type string; } } } uses g { refine a { %s } }`},
	{"refine-choice", `grouping g { choice a { leaf x { type string; } } } uses g { refine a { %s } }`},
	{"deviate-add-in-input", `rpc r { input { leaf a { type string; } } } deviation "/r/input/a" { deviate add { %s } }`},
	{"deviate-replace-in-input", `rpc r { input { leaf a { type string; } } } deviation "/r/input/a" { deviate replace { %s } }`},
	{"deviate-add-on-container", `container c { } deviation "/c" { deviate add { %s } }`},
	{"deviate-add-on-choice", `choice ch { leaf a { type string; } } deviation "/ch" { deviate add { %s } }`},
	{"deviate-replace-on-list", `list l { key k; leaf k { type string; } } deviation "/l" { deviate replace { %s } }`},
	{"deviate-delete-on-leaf", `leaf a { type string; } deviation "/a" { deviate delete { %s } }`},
	{"deviation", `leaf a { type string; } deviation "/a" { %s }`},
	{"type", `leaf a { type string { %s } }`},
	{"type-int", `leaf a { type int32 { %s } }`},
	{"type-union", `leaf a { type union { type string; %s } }`},
	{"type-leafref", `leaf b { type string; } leaf a { type leafref { path "../b"; %s } }`},
	{"type-identityref", `leaf a { type identityref { base b0; %s } }`},
	{"enum", `leaf a { type enumeration { enum x { %s } } }`},
	{"bit", `leaf a { type bits { bit x { %s } } }`},
	{"range", `leaf a { type int32 { range "1..2" { %s } } }`},
	{"length", `leaf a { type string { length "1..2" { %s } } }`},
	{"pattern", `leaf a { type string { pattern "a" { %s } } }`},
	{"must", `leaf a { type string; must "1" { %s } }`},
	{"when", `leaf a { type string; when "1" { %s } }`},
	{"revision", `revision 2001-01-01 { %s }`},
	{"extension-use", `extension e { argument x; } pl:e "v" { %s }`},
}

var c14Statements = []string{
	`config true;`, `config false;`, `mandatory true;`, `mandatory false;`, `default "x";`, `units "u";`, `status current;`, `status obsolete;`,
	`when "1";`, `must "1";`, `if-feature f;`, `if-feature nope;`, `presence "p";`, `min-elements 1;`, `max-elements 2;`, `max-elements unbounded;`, `ordered-by user;`,
	`key "k";`, `unique "k";`, `description "d";`, `reference "r";`, `type string;`, `type nope;`, `leaf z { type string; }`, `leaf-list z { type string; }`, `container z { }`,
	`list z { key k; leaf k { type string; } }`, `uses g0;`, `uses nope;`, `action z { }`, `notification z { }`, `rpc z { }`, `choice z { }`, `case z { }`, `anydata z;`,
	`typedef z { type string; }`, `grouping z { }`, `identity z;`, `feature z;`, `extension z;`, `augment "/c" { }`, `refine a { }`, `deviate not-supported;`,
	`error-message "m";`, `error-app-tag "t";`, `position 1;`, `value 1;`, `fraction-digits 2;`, `length "1";`, `range "1";`, `pattern "a";`, `path "../a";`, `base b0;`, `base nope;`,
	`require-instance true;`, `enum z;`, `bit z;`, `modifier invert-match;`, `prefix z;`, `namespace "urn:z";`, `yang-version 1.1;`, `contact "c";`, `organization "o";`,
	`revision-date 2020-01-01;`, `revision 2020-01-01;`, `argument a;`, `yin-element true;`, `input { }`, `output { }`, `belongs-to z { prefix z; }`, `import z { prefix z; }`, `include z;`,
	`pl:nope;`, `nope:nope "x";`,
}

type failingReader struct {
	data []byte
	k    int
	n    int
}

var errRead = errors.New("verif: injected read failure")

func (f *failingReader) Read(p []byte) (int, error) {
	if f.n >= f.k {
		return 0, errRead
	}
	f.n++
	if len(f.data) == 0 {
		return 0, io.EOF
	}
	c := copy(p[:1], f.data) // one byte per Read: every Read position is a fault position
	f.data = f.data[c:]
	return c, nil
}

// c14Openers: opener behaviours for a module that imports and includes.
func c14Openers() []c14Scenario {
	main := `module om { namespace "urn:om"; prefix om; import dep { prefix d; } include sub; revision 0; leaf x { type d:t; } }`
	dep := `module dep { namespace "urn:dep"; prefix d; revision 0; typedef t { type string; } }`
	sub := `submodule sub { belongs-to om { prefix om; } leaf y { type string; } }`
	good := map[string]string{"dep": dep, "sub": sub}
	out := []c14Scenario{
		{"nil-opener", main, nil},
		{"all-present", main, memOpener(good)},
		{"nil-nil", main, func(string, string) (io.Reader, error) { return nil, nil }},
		{"nil-error", main, func(string, string) (io.Reader, error) { return nil, errors.New("verif: opener error") }},
		{"dep-missing", main, memOpener(map[string]string{"sub": sub})},
		{"sub-missing", main, memOpener(map[string]string{"dep": dep})},
		{"empty-reader", main, func(string, string) (io.Reader, error) { return strings.NewReader(""), nil }},
		{"garbage-reader", main, func(string, string) (io.Reader, error) { return strings.NewReader("\x00\xff{{{"), nil }},
		{"same-main-returned", main, func(string, string) (io.Reader, error) { return strings.NewReader(main), nil }},
	}
	for k := 0; k <= len(dep)+1; k += 7 {
		k := k
		out = append(out, c14Scenario{fmt.Sprintf("dep-read-fails-at-%d", k), main, func(name, ext string) (io.Reader, error) {
			if name == "dep" {
				return &failingReader{data: []byte(dep), k: k}, nil
			}
			return memOpener(good)(name, ext)
		}})
	}
	for k := 0; k <= len(sub)+1; k += 7 {
		k := k
		out = append(out, c14Scenario{fmt.Sprintf("sub-read-fails-at-%d", k), main, func(name, ext string) (io.Reader, error) {
			if name == "sub" {
				return &failingReader{data: []byte(sub), k: k}, nil
			}
			return memOpener(good)(name, ext)
		}})
	}
	return out
}

// ---------------------------------------------------------------- run

func (p *c14) Run(raw json.RawMessage) eng.Result {
	var c c14Case
	decode(raw, &c)
	var res eng.Result
	ss := &sigSet{res: &res}
	single := c.To-c.From == 1
	report := func(class, sym, what string, idx int) {
		sig := "C14/" + class + "/" + sym
		if ss.seen == nil {
			ss.seen = map[string]bool{}
		}
		if ss.seen[sig] {
			return
		}
		ss.seen[sig] = true
		rc := c
		rc.From, rc.To = idx, idx+1
		res.AddCase(sig, what, rc)
	}
	_ = single
	switch c.Kind {
	case "prefix":
		text := c14Text(c.File)
		op := c14Opener(c.File)
		for i := c.From; i < c.To && i < len(text); i++ {
			res.Evals++
			res.Nontriv++
			if sym, what := c14Load(text[:i], op); sym != "" {
				report("truncation", sym, fmt.Sprintf("%s truncated to %d bytes (…%q): %s", c.File, i, tail(text[:i], 30), what), i)
			}
		}
	case "token":
		text := c14Text(c.File)
		op := c14Opener(c.File)
		toks := yangTokens(text)
		for ti := c.From; ti < c.To && ti < len(toks); ti++ {
			t := toks[ti]
			muts := map[string]string{
				"delete":    text[:t.start] + text[t.end:],
				"duplicate": text[:t.end] + " " + text[t.start:t.end] + text[t.end:],
			}
			for _, s := range c14Subst {
				muts["substitute:"+s] = text[:t.start] + s + text[t.end:]
			}
			// a whole simple statement (keyword argument ;) said twice
			if ti+2 < len(toks) && text[toks[ti+2].start:toks[ti+2].end] == ";" {
				stmt := text[t.start:toks[ti+2].end]
				muts["duplicate-statement"] = text[:toks[ti+2].end] + " " + stmt + text[toks[ti+2].end:]
			}
			var ks []string
			for k := range muts {
				ks = append(ks, k)
			}
			sort.Strings(ks)
			for _, k := range ks {
				res.Evals++
				res.Nontriv++
				if sym, what := c14Load(muts[k], op); sym != "" {
					report("token-mutation", sym, fmt.Sprintf("%s token %d %q %s: %s", c.File, ti, text[t.start:t.end], k, what), ti)
				}
			}
		}
	case "token2":
		text := c14Text(c.File)
		op := c14Opener(c.File)
		toks := yangTokens(text)
		kinds := []string{"delete", "duplicate", "{", "}", ";", `"`}
		if c.File != "gen/small" {
			kinds = []string{"delete", "duplicate"}
		}
		mutate := func(src string, t yTok, k string) string {
			switch k {
			case "delete":
				return src[:t.start] + src[t.end:]
			case "duplicate":
				return src[:t.end] + " " + src[t.start:t.end] + src[t.end:]
			}
			return src[:t.start] + k + src[t.end:]
		}
		for ti := c.From; ti < c.To && ti < len(toks); ti++ {
			for tj := ti + 1; tj < len(toks); tj++ {
				for _, kj := range kinds {
					// the later token first so that the earlier offsets stay valid
					first := mutate(text, toks[tj], kj)
					for _, ki := range kinds {
						res.Evals++
						res.Nontriv++
						if sym, what := c14Load(mutate(first, toks[ti], ki), op); sym != "" {
							report("two-token-mutations", sym, fmt.Sprintf("%s token %d %q %s and token %d %q %s: %s", c.File, ti, text[toks[ti].start:toks[ti].end], ki, tj, text[toks[tj].start:toks[tj].end], kj, what), ti)
						}
					}
				}
			}
		}
	case "sweep":
		for n := c.From; n < c.To; n++ {
			text, op := c14Sweep(c.Shape, n)
			res.Evals++
			res.Nontriv++
			if sym, what := c14Load(text, op); sym != "" {
				report("shape:"+c.Shape, sym, fmt.Sprintf("%s with parameter %d: %s", c.Shape, n, what), n)
			}
		}
	case "bytes":
		text := c14Text(c.File)
		for i := c.From; i < c.To && i < len(text); i++ {
			for _, b := range []string{"\x00", "\xff", "\xc3", "\r", "\\", " "} {
				for _, mode := range []string{"insert", "replace"} {
					mut := text[:i] + b + text[i:]
					if mode == "replace" {
						mut = text[:i] + b + text[i+1:]
					}
					res.Evals++
					res.Nontriv++
					if sym, what := c14Load(mut, nil); sym != "" {
						report("odd-byte", sym, fmt.Sprintf("%s %q at %d: %s", mode, b, i, what), i)
					}
				}
			}
		}
	case "cycle":
		cy := c14Cycles()
		for i := c.From; i < c.To && i < len(cy); i++ {
			res.Evals++
			res.Nontriv++
			if sym, what := c14Load(cy[i].text, cy[i].opener); sym != "" {
				cls := cy[i].name
				if j := strings.Index(cls, "-graph-"); j >= 0 {
					cls = cls[:j+6]
				}
				for _, fam := range []string{"deviation", "augment", "leafref", "refine", "uses-augment"} {
					if strings.HasPrefix(cls, fam+"-") {
						cls = fam + "-target"
					}
				}
				report("reference:"+cls, sym, fmt.Sprintf("%s: %s; module: %s", cy[i].name, what, trunc200(cy[i].text)), i)
			}
		}
	case "opener":
		ops := c14Openers()
		for i := c.From; i < c.To && i < len(ops); i++ {
			res.Evals++
			res.Nontriv++
			if sym, what := c14Load(ops[i].text, ops[i].opener); sym != "" {
				name := ops[i].name
				if j := strings.Index(name, "-fails-at-"); j >= 0 {
					name = name[:j+9]
				}
				report("opener:"+name, sym, fmt.Sprintf("%s: %s", ops[i].name, what), i)
			}
		}
	}
	res.Outcomes = []string{c.Kind}
	if res.Evals == 0 {
		res.Evals = 1
	}
	return res
}

func c14CycleClass(name string) string {
	cls := name
	if j := strings.Index(cls, "-graph-"); j >= 0 {
		cls = cls[:j+6]
	}
	for _, fam := range []string{"deviation", "augment", "leafref", "refine", "uses-augment"} {
		if strings.HasPrefix(cls, fam+"-") {
			cls = fam + "-target"
		}
	}
	return cls
}

// CrashSite labels a crash of a single-input case by the class of its input.
func (p *c14) CrashSite(raw json.RawMessage) string {
	var c c14Case
	decode(raw, &c)
	if c.To-c.From != 1 {
		return ""
	}
	switch c.Kind {
	case "cycle":
		if cy := c14Cycles(); c.From < len(cy) {
			return "reference:" + c14CycleClass(cy[c.From].name)
		}
	case "opener":
		if ops := c14Openers(); c.From < len(ops) {
			name := ops[c.From].name
			if j := strings.Index(name, "-fails-at-"); j >= 0 {
				name = name[:j+9]
			}
			return "opener:" + name
		}
	}
	return ""
}

func tail(s string, n int) string {
	if len(s) > n {
		return s[len(s)-n:]
	}
	return s
}

func trunc200(s string) string {
	if len(s) > 300 {
		return s[:300] + "…"
	}
	return s
}

// exported for probes
func C14Everything() string                 { return c14Everything }
func C14LoadX(text string) (string, string) { return c14Load(text, c14Opener("gen/everything")) }
