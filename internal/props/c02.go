package props

import (
	"encoding/json"
	"fmt"
	"sort"
	"strings"

	"github.com/freeconf/yang/meta"
	"github.com/freeconf/yang/node"
	"github.com/freeconf/yang/val"
	"verif/internal/eng"
)

// C02 — every leaf's effective type is the RFC 7950 derivation of its type statement.

type c02 struct{ base }

func init() {
	eng.Register(&c02{base{id: "C02", level: "exploration",
		rule: "type expressions (every built-in base; range/length/pattern restrictions; enumeration and bits with explicit/implicit/mixed numbering; decimal64; unions incl. typedef and nested members; leafref relative/absolute/through a list/to a leafref; identityref with base chains, several bases and a cross-module base) x typedef chain depth 0..3 (each level may add a restriction, default, units) x typedef scope (module, ancestor container, grouping-local, submodule, imported by prefix, own-prefix-qualified) x number of uses of the enclosing grouping (0..3) x leaf / leaf-list x who states default and units. Each module is loaded by the real compiler; the observed type of every copy of the leaf is compared with a reference derivation (format, list-ness, restriction set per level, enum/bit numbering, union members, leafref target, identity closure, nearest default/units, explicit leaf value wins), and all uses must agree. Non-trivial = distinct generated module"}})
}

type c02Case struct {
	Family string `json:"family"`
	Depth  int    `json:"depth"`
	Scope  string `json:"scope"`
	Uses   int    `json:"uses"`
	List   bool   `json:"list"`
	// States: which levels state default/units: bit i = typedef level i+1 (1 = innermost... outermost first), bit 7 = the leaf itself
	Default int `json:"default"`
	Units   int `json:"units"`
}

var c02Families = []string{"int32-range", "string-length-pattern", "enumeration", "bits", "decimal64", "union", "leafref", "identityref", "uint8", "boolean", "int64-range"}
var c02Scopes = []string{"module", "ancestor", "grouping", "submodule", "imported", "own-prefix"}

func (p *c02) Bounds(tier string) map[string]interface{} {
	return map[string]interface{}{"families": c02Families, "chain_depth": "0..3", "scopes": c02Scopes, "uses": "0..3", "builtins": "all 19 built-in types without restriction", "product": "full product (both tiers)"}
}

func (p *c02) Cases(tier string, emit func(interface{})) {
	seen := map[string]bool{}
	put := func(c c02Case) {
		if c.Depth == 0 {
			c.Scope = "module"
			c.Default &= 128
			c.Units &= 128
		}
		if c.Scope == "grouping" && c.Uses == 0 {
			return
		}
		if c.Family == "leafref" && c.Scope == "imported" {
			return // an absolute path inside an imported typedef would have to point into the importing module
		}
		for l := c.Depth; l < 3; l++ {
			c.Default &^= 1 << l
			c.Units &^= 1 << l
		}
		b, _ := json.Marshal(c)
		if !seen[string(b)] {
			seen[string(b)] = true
			emit(c)
		}
	}
	states := []int{0, 1, 2, 4, 3, 5, 7, 128, 129, 130}
	// the full product takes three seconds: both tiers run it
	if tier == "thorough" || tier == "quick" {
		for _, f := range c02Families {
			for d := 0; d <= 3; d++ {
				for _, sc := range c02Scopes {
					for u := 0; u <= 3; u++ {
						for _, l := range []bool{false, true} {
							for _, ds := range states {
								// who states units is varied independently of who states the default
								for _, us := range []int{ds ^ 1, ds, ds ^ 128, ds ^ 129, 0, 7} {
									put(c02Case{f, d, sc, u, l, ds, us})
								}
							}
						}
					}
				}
			}
		}
		emit(c02Case{Family: "builtins"})
		emit(c02Case{Family: "special"})
		return
	}
	for _, f := range c02Families {
		base := c02Case{Family: f, Depth: 1, Scope: "module", Uses: 1, Default: 1, Units: 1}
		put(base)
		for d := 0; d <= 3; d++ {
			c := base
			c.Depth = d
			put(c)
		}
		for _, sc := range c02Scopes {
			c := base
			c.Scope = sc
			put(c)
		}
		for u := 0; u <= 3; u++ {
			c := base
			c.Uses = u
			put(c)
		}
		for _, ds := range states {
			c := base
			c.Depth = 3
			c.Default, c.Units = ds, ds
			put(c)
		}
		c := base
		c.List = true
		put(c)
		// default and units stated by different parties (leaf vs. typedef levels), per number of uses
		for u := 0; u <= 3; u++ {
			for _, du := range [][2]int{{128, 1}, {1, 128}, {128, 0}, {0, 128}, {129, 2}, {2, 129}, {128, 4}, {4, 128}, {1, 2}, {2, 1}, {0, 1}, {1, 0}} {
				for _, sc := range []string{"module", "grouping"} {
					put(c02Case{f, 3, sc, u, false, du[0], du[1]})
				}
			}
		}
		// pairs of depth, scope, uses, who states default
		for d := 1; d <= 3; d++ {
			for _, sc := range c02Scopes {
				for u := 0; u <= 3; u++ {
					for _, ds := range []int{0, 1, 4, 128, 129} {
						cnt := 0
						if d != 1 {
							cnt++
						}
						if sc != "module" {
							cnt++
						}
						if u != 1 {
							cnt++
						}
						if ds != 1 {
							cnt++
						}
						if cnt <= 2 {
							put(c02Case{f, d, sc, u, false, ds, ds})
						}
					}
				}
			}
		}
	}
	emit(c02Case{Family: "builtins"})
	emit(c02Case{Family: "special"})
}

// family definitions: base type text and per-level restriction texts (level 0 = on the base type, outermost typedef)
type c02Fam struct {
	base   string   // built-in type name
	restr  []string // restriction statements by level 0..3 ("" = none)
	prolog string   // extra module-level statements
	defVal []string // default values usable at level 0..3 and leaf (index 4)
}

func c02Family(name string) c02Fam {
	switch name {
	case "int32-range":
		return c02Fam{"int32", []string{`range "0..100";`, `range "10..50";`, `range "20..30";`, `range "22..28";`}, "", []string{"25", "26", "27", "24", "23"}}
	case "int64-range":
		return c02Fam{"int64", []string{`range "min..9223372036854775806";`, `range "-5..50";`, ``, `range "0..10|20";`}, "", []string{"1", "2", "3", "4", "5"}}
	case "uint8":
		return c02Fam{"uint8", []string{``, `range "1..200";`, `range "2..100";`, ``}, "", []string{"7", "8", "9", "10", "11"}}
	case "string-length-pattern":
		return c02Fam{"string", []string{`length "0..10"; pattern "[a-z]*";`, `length "1..8";`, `pattern "a.*";`, `length "2..5"; pattern ".*b";`}, "", []string{"ab", "aab", "abb", "abab", "aabb"}}
	case "enumeration":
		return c02Fam{"enumeration", []string{`enum zero; enum five { value 5; } enum six; enum two { value 2; } enum z0 { value 0; }`, ``, ``, ``}, "", []string{"zero", "five", "six", "two", "z0"}}
	case "bits":
		return c02Fam{"bits", []string{`bit a; bit f { position 5; } bit g; bit b { position 2; }`, ``, ``, ``}, "", []string{"a", "f", "g", "b", "a b"}}
	case "decimal64":
		return c02Fam{"decimal64", []string{`fraction-digits 3; range "0..100";`, `range "1.5..50";`, ``, `range "2..3";`}, "", []string{"2.5", "2.6", "2.7", "2.8", "2.9"}}
	case "union":
		return c02Fam{"union", []string{`type int32 { range "0..10"; } type um; type union { type boolean; type string { length "1"; } }`, ``, ``, ``}, `typedef um { type uint8 { range "1..9"; } }`, []string{"1", "2", "3", "4", "5"}}
	case "leafref":
		return c02Fam{"leafref", []string{`path "/tgt/k";`, ``, ``, ``}, `container tgt { leaf k { type uint16; } }`, []string{"1", "2", "3", "4", "5"}}
	case "identityref":
		return c02Fam{"identityref", []string{`base b1;`, ``, ``, ``}, `identity b1; identity d1 { base b1; } identity d2 { base d1; } identity d3 { base d2; } identity e1 { base b1; } identity e2 { base e1; } identity e3 { base e2; } identity e4 { base e1; } identity f1 { base b1; } identity f2 { base f1; } identity other; identity o1 { base other; } identity o2 { base o1; } identity multi { base b1; base other; }`, []string{"d1", "d2", "d3", "multi", "d1"}}
	case "boolean":
		return c02Fam{"boolean", []string{``, ``, ``, ``}, "", []string{"true", "false", "true", "false", "true"}}
	}
	panic(name)
}

type c02Expect struct {
	format   string
	ranges   []string
	lengths  []string
	patterns []string
	enum     string
	bits     string
	union    string
	resolved string
	ids      string
	fd       int
	hasDef   bool
	def      string
	units    string
}

func normRange(s string) string { return strings.ReplaceAll(s, " ", "") }

// c02Build renders the module set and the expectation for the leaf.
func c02Build(c c02Case) (main string, mods map[string]string, paths []string, exp c02Expect) {
	fam := c02Family(c.Family)
	kind := "leaf"
	if c.List {
		kind = "leaf-list"
	}
	// typedef chain: t1 (outermost, carries level-0 restriction on the built-in) ... t<depth>
	var typedefs []string
	prev := fam.base
	prevRestr := fam.restr[0]
	pfx := ""
	switch c.Scope {
	case "imported":
		pfx = "imp:"
	case "own-prefix":
		pfx = "m:"
	}
	exp.format = fam.base
	collect := func(r string) {
		for _, st := range strings.Split(r, ";") {
			st = strings.TrimSpace(st)
			switch {
			case strings.HasPrefix(st, "range "):
				exp.ranges = append(exp.ranges, normRange(strings.Trim(st[6:], `"`)))
			case strings.HasPrefix(st, "length "):
				exp.lengths = append(exp.lengths, normRange(strings.Trim(st[7:], `"`)))
			case strings.HasPrefix(st, "pattern "):
				exp.patterns = append(exp.patterns, strings.Trim(st[8:], `"`))
			case strings.HasPrefix(st, "fraction-digits "):
				fmt.Sscan(st[16:], &exp.fd)
			}
		}
	}
	for lvl := 1; lvl <= c.Depth; lvl++ {
		body := ""
		if prevRestr != "" {
			body = fmt.Sprintf("type %s { %s }", prev, prevRestr)
		} else {
			body = fmt.Sprintf("type %s;", prev)
		}
		collect(prevRestr)
		extra := ""
		if c.Default&(1<<(lvl-1)) != 0 && !c.List {
			extra += fmt.Sprintf(` default "%s";`, fam.defVal[lvl-1])
			exp.hasDef, exp.def = true, fam.defVal[lvl-1]
		}
		if c.Units&(1<<(lvl-1)) != 0 {
			extra += fmt.Sprintf(` units "u%d";`, lvl)
			exp.units = fmt.Sprintf("u%d", lvl)
		}
		typedefs = append(typedefs, fmt.Sprintf("typedef t%d { %s%s }", lvl, body, extra))
		if lvl == 1 {
			prev = "t1"
		} else {
			prev = fmt.Sprintf("t%d", lvl)
		}
		// references between typedefs of the chain stay unqualified except the leaf's reference
		prevRestr = fam.restr[lvl]
		if c.Family == "union" || c.Family == "leafref" || c.Family == "identityref" || c.Family == "enumeration" || c.Family == "bits" {
			prevRestr = ""
		}
	}
	collect(prevRestr)
	leafType := ""
	ref := prev
	if c.Depth > 0 {
		ref = pfx + prev
	}
	if prevRestr != "" {
		leafType = fmt.Sprintf("type %s { %s }", ref, prevRestr)
	} else {
		leafType = fmt.Sprintf("type %s;", ref)
	}
	leafExtra := ""
	if c.Default&128 != 0 && !c.List {
		leafExtra += fmt.Sprintf(` default "%s";`, fam.defVal[4])
		exp.hasDef, exp.def = true, fam.defVal[4]
	}
	if c.Units&128 != 0 {
		leafExtra += ` units "leaf-units";`
		exp.units = "leaf-units"
	}
	leaf := fmt.Sprintf("%s x { %s%s }", kind, leafType, leafExtra)
	if c.Depth > 0 && prevRestr != "" && fam.restr[c.Depth-1] != "" {
		// a sibling declared after x restricts the same typedef differently (it restates the
		// typedef's own restriction): nothing of it may show up in x's type
		leaf += fmt.Sprintf(" leaf sibling-of-x { type %s { %s } }", ref, fam.restr[c.Depth-1])
	}
	tds := strings.Join(typedefs, " ")
	mods = map[string]string{}
	hdr := `module m { yang-version 1.1; namespace "urn:m"; prefix m; `
	prolog := fam.prolog
	var body string
	wrap := func(leafStmt string) string {
		if c.Uses == 0 {
			paths = []string{"direct/x"}
			return "container direct { " + leafStmt + " }"
		}
		var sb strings.Builder
		sb.WriteString("grouping g { " + leafStmt + " } ")
		for i := 1; i <= c.Uses; i++ {
			fmt.Fprintf(&sb, "container u%d { uses g; } ", i)
			paths = append(paths, fmt.Sprintf("u%d/x", i))
		}
		return sb.String()
	}
	switch c.Scope {
	case "module", "own-prefix":
		body = hdr + "revision 0; " + prolog + " " + tds + " " + wrap(leaf) + " }"
	case "ancestor":
		inner := wrap(leaf)
		var np []string
		for _, p := range paths {
			np = append(np, "anc/"+p)
		}
		paths = np
		body = hdr + "revision 0; " + prolog + " container anc { " + tds + " " + inner + " } }"
	case "grouping":
		// typedefs local to the grouping that holds the leaf
		var sb strings.Builder
		sb.WriteString("grouping g { " + tds + " " + leaf + " } ")
		for i := 1; i <= c.Uses; i++ {
			fmt.Fprintf(&sb, "container u%d { uses g; } ", i)
			paths = append(paths, fmt.Sprintf("u%d/x", i))
		}
		body = hdr + "revision 0; " + prolog + " " + sb.String() + " }"
	case "submodule":
		subProlog := ""
		if c.Family == "union" || c.Family == "identityref" {
			// what the typedefs refer to is defined next to them
			subProlog, prolog = prolog, ""
		}
		mods["sub"] = `submodule sub { belongs-to m { prefix m; } ` + subProlog + " " + tds + ` }`
		body = hdr + "include sub; revision 0; " + prolog + " " + wrap(leaf) + " }"
	case "imported":
		impProlog := ""
		if c.Family == "union" || c.Family == "identityref" {
			impProlog = prolog
			prolog2 := prolog
			_ = prolog2
		}
		if c.Family == "leafref" {
			// an absolute path in an imported typedef is resolved where it is used
			impProlog = ""
		}
		mods["imp"] = `module imp { namespace "urn:imp"; prefix imp; revision 0; ` + impProlog + " " + tds + ` }`
		if c.Family == "union" || c.Family == "identityref" {
			prolog = ""
		}
		body = hdr + "import imp { prefix imp; } revision 0; " + prolog + " " + wrap(leaf) + " }"
	}
	// family specific expectations
	switch c.Family {
	case "enumeration":
		exp.enum = "zero=0,five=5,six=6,two=2,z0=0"
	case "bits":
		exp.bits = "a@0,f@5,g@6,b@2"
	case "union":
		exp.union = "int32,uint8,union"
	case "leafref":
		exp.resolved = "uint16"
	case "identityref":
		exp.ids = "b1{d1,d2,d3,e1,e2,e3,e4,f1,f2,multi} accepts[d1,d2,d3,e1,e2,e3,e4,f1,f2,multi]"
	}
	if c.List {
		exp.format += "-list"
		if exp.resolved != "" {
			exp.resolved = "uint16"
		}
	}
	return body, mods, paths, exp
}

func c02Observe(l meta.Leafable) c02Expect {
	var o c02Expect
	t := l.Type()
	o.format = t.Format().String()
	for _, r := range t.Range() {
		o.ranges = append(o.ranges, normRange(r.String()))
	}
	for _, r := range t.Length() {
		o.lengths = append(o.lengths, normRange(r.String()))
	}
	for _, p := range t.Patterns() {
		o.patterns = append(o.patterns, p.Pattern)
	}
	if t.Format().Single() == val.FmtEnum {
		var es []string
		for _, e := range t.Enum() {
			es = append(es, fmt.Sprintf("%s=%d", e.Label, e.Id))
		}
		o.enum = strings.Join(es, ",")
	}
	if t.Format().Single() == val.FmtBits {
		var bs []string
		for _, b := range t.Bits() {
			bs = append(bs, fmt.Sprintf("%s@%d", b.Ident(), b.Position))
		}
		o.bits = strings.Join(bs, ",")
	}
	if t.Format().Single() == val.FmtUnion {
		var us []string
		for _, u := range t.Union() {
			us = append(us, u.Format().Single().String())
		}
		o.union = strings.Join(us, ",")
	}
	if t.Format().Single() == val.FmtLeafRef {
		if r := t.Resolve(); r != nil {
			o.resolved = r.Format().Single().String()
		}
	}
	if t.Format().Single() == val.FmtIdentityRef {
		var bs []string
		for _, b := range t.Base() {
			var cl []string
			var rec func(i *meta.Identity)
			seen := map[string]bool{}
			rec = func(i *meta.Identity) {
				for _, d := range i.DerivedDirect() {
					if !seen[d.Ident()] {
						seen[d.Ident()] = true
						cl = append(cl, d.Ident())
						rec(d)
					}
				}
			}
			rec(b)
			sort.Strings(cl)
			bs = append(bs, b.Ident()+"{"+strings.Join(cl, ",")+"}")
		}
		o.ids = strings.Join(bs, ";")
		// what a write accepts: every identity of the module is offered to the library's conversion
		if mod := meta.RootModule(l); mod != nil {
			var acc []string
			offer := func(name, prefix string) {
				for _, text := range []string{name, prefix + ":" + name} {
					var v interface{} = text
					if t.Format().IsList() {
						v = []string{text}
					}
					if _, err := node.NewValue(t, v); err == nil {
						acc = append(acc, name)
						return
					}
				}
			}
			for name := range mod.Identities() {
				offer(name, mod.Prefix())
			}
			for prefix, imp := range mod.Imports() {
				if imp.Module() != nil {
					for name := range imp.Module().Identities() {
						offer(name, prefix)
					}
				}
			}
			sort.Strings(acc)
			o.ids += " accepts[" + strings.Join(acc, ",") + "]"
		}
	}
	o.fd = t.FractionDigits()
	o.hasDef = l.HasDefault()
	if o.hasDef {
		o.def = fmt.Sprint(l.DefaultValue())
	}
	o.units = l.Units()
	return o
}

func setEq(a, b []string) bool {
	x := append([]string{}, a...)
	y := append([]string{}, b...)
	sort.Strings(x)
	sort.Strings(y)
	return strings.Join(x, "\x00") == strings.Join(y, "\x00")
}

func c02Compare(want, got c02Expect) (string, string) {
	switch {
	case want.format != got.format:
		return "format", fmt.Sprintf("format %s want %s", got.format, want.format)
	case !setEq(want.ranges, got.ranges):
		return "range-set", fmt.Sprintf("ranges %v want %v", got.ranges, want.ranges)
	case !setEq(want.lengths, got.lengths):
		return "length-set", fmt.Sprintf("lengths %v want %v", got.lengths, want.lengths)
	case !setEq(want.patterns, got.patterns):
		return "pattern-set", fmt.Sprintf("patterns %v want %v", got.patterns, want.patterns)
	case want.enum != got.enum:
		return "enum-numbering", fmt.Sprintf("enums %s want %s", got.enum, want.enum)
	case want.bits != got.bits:
		return "bit-positions", fmt.Sprintf("bits %s want %s", got.bits, want.bits)
	case want.union != got.union:
		return "union-members", fmt.Sprintf("members %s want %s", got.union, want.union)
	case want.resolved != got.resolved:
		return "leafref-target", fmt.Sprintf("resolves to %s want %s", got.resolved, want.resolved)
	case want.ids != got.ids:
		return "identity-closure", fmt.Sprintf("identities %s want %s", got.ids, want.ids)
	case want.fd != got.fd:
		return "fraction-digits", fmt.Sprintf("%d want %d", got.fd, want.fd)
	case want.hasDef != got.hasDef:
		return fmt.Sprintf("has-default-%v-want-%v", got.hasDef, want.hasDef), fmt.Sprintf("default %q", got.def)
	case want.hasDef && want.def != got.def:
		return "wrong-default", fmt.Sprintf("default %q want %q", got.def, want.def)
	case want.units != got.units:
		return "units", fmt.Sprintf("units %q want %q", got.units, want.units)
	}
	return "", ""
}

func (p *c02) Run(raw json.RawMessage) eng.Result {
	var c c02Case
	decode(raw, &c)
	var res eng.Result
	ss := &sigSet{res: &res}
	res.Evals++
	res.Nontriv++
	if c.Family == "builtins" {
		c02Builtins(&res, ss)
		return res
	}
	if c.Family == "special" {
		c02Special(&res, ss)
		return res
	}
	text, mods, paths, want := c02Build(c)
	m, err, fr, msg := c11Load(text, nil, mods)
	useClass := func(i int) string {
		if c.Uses == 0 {
			return "no-grouping"
		}
		if i == 0 {
			return "first-use"
		}
		return "later-use"
	}
	site := fmt.Sprintf("C02/%s/scope:%s/depth-%d", c.Family, c.Scope, c.Depth)
	if c.List {
		site += "/leaf-list"
	}
	switch {
	case fr != "":
		ss.add(site+"/panic:"+fr, msg+" :: "+text)
		return res
	case err != nil:
		ss.add(site+"/load-error", err.Error()+" :: "+text)
		return res
	}
	for i, pth := range paths {
		ok, d := c11ProbePath(m, pth)
		if !ok {
			ss.add(site+"/"+useClass(i)+"/leaf-missing", pth+" :: "+text)
			continue
		}
		got := c02Observe(d.(meta.Leafable))
		if sym, what := c02Compare(want, got); sym != "" {
			who := "typedef-states"
			if c.Default&128 != 0 || c.Units&128 != 0 {
				who = "leaf-states"
			}
			if strings.Contains(sym, "default") || sym == "units" {
				sym = who + "/" + sym
			}
			if sym == "pattern-set" {
				// independent of scope, depth and use
				ss.add("C02/"+c.Family+"/pattern-set", fmt.Sprintf("%s: %s :: %s %v", pth, what, text, mods))
				continue
			}
			ss.add(site+"/"+useClass(i)+"/"+sym, fmt.Sprintf("%s: %s :: %s %v", pth, what, text, mods))
		}
	}
	res.Outcomes = []string{c.Family}
	return res
}

// every built-in type without restrictions, as leaf and leaf-list
func c02Builtins(res *eng.Result, ss *sigSet) {
	types := map[string]string{"binary": "binary", "bits": "bits { bit a; }", "boolean": "boolean", "decimal64": "decimal64 { fraction-digits 1; }", "empty": "empty", "enumeration": "enumeration { enum a; }",
		"identityref": "identityref { base b; }", "instance-identifier": "instance-identifier", "int8": "int8", "int16": "int16", "int32": "int32", "int64": "int64", "leafref": `leafref { path "../tgt"; }`,
		"string": "string", "uint8": "uint8", "uint16": "uint16", "uint32": "uint32", "uint64": "uint64", "union": "union { type int8; type string; }"}
	var names []string
	for n := range types {
		names = append(names, n)
	}
	sort.Strings(names)
	for _, n := range names {
		ty := types[n]
		semi := ";"
		if strings.HasSuffix(ty, "}") {
			semi = ""
		}
		text := fmt.Sprintf(`module m { namespace "urn:m"; prefix m; revision 0; identity b; leaf tgt { type string; } leaf x { type %s%s } leaf-list xs { type %s%s } typedef t { type %s%s } leaf y { type t; } }`, ty, semi, ty, semi, ty, semi)
		m, err, fr, msg := c11Load(text, nil, nil)
		res.Evals++
		res.Nontriv++
		site := "C02/builtin/" + n
		switch {
		case fr != "":
			ss.add(site+"/panic:"+fr, msg)
		case err != nil:
			if n != "empty" { // an empty leaf-list is not legal YANG
				ss.add(site+"/load-error", err.Error())
			}
		default:
			want, _ := val.TypeAsFormat(n)
			for _, lf := range []struct {
				name string
				list bool
			}{{"x", false}, {"xs", true}, {"y", false}} {
				d := m.Definition(lf.name).(meta.Leafable)
				w := want
				if lf.list {
					w = want.List()
				}
				if d.Type().Format() != w {
					ss.add(site+"/format", fmt.Sprintf("%s has format %s want %s", lf.name, d.Type().Format(), w))
				}
			}
		}
	}
}

// special shapes: leafref variants, identity bases, typedef default that is itself restricted later
func c02Special(res *eng.Result, ss *sigSet) {
	type tc struct {
		name, text string
		mods       map[string]string
		path       string
		check      func(l meta.Leafable) string
	}
	hdr := `module m { yang-version 1.1; namespace "urn:m"; prefix m; revision 0; `
	cases := []tc{
		{"leafref/relative", hdr + `container c { leaf a { type uint8; } leaf r { type leafref { path "../a"; } } } }`, nil, "c/r", func(l meta.Leafable) string {
			return l.Type().Resolve().Format().String()
		}},
		{"leafref/absolute", hdr + `container c { leaf a { type uint8; } } leaf r { type leafref { path "/c/a"; } } }`, nil, "r", func(l meta.Leafable) string { return l.Type().Resolve().Format().String() }},
		{"leafref/through-list", hdr + `list l { key k; leaf k { type string; } leaf v { type int64; } } leaf r { type leafref { path "/l/v"; } } }`, nil, "r", func(l meta.Leafable) string { return l.Type().Resolve().Format().String() }},
		{"leafref/to-leafref", hdr + `leaf a { type uint8; } leaf r1 { type leafref { path "/a"; } } leaf r2 { type leafref { path "/r1"; } } }`, nil, "r2", func(l meta.Leafable) string {
			t := l.Type().Resolve()
			for i := 0; i < 4 && t.Format().Single() == val.FmtLeafRef; i++ {
				t = t.Resolve()
			}
			return t.Format().String()
		}},
		{"leafref/in-grouping-used-twice", hdr + `grouping g { leaf a { type uint8; } leaf r { type leafref { path "../a"; } } } container u1 { uses g; } container u2 { uses g; } }`, nil, "u2/r", func(l meta.Leafable) string {
			return l.Type().Resolve().Format().String()
		}},
		{"identityref/two-bases", hdr + `identity b1; identity b2; identity d { base b1; base b2; } identity e { base b1; } leaf r { type identityref { base b1; base b2; } } }`, nil, "r", func(l meta.Leafable) string {
			var bs []string
			for _, b := range l.Type().Base() {
				bs = append(bs, b.Ident())
			}
			sort.Strings(bs)
			return strings.Join(bs, ",")
		}},
		{"identityref/cross-module-base", hdr[:len(hdr)-len("revision 0; ")] + `import imp { prefix i; } revision 0; identity local { base i:rb; } leaf r { type identityref { base i:rb; } } }`, map[string]string{"imp": `module imp { namespace "urn:imp"; prefix imp; revision 0; identity rb; identity rd { base rb; } }`}, "r", func(l meta.Leafable) string {
			if len(l.Type().Base()) != 1 {
				return fmt.Sprint(len(l.Type().Base()), " bases")
			}
			var cl []string
			for _, d := range l.Type().Base()[0].DerivedDirect() {
				cl = append(cl, d.Ident())
			}
			sort.Strings(cl)
			return l.Type().Base()[0].Ident() + ":" + strings.Join(cl, ",")
		}},
		{"typedef-default/explicit-leaf-wins", hdr + `typedef t { type string; default "td"; units "tu"; } leaf x { type t; default "ld"; units "lu"; } }`, nil, "x", func(l meta.Leafable) string {
			return fmt.Sprint(l.DefaultValue(), "/", l.Units())
		}},
		{"typedef-default/union-member-default-not-inherited", hdr + `typedef t { type int32; default "5"; } leaf x { type union { type t; type string; } } }`, nil, "x", func(l meta.Leafable) string {
			return fmt.Sprint(l.HasDefault())
		}},
		{"typedef/shadowing-inner-scope-wins", hdr + `typedef t { type string; } container c { typedef t { type int32; } leaf x { type t; } } }`, nil, "c/x", func(l meta.Leafable) string {
			return l.Type().Format().String()
		}},
	}
	enumSet := func(t *meta.Type) string {
		var es []string
		for _, e := range t.Enum() {
			es = append(es, fmt.Sprintf("%s=%d", e.Label, e.Id))
		}
		sort.Strings(es)
		return strings.Join(es, ",")
	}
	bitSet := func(t *meta.Type) string {
		var bs []string
		for _, b := range t.Bits() {
			bs = append(bs, fmt.Sprintf("%s@%d", b.Ident(), b.Position))
		}
		sort.Strings(bs)
		return strings.Join(bs, ",")
	}
	const enumTd = `typedef e { type enumeration { enum zero; enum five { value 5; } enum six; enum two { value 2; } } } `
	const bitsTd = `typedef bt { type bits { bit a; bit f { position 5; } bit g; bit b { position 2; } } } `
	cases = append(cases,
		// RFC 7950 9.6.4.2 / 9.7.4.2: a derived type may restrict the set; names keep the value / position of the base type
		tc{"enum-restricted/leaf", hdr + enumTd + `leaf x { type e { enum six; enum two; } } leaf y { type e; } }`, nil, "x", func(l meta.Leafable) string { return enumSet(l.Type()) }},
		tc{"enum-restricted/sibling-keeps-all", hdr + enumTd + `leaf x { type e { enum six; enum two; } } leaf y { type e; } }`, nil, "y", func(l meta.Leafable) string { return enumSet(l.Type()) }},
		tc{"enum-restricted/two-levels", hdr + enumTd + `typedef e2 { type e { enum five; enum six; enum two; } } leaf x { type e2 { enum two; enum five; } } }`, nil, "x", func(l meta.Leafable) string { return enumSet(l.Type()) }},
		tc{"enum-restricted/leaf-list", hdr + enumTd + `leaf-list x { type e { enum six; } } }`, nil, "x", func(l meta.Leafable) string { return enumSet(l.Type()) }},
		tc{"bits-restricted/leaf", hdr + bitsTd + `leaf x { type bt { bit g; bit b; } } leaf y { type bt; } }`, nil, "x", func(l meta.Leafable) string { return bitSet(l.Type()) }},
		tc{"bits-restricted/sibling-keeps-all", hdr + bitsTd + `leaf x { type bt { bit g; bit b; } } leaf y { type bt; } }`, nil, "y", func(l meta.Leafable) string { return bitSet(l.Type()) }},
		tc{"bits-restricted/two-levels", hdr + bitsTd + `typedef bt2 { type bt { bit f; bit g; bit b; } } leaf x { type bt2 { bit g; } } }`, nil, "x", func(l meta.Leafable) string { return bitSet(l.Type()) }},
	)
	typeAndDefault := func(l meta.Leafable) string {
		return fmt.Sprint(l.Type().Format(), "/", l.HasDefault(), "/", l.DefaultValue(), "/", l.Units())
	}
	const twoScopes = `container north { typedef t { type int32; default "5"; units "n"; } leaf x { type t; } } container south { typedef t { type string; default "low"; units "s"; } leaf x { type t; } } `
	const twoGroupings = `grouping g1 { typedef t { type uint8; default "1"; } leaf x { type t; } } grouping g2 { typedef t { type boolean; default "true"; } leaf x { type t; } } container a { uses g1; } container b { uses g2; } `
	const inOut = `rpc r { input { typedef t { type int64; } leaf x { type t; } } output { typedef t { type string; } leaf x { type t; } } } notification n1 { typedef t { type boolean; } leaf x { type t; } } notification n2 { typedef t { type uint16; } leaf x { type t; } } `
	cases = append(cases,
		// RFC 7950 5.5: the same typedef name in scopes that do not contain each other
		tc{"typedef/same-name-in-sibling-scopes/first", hdr + twoScopes + `}`, nil, "north/x", typeAndDefault},
		tc{"typedef/same-name-in-sibling-scopes/second", hdr + twoScopes + `}`, nil, "south/x", typeAndDefault},
		tc{"typedef/same-name-in-two-groupings/first", hdr + twoGroupings + `}`, nil, "a/x", typeAndDefault},
		tc{"typedef/same-name-in-two-groupings/second", hdr + twoGroupings + `}`, nil, "b/x", typeAndDefault},
		tc{"typedef/same-name-in-input-and-output/input", hdr + inOut + `}`, nil, "r/input/x", typeAndDefault},
		tc{"typedef/same-name-in-input-and-output/output", hdr + inOut + `}`, nil, "r/output/x", typeAndDefault},
		tc{"typedef/same-name-in-two-notifications/second", hdr + inOut + `}`, nil, "n2/x", typeAndDefault},
		// names that mean something to the library but are not types of YANG are free for typedefs
		tc{"typedef/named-any/module-scope", hdr + `typedef any { type int32 { range "1..5"; } default "2"; units "au"; } leaf x { type any; } }`, nil, "x", typeAndDefault},
		tc{"typedef/named-any/inner-scope", hdr + `container c { typedef any { type string; default "s"; units "cu"; } leaf x { type any; } } }`, nil, "c/x", typeAndDefault},
		tc{"typedef/named-any/in-grouping-used-twice", hdr + `grouping g { typedef any { type uint8; default "7"; units "gu"; } leaf x { type any; } } container a { uses g; } container b { uses g; } }`, nil, "b/x", typeAndDefault},
		// the leaf a relative leafref leads to depends on where the grouping is used
		tc{"leafref/in-grouping-other-target-per-use/first", hdr + `grouping g { leaf r { type leafref { path "../a"; } } } container u1 { leaf a { type uint8; } uses g; } container u2 { leaf a { type string; } uses g; } }`, nil, "u1/r", func(l meta.Leafable) string { return l.Type().Resolve().Format().String() }},
		tc{"leafref/in-grouping-other-target-per-use/second", hdr + `grouping g { leaf r { type leafref { path "../a"; } } } container u1 { leaf a { type uint8; } uses g; } container u2 { leaf a { type string; } uses g; } }`, nil, "u2/r", func(l meta.Leafable) string { return l.Type().Resolve().Format().String() }},
		// choice and case are not data nodes: ".." from a leaf in a case is the node holding the choice
		tc{"leafref/from-a-case", hdr + `container c { leaf name { type uint16; } choice ch { case x { leaf r { type leafref { path "../name"; } } } } } }`, nil, "c/r", func(l meta.Leafable) string { return l.Type().Resolve().Format().String() }},
		tc{"leafref/from-a-case-of-a-nested-choice", hdr + `container c { leaf name { type uint16; } choice o { case a { choice i { case b { leaf r { type leafref { path "../name"; } } } } } } } }`, nil, "c/r", func(l meta.Leafable) string { return l.Type().Resolve().Format().String() }},
		tc{"leafref/two-steps-up-from-a-nested-case", hdr + `leaf top { type int64; } container c { choice o { case a { choice i { case b { choice j { leaf r { type leafref { path "../../top"; } } } } } } } } }`, nil, "c/r", func(l meta.Leafable) string { return l.Type().Resolve().Format().String() }},
		tc{"leafref/relative-path-in-typedef", hdr + `typedef rt { type leafref { path "../a"; } } container c { leaf a { type int8; } leaf r { type rt; } } }`, nil, "c/r", func(l meta.Leafable) string { return l.Type().Resolve().Format().String() }},
		tc{"leafref/with-key-predicate", hdr + `list l { key name; leaf name { type string; } leaf v { type uint32; } } leaf sel { type string; } leaf r { type leafref { path "/l[name=current()/../sel]/v"; } } }`, nil, "r", func(l meta.Leafable) string { return l.Type().Resolve().Format().String() }},
	)
	want := map[string]string{"typedef/named-any/module-scope": "int32/true/2/au", "typedef/named-any/inner-scope": "string/true/s/cu", "typedef/named-any/in-grouping-used-twice": "uint8/true/7/gu", "typedef/same-name-in-sibling-scopes/first": "int32/true/5/n", "typedef/same-name-in-sibling-scopes/second": "string/true/low/s",
		"typedef/same-name-in-two-groupings/first": "uint8/true/1/", "typedef/same-name-in-two-groupings/second": "boolean/true/true/",
		"typedef/same-name-in-input-and-output/input": "int64/false//", "typedef/same-name-in-input-and-output/output": "string/false//", "typedef/same-name-in-two-notifications/second": "uint16/false//",
		"leafref/in-grouping-other-target-per-use/first": "uint8", "leafref/in-grouping-other-target-per-use/second": "string", "leafref/from-a-case": "uint16", "leafref/from-a-case-of-a-nested-choice": "uint16", "leafref/two-steps-up-from-a-nested-case": "int64", "leafref/relative-path-in-typedef": "int8", "leafref/with-key-predicate": "uint32",
		"enum-restricted/leaf": "six=6,two=2", "enum-restricted/sibling-keeps-all": "five=5,six=6,two=2,zero=0", "enum-restricted/two-levels": "five=5,two=2", "enum-restricted/leaf-list": "six=6",
		"bits-restricted/leaf": "b@2,g@6", "bits-restricted/sibling-keeps-all": "a@0,b@2,f@5,g@6", "bits-restricted/two-levels": "g@6",
		"leafref/relative": "uint8", "leafref/absolute": "uint8", "leafref/through-list": "int64", "leafref/to-leafref": "uint8", "leafref/in-grouping-used-twice": "uint8",
		"identityref/two-bases": "b1,b2", "identityref/cross-module-base": "rb:local,rd", "typedef-default/explicit-leaf-wins": "ld/lu", "typedef-default/union-member-default-not-inherited": "false", "typedef/shadowing-inner-scope-wins": "int32"}
	for _, t := range cases {
		m, err, fr, msg := c11Load(t.text, nil, t.mods)
		res.Evals++
		res.Nontriv++
		site := "C02/special/" + t.name
		switch {
		case fr != "":
			ss.add(site+"/panic:"+fr, msg)
		case err != nil:
			ss.add(site+"/load-error", err.Error())
		default:
			ok, d := c11ProbePath(m, t.path)
			if !ok {
				ss.add(site+"/leaf-missing", t.path)
				continue
			}
			var got string
			fr, msg, pan := eng.Recover(func() { got = t.check(d.(meta.Leafable)) })
			if pan {
				ss.add(site+"/accessor-panic:"+fr, msg)
			} else if got != want[t.name] {
				ss.add(site+"/wrong", fmt.Sprintf("observed %q want %q", got, want[t.name]))
			}
		}
	}
}
