package props

import (
	"encoding/base64"
	"encoding/json"
	"fmt"
	"math"
	"math/big"
	"regexp"
	"strings"
	"unicode/utf8"

	"github.com/freeconf/yang/meta"
	"github.com/freeconf/yang/node"
	"github.com/freeconf/yang/nodeutil"
	"github.com/freeconf/yang/parser"
	"github.com/freeconf/yang/val"
	"verif/internal/eng"
	"verif/internal/model"
	"verif/internal/store"
)

// C05 — no write stores a value outside the leaf's effective type.

type c05 struct{ base }

func init() {
	eng.Register(&c05{base{id: "C05", level: "exploration",
		rule: "restriction chains (range / length / pattern / enum / bits / identityref / union; stated directly and through typedef chains of depth 1-2 that narrow the base; min/max keywords, open ends, alternatives, negative, 64-bit and unsigned bounds, decimal64) x every candidate value (every bound of every level and its two neighbours, type extremes, multi-byte strings, unknown names) x 7 write paths (Set, SetValue, Upsert/Insert/Update from JSON, Upsert from XML, Upsert from a node) for leaf and leaf-list (bad element in each position). Each write runs on the real code; the reference computes membership in the effective type with big numbers / anchored regular expressions / character counts. A rejected write must return an error and leave the store unchanged; an accepted one must store the value. Non-trivial = distinct (chain, candidate, path) cell"}})
}

type c05Level struct {
	Restriction string `json:"r"` // text inside the type statement, e.g. `range "0..10";`
}

type c05Case struct {
	Kind   string   `json:"kind"` // range | length | pattern | enum | bits | identityref | union
	Base   string   `json:"base"` // built-in type
	Levels []string `json:"levels"`
	// Ref: the leaves written to are leafrefs to a leaf of the restricted type (RFC 7950 9.9: the
	// value space of a leafref is that of the leaf it refers to)
	Ref bool `json:"ref,omitempty"`
}

func (p *c05) Bounds(tier string) map[string]interface{} {
	return map[string]interface{}{"integer_types": 8, "chain_depth": "0..2", "paths": c05Paths, "quick=thorough": true}
}

var c05Paths = []string{"Set", "SetValue", "UpsertFrom(json)", "InsertFrom(json)", "UpdateFrom(json)", "UpsertFrom(xml)", "UpsertFrom(node)"}

type intType struct {
	name   string
	bits   int
	signed bool
}

var c05Ints = []intType{{"int8", 8, true}, {"int16", 16, true}, {"int32", 32, true}, {"int64", 64, true}, {"uint8", 8, false}, {"uint16", 16, false}, {"uint32", 32, false}, {"uint64", 64, false}}

func (p *c05) Cases(tier string, emit func(interface{})) {
	for _, it := range c05Ints {
		lo, hi := kindRange(it.bits, it.signed)
		hi1 := new(big.Int).Sub(hi, big.NewInt(1)).String()
		single := []string{"5", "0..10", "min..10", "10..max", "min..max", "1..3|7..9", "1|3|5", " 1 .. 3 | 7 .. 9 ", hi1 + "..max", "min..5|" + hi.String(),
			"1..5|max", "min|4..8", "min|max", "max", "min", "min|5|max"} // a bare keyword is an alternative of its own
		if it.signed {
			single = append(single, "-5..5", "min..-1|1..max", lo.String()+"..-100")
		}
		for _, r := range single {
			emit(c05Case{Kind: "range", Base: it.name, Levels: []string{r}})
		}
		chains := [][]string{{"0..100", "0..10"}, {"min..100", "5..50"}, {"0..10|20..30", "5..10|20..25"}, {"0..100", ""}, {"0..100", "10..50", "20..30"}, {"0..100", "", "20..30"}, {"10..max", "min..20"}, {"0..100", "10..90", "20..80", "30..70"}, {"0..100", "10..90", "20..80", "30..70", "40..60"}, {"0..100", "min|50|max"}, {"5..50|60", "max"}}
		for _, ch := range chains {
			emit(c05Case{Kind: "range", Base: it.name, Levels: ch})
		}
	}
	for _, r := range []string{"1.5..2.5", "min..0", "-1.5..1.5|3..max", "0.01", "1..2|2.01..3", "0..1|max", "min|0..1"} {
		emit(c05Case{Kind: "range", Base: "decimal64", Levels: []string{r}})
	}
	emit(c05Case{Kind: "range", Base: "decimal64", Levels: []string{"0..10", "2.5..5"}})
	for _, l := range [][]string{{"2"}, {"1..3"}, {"0..2|5"}, {"min..2"}, {"2..max"}, {"min|4..8"}, {"1..2|max"}, {"min"}, {"0..6", "min|3|max"}, {"0..4", "1..2"}, {"1..5", "", "2..3"}, {"0..6", "1..5", "2..4", "3"}} {
		emit(c05Case{Kind: "length", Base: "string", Levels: l})
	}
	for _, pt := range [][]string{{"[0-9]+"}, {"a*"}, {"[a-c]{2}"}, {"[a-z]+&.*b.*"}, {"![0-9]+"}, {"[a-z]+", "a.*"}, {"[a-z]+", "", ".*z"}, {"a|b"}} {
		emit(c05Case{Kind: "pattern", Base: "string", Levels: pt})
	}
	// the same restrictions reached through a leafref
	for _, rc := range []c05Case{
		{Kind: "range", Base: "int32", Levels: []string{"1..10"}}, {Kind: "range", Base: "int32", Levels: []string{"0..100", "10..50"}}, {Kind: "range", Base: "uint8", Levels: []string{"1..3|7..9"}},
		{Kind: "range", Base: "int64", Levels: []string{"min..5|9223372036854775807"}}, {Kind: "range", Base: "decimal64", Levels: []string{"1.5..2.5"}},
		{Kind: "length", Base: "string", Levels: []string{"1..3"}}, {Kind: "length", Base: "string", Levels: []string{"0..4", "1..2"}}, {Kind: "pattern", Base: "string", Levels: []string{"[a-c]{2}"}},
	} {
		rc.Ref = true
		emit(rc)
	}
	emit(c05Case{Kind: "enum", Base: "enumeration"})
	emit(c05Case{Kind: "bits", Base: "bits"})
	emit(c05Case{Kind: "identityref", Base: "identityref"})
	emit(c05Case{Kind: "identityref2", Base: "identityref"})
	emit(c05Case{Kind: "binary-length", Base: "binary"})
	emit(c05Case{Kind: "union", Base: "union"})
	emit(c05Case{Kind: "union2", Base: "union"})
}

// ---------------------------------------------------------------- reference

type altRange struct{ lo, hi *big.Rat }

// parseRange reads "a..b | c" with min/max relative to the enclosing bounds.
func parseRange(text string, lo, hi *big.Rat) []altRange {
	var out []altRange
	num := func(s string) *big.Rat {
		s = strings.TrimSpace(s)
		switch s {
		case "min":
			return lo
		case "max":
			return hi
		}
		r, ok := new(big.Rat).SetString(s)
		if !ok {
			panic("harness: bad bound " + s)
		}
		return r
	}
	for _, alt := range strings.Split(text, "|") {
		if i := strings.Index(alt, ".."); i >= 0 {
			out = append(out, altRange{num(alt[:i]), num(alt[i+2:])})
		} else {
			n := num(alt)
			out = append(out, altRange{n, n})
		}
	}
	return out
}

func inAlts(v *big.Rat, alts []altRange) bool {
	for _, a := range alts {
		if v.Cmp(a.lo) >= 0 && v.Cmp(a.hi) <= 0 {
			return true
		}
	}
	return false
}

// ---------------------------------------------------------------- module generation

func c05Module(c c05Case) (text string) {
	var sb strings.Builder
	sb.WriteString("module r { namespace \"urn:r\"; prefix r; revision 0;\n")
	restr := func(level string) string {
		if level == "" {
			return ""
		}
		switch c.Kind {
		case "range":
			return fmt.Sprintf(`range "%s";`, level)
		case "length":
			return fmt.Sprintf(`length "%s";`, level)
		case "pattern":
			var parts []string
			for _, p := range strings.Split(level, "&") {
				if strings.HasPrefix(p, "!") {
					parts = append(parts, fmt.Sprintf(`pattern "%s" { modifier invert-match; }`, p[1:]))
				} else {
					parts = append(parts, fmt.Sprintf(`pattern "%s";`, p))
				}
			}
			return strings.Join(parts, " ")
		}
		return ""
	}
	base := c.Base
	if base == "decimal64" {
		sb.WriteString("  typedef d2 { type decimal64 { fraction-digits 2; } }\n")
		base = "d2"
	}
	switch c.Kind {
	case "range", "length", "pattern":
		prev := base
		for i, lv := range c.Levels[:len(c.Levels)-1] {
			name := fmt.Sprintf("t%d", i)
			r := restr(lv)
			if r == "" {
				fmt.Fprintf(&sb, "  typedef %s { type %s; }\n", name, prev)
			} else {
				fmt.Fprintf(&sb, "  typedef %s { type %s { %s } }\n", name, prev, r)
			}
			prev = name
		}
		if c.Kind == "pattern" {
			// the same pattern texts stated elsewhere in the module with the opposite modifier: what
			// another leaf (declared before x) says about a pattern is nothing to x
			n := 0
			for _, lv := range c.Levels {
				for _, p := range strings.Split(lv, "&") {
					if p == "" {
						continue
					}
					n++
					if strings.HasPrefix(p, "!") {
						fmt.Fprintf(&sb, "  leaf opposite%d { type string { pattern \"%s\"; } }\n", n, p[1:])
					} else {
						fmt.Fprintf(&sb, "  leaf opposite%d { type string { pattern \"%s\" { modifier invert-match; error-message \"other\"; } } }\n", n, p)
					}
				}
			}
		}
		last := restr(c.Levels[len(c.Levels)-1])
		ty := fmt.Sprintf("type %s;", prev)
		if last != "" {
			ty = fmt.Sprintf("type %s { %s }", prev, last)
		}
		if c.Ref {
			fmt.Fprintf(&sb, "  leaf tgt { %s }\n", ty)
			sb.WriteString("  leaf x { type leafref { path \"../tgt\"; } }\n  leaf-list xs { type leafref { path \"../tgt\"; } }\n")
			sb.WriteString("  list kl { key k; leaf k { type leafref { path \"../../tgt\"; } } leaf v { type string; } }\n")
			last = ""
		} else {
			fmt.Fprintf(&sb, "  leaf x { %s }\n  leaf-list xs { %s }\n", ty, ty)
			// the restricted type as the key of a list: creating an entry must check the key first
			fmt.Fprintf(&sb, "  list kl { key k; leaf k { %s } leaf v { type string; } }\n", ty)
		}
		// a sibling declared later narrows the same typedef differently (it restates the nearest
		// range/length of the chain, which is wider than x's): restrictions of one leaf must not
		// leak into another leaf derived from the same typedef.
		if c.Kind != "pattern" && last != "" {
			for i := len(c.Levels) - 2; i >= 0; i-- {
				if c.Levels[i] != "" {
					fmt.Fprintf(&sb, "  leaf sib { type %s { %s } }\n", prev, restr(c.Levels[i]))
					break
				}
			}
		}
	case "enum":
		sb.WriteString("  typedef e0 { type enumeration { enum zero; enum one; enum five { value 5; } } }\n  leaf x { type e0; }\n  leaf-list xs { type e0; }\n")
	case "bits":
		sb.WriteString("  leaf x { type bits { bit a; bit b; bit c { position 5; } } }\n  leaf-list xs { type string; }\n")
	case "identityref":
		sb.WriteString("  identity base-id; identity other; identity id-a { base base-id; } identity id-b { base id-a; }\n  leaf x { type identityref { base base-id; } }\n  leaf-list xs { type identityref { base base-id; } }\n")
	case "binary-length":
		sb.WriteString("  leaf x { type binary { length \"2..4\"; } }\n  leaf-list xs { type binary { length \"2..4\"; } }\n")
	case "identityref2":
		sb.WriteString("  identity b1; identity b2; identity unrelated; identity only1 { base b1; } identity only2 { base b2; } identity deep1 { base only1; } identity both { base b1; base b2; } identity both2 { base both; }\n  leaf x { type identityref { base b1; base b2; } }\n  leaf-list xs { type identityref { base b1; base b2; } }\n")
	case "union":
		sb.WriteString("  leaf x { type union { type int32 { range \"0..10\"; } type string { length \"2\"; } } }\n  leaf-list xs { type string; }\n")
	case "union2":
		// members that hold declared names
		sb.WriteString("  identity base-id; identity other; identity id-a { base base-id; }\n  leaf x { type union { type enumeration { enum a; enum b; } type bits { bit p; bit q; } type identityref { base base-id; } type int8; } }\n  leaf-list xs { type string; }\n")
	}
	sb.WriteString("  leaf other { type string; }\n}")
	return sb.String()
}

// ---------------------------------------------------------------- candidates

type c05Cand struct {
	raw    interface{} // value for SetValue / ref source
	json   string      // JSON rendering of the scalar
	xml    string      // XML text
	typed  val.Value   // for Set (nil if not constructible)
	accept bool
	class  string
	canon  string // canonical stored form when accepted ("" = do not check)
	json2  bool   // no XML form
}

func intVal(t string, b *big.Int) val.Value { return mkInt(t, b) }

func c05RangeCands(c c05Case) []c05Cand {
	var out []c05Cand
	if c.Base == "decimal64" {
		lo, _ := new(big.Rat).SetString("-92233720368547758.08")
		hi, _ := new(big.Rat).SetString("92233720368547758.07")
		levels := [][]altRange{}
		curLo, curHi := lo, hi
		for _, lv := range c.Levels {
			if lv == "" {
				continue
			}
			alts := parseRange(lv, curLo, curHi)
			levels = append(levels, alts)
			curLo, curHi = alts[0].lo, alts[len(alts)-1].hi
		}
		step := big.NewRat(1, 100)
		seen := map[string]bool{}
		add := func(v *big.Rat, class string) {
			if v.Cmp(lo) < 0 || v.Cmp(hi) > 0 {
				return
			}
			f, _ := v.Float64()
			key := fmt.Sprint(f)
			if seen[key] {
				return
			}
			seen[key] = true
			ok := true
			for _, alts := range levels {
				if !inAlts(v, alts) {
					ok = false
				}
			}
			s := v.FloatString(2)
			out = append(out, c05Cand{raw: f, json: s, xml: s, typed: val.Decimal64(f), accept: ok, class: class, canon: model.CanonVal(val.Decimal64(f))})
		}
		for _, alts := range levels {
			for _, a := range alts {
				for _, b := range []*big.Rat{a.lo, a.hi} {
					if b == lo || b == hi {
						continue // float64 cannot tell the type extremes from their neighbours
					}
					add(new(big.Rat).Sub(b, step), "below-bound")
					add(b, "on-bound")
					add(new(big.Rat).Add(b, step), "above-bound")
				}
			}
		}
		add(big.NewRat(0, 1), "zero")
		add(big.NewRat(-1000, 1), "far")
		add(big.NewRat(1000, 1), "far")
		// numbers with more fraction digits than the type has are not values of the type (RFC 7950 9.3.4)
		for _, alts := range levels {
			mid := new(big.Rat).Add(alts[0].lo, big.NewRat(1, 1000))
			if f, _ := mid.Float64(); inAlts(mid, alts) && !seen[fmt.Sprint(f)] && math.Abs(f) < 1e12 {
				seen[fmt.Sprint(f)] = true
				txt := mid.FloatString(3)
				out = append(out, c05Cand{raw: f, json: txt, xml: txt, typed: val.Decimal64(f), accept: false, class: "more-fraction-digits-than-the-type"})
			}
		}
		return out
	}
	var it intType
	for _, x := range c05Ints {
		if x.name == c.Base {
			it = x
		}
	}
	loI, hiI := kindRange(it.bits, it.signed)
	lo, hi := new(big.Rat).SetInt(loI), new(big.Rat).SetInt(hiI)
	levels := [][]altRange{}
	curLo, curHi := lo, hi
	for _, lv := range c.Levels {
		if lv == "" {
			continue
		}
		alts := parseRange(lv, curLo, curHi)
		levels = append(levels, alts)
		curLo, curHi = alts[0].lo, alts[len(alts)-1].hi
	}
	seen := map[string]bool{}
	add := func(v *big.Int, class string) {
		if v.Cmp(loI) < 0 || v.Cmp(hiI) > 0 || seen[v.String()] {
			return
		}
		seen[v.String()] = true
		r := new(big.Rat).SetInt(v)
		ok := true
		for _, alts := range levels {
			if !inAlts(r, alts) {
				ok = false
			}
		}
		tv := intVal(c.Base, v)
		js := v.String()
		if it.bits == 64 {
			js = `"` + v.String() + `"`
		}
		out = append(out, c05Cand{raw: tv.Value(), json: js, xml: v.String(), typed: tv, accept: ok, class: class, canon: v.String()})
	}
	one := big.NewInt(1)
	for li, alts := range levels {
		for _, a := range alts {
			for _, b := range []*big.Rat{a.lo, a.hi} {
				n := new(big.Int).Set(b.Num())
				cls := "level-" + fmt.Sprint(li)
				add(new(big.Int).Sub(n, one), cls+"/below-bound")
				add(n, cls+"/on-bound")
				add(new(big.Int).Add(n, one), cls+"/above-bound")
			}
		}
	}
	add(loI, "type-min")
	add(hiI, "type-max")
	add(big.NewInt(0), "zero")
	return out
}

func c05LengthCands(c c05Case) []c05Cand {
	lo, hi := big.NewRat(0, 1), new(big.Rat).SetInt64(1<<62)
	levels := [][]altRange{}
	curLo, curHi := lo, hi
	for _, lv := range c.Levels {
		if lv == "" {
			continue
		}
		alts := parseRange(lv, curLo, curHi)
		levels = append(levels, alts)
		curLo, curHi = alts[0].lo, alts[len(alts)-1].hi
	}
	var out []c05Cand
	for _, s := range []string{"", "a", "ab", "abc", "abcd", "abcde", "abcdef", "é", "éé", "中", "中中", "\U0001F600", "a\U0001F600"} {
		n := big.NewRat(int64(utf8.RuneCountInString(s)), 1)
		ok := true
		for _, alts := range levels {
			if !inAlts(n, alts) {
				ok = false
			}
		}
		class := "ascii"
		if len(s) != utf8.RuneCountInString(s) {
			class = "multi-byte"
		}
		js, _ := json.Marshal(s)
		out = append(out, c05Cand{raw: s, json: string(js), xml: s, typed: val.String(s), accept: ok, class: class, canon: model.CanonVal(val.String(s))})
	}
	return out
}

func c05PatternCands(c c05Case) []c05Cand {
	var res []*regexp.Regexp
	var inv []bool
	for _, lv := range c.Levels {
		if lv == "" {
			continue
		}
		for _, p := range strings.Split(lv, "&") {
			i := strings.HasPrefix(p, "!")
			p = strings.TrimPrefix(p, "!")
			res = append(res, regexp.MustCompile("^(?:"+p+")$")) // XSD patterns are implicitly anchored
			inv = append(inv, i)
		}
	}
	var out []c05Cand
	for _, s := range []string{"", "a", "b", "ab", "aa", "abc", "1", "123", "abc1def", "1a", "a1", "zz", "az", "za", "bz", "A", "c", "cc", "ca", "a|b"} {
		ok := true
		for i, re := range res {
			if re.MatchString(s) == inv[i] {
				ok = false
			}
		}
		class := "matches-every-pattern"
		if !ok {
			class = "fails-every-pattern"
			sub := false
			for i, re := range res {
				if re.MatchString(s) != inv[i] {
					class = "fails-some-pattern"
				}
				un := regexp.MustCompile(strings.TrimSuffix(strings.TrimPrefix(re.String(), "^(?:"), ")$"))
				if !inv[i] && !re.MatchString(s) && un.MatchString(s) {
					sub = true
				}
			}
			if sub && class == "fails-every-pattern" {
				class = "substring-match-only"
			}
		}
		js, _ := json.Marshal(s)
		out = append(out, c05Cand{raw: s, json: string(js), xml: s, typed: val.String(s), accept: ok, class: class, canon: model.CanonVal(val.String(s))})
	}
	return out
}

func c05OtherCands(c c05Case, m *meta.Module) []c05Cand {
	var out []c05Cand
	q := func(s string) string { b, _ := json.Marshal(s); return string(b) }
	switch c.Kind {
	case "enum":
		en := m.Definition("x").(meta.Leafable).Type().Enum()
		for _, e := range en {
			out = append(out, c05Cand{raw: e.Label, json: q(e.Label), xml: e.Label, typed: e, accept: true, class: "declared-name", canon: "enum:" + e.Label})
			out = append(out, c05Cand{raw: e.Id, json: fmt.Sprint(e.Id), xml: fmt.Sprint(e.Id), accept: true, class: "declared-value", canon: "enum:" + e.Label})
		}
		for _, bad := range []string{"two", "ZERO", "", "zero "} {
			x := bad
			if strings.TrimSpace(bad) != bad || bad == "" {
				x = "" // white space around a token is insignificant in XML: not a wrong name there
			}
			cd := c05Cand{raw: bad, json: q(bad), xml: x, accept: false, class: "unknown-name"}
			if x == "" {
				cd.json2 = true
			}
			out = append(out, cd)
		}
		for _, bad := range []int{2, 4, 6, -1, 99} {
			out = append(out, c05Cand{raw: bad, json: fmt.Sprint(bad), xml: fmt.Sprint(bad), accept: false, class: "unknown-value"})
		}
		out = append(out, c05Cand{raw: val.Enum{Id: 9, Label: "nine"}, typed: val.Enum{Id: 9, Label: "nine"}, accept: false, class: "undeclared-typed-enum"})
	case "bits":
		for _, good := range []string{"a", "a b", "c", "a b c", "b a"} {
			out = append(out, c05Cand{raw: good, json: q(good), xml: good, accept: true, class: "declared-names"})
		}
		for _, bad := range []string{"z", "a z", "z a", "A", "a,b"} {
			out = append(out, c05Cand{raw: bad, json: q(bad), xml: bad, accept: false, class: "unknown-name"})
		}
		// typed values handed to Set: names that are not declared, names and positions that disagree
		out = append(out, c05Cand{raw: val.Bits{Labels: []string{"zz"}, Positions: 1 << 9}, typed: val.Bits{Labels: []string{"zz"}, Positions: 1 << 9}, accept: false, class: "undeclared-typed-bits"})
		out = append(out, c05Cand{raw: val.Bits{Labels: []string{"a"}, Positions: 1 << 7}, typed: val.Bits{Labels: []string{"a"}, Positions: 1 << 7}, accept: false, class: "typed-bits-names-disagree-with-positions"})
		out = append(out, c05Cand{raw: "a c", json: q("a c"), xml: "a c", typed: val.Bits{Labels: []string{"a", "c"}, Positions: 1 | 1<<5}, accept: true, class: "declared-typed-bits"})
	case "binary-length":
		// length of a binary is the number of octets (RFC 7950 9.8.1), not of base64 characters
		for n := 0; n <= 6; n++ {
			raw := make([]byte, n)
			for i := range raw {
				raw[i] = byte(250 + i)
			}
			text := base64.StdEncoding.EncodeToString(raw)
			out = append(out, c05Cand{raw: text, json: q(text), xml: text, accept: n >= 2 && n <= 4, class: fmt.Sprintf("%d-octets", n)})
		}
	case "identityref2":
		// two bases: only what is derived from both (RFC 7950 9.10.2)
		for _, good := range []string{"both", "both2"} {
			out = append(out, c05Cand{raw: good, json: q(good), xml: good, accept: true, class: "derived-from-all-bases", canon: "id:" + good})
		}
		for _, bad := range []string{"only1", "only2", "deep1", "b1", "b2", "unrelated"} {
			out = append(out, c05Cand{raw: bad, json: q(bad), xml: bad, accept: false, class: "not-derived-from-all-bases"})
		}
	case "identityref":
		for _, good := range []string{"id-a", "id-b", "r:id-a"} {
			cls := "derived"
			if strings.Contains(good, ":") {
				cls = "derived-with-module-prefix"
			}
			out = append(out, c05Cand{raw: good, json: q(good), xml: good, accept: true, class: cls, canon: "id:" + strings.TrimPrefix(good, "r:")})
		}
		out = append(out, c05Cand{raw: "other", json: q("other"), xml: "other", accept: false, class: "not-derived-from-base"})
		out = append(out, c05Cand{raw: "nope", json: q("nope"), xml: "nope", accept: false, class: "unknown-identity"})
		out = append(out, c05Cand{raw: "base-id", json: q("base-id"), xml: "base-id", accept: false, class: "the-base-itself"})
		out = append(out, c05Cand{raw: "zz:id-a", json: q("zz:id-a"), xml: "zz:id-a", accept: false, class: "wrong-module-prefix"})
		out = append(out, c05Cand{raw: val.IdentRef{Label: "other"}, typed: val.IdentRef{Label: "other"}, accept: false, class: "not-derived-typed"})
	case "union":
		for _, n := range []int{0, 5, 10} {
			out = append(out, c05Cand{raw: n, json: fmt.Sprint(n), xml: fmt.Sprint(n), typed: val.Int32(n), accept: true, class: "int-member-in-range", canon: fmt.Sprint(n)})
		}
		for _, n := range []int{-1, 11, 100} {
			out = append(out, c05Cand{raw: n, json: fmt.Sprint(n), typed: val.Int32(n), accept: false, class: "int-member-out-of-range"})
		}
		out = append(out, c05Cand{raw: "ab", json: q("ab"), xml: "ab", typed: val.String("ab"), accept: true, class: "string-member-ok", canon: `"ab"`})
		for _, s := range []string{"a", "abc", ""} {
			out = append(out, c05Cand{raw: s, json: q(s), xml: s, typed: val.String(s), accept: false, class: "string-member-wrong-length"})
		}
		out = append(out, c05Cand{raw: true, json: "true", accept: false, class: "no-member-kind"})
	case "union2":
		// typed values are handed to Set; SetValue and the documents get the text
		tv := func(v val.Value, text string, ok bool, class string) {
			cd := c05Cand{raw: text, json: q(text), xml: text, typed: v, accept: ok, class: class}
			if !ok {
				// the text of a refused typed value may be the text of another member
				cd.raw, cd.json, cd.xml = v, "", ""
			}
			out = append(out, cd)
		}
		tv(val.Enum{Id: 0, Label: "a"}, "a", true, "declared-typed-enum")
		tv(val.Enum{Id: 99, Label: "zzz"}, "", false, "undeclared-typed-enum")
		tv(val.Bits{Labels: []string{"p"}, Positions: 1}, "p", true, "declared-typed-bits")
		tv(val.Bits{Labels: []string{"zz"}, Positions: 1 << 9}, "", false, "undeclared-typed-bits")
		tv(val.IdentRef{Label: "id-a"}, "id-a", true, "derived-typed-identity")
		tv(val.IdentRef{Label: "other"}, "", false, "not-derived-typed-identity")
		tv(val.Int8(5), "5", true, "int-member")
		for _, good := range []string{"a", "b", "p q", "id-a", "5"} {
			out = append(out, c05Cand{raw: good, json: q(good), xml: good, accept: true, class: "text-of-a-member"})
		}
		// (the empty text is the bits value with no bit set)
		for _, bad := range []string{"zzz", "other", "p zz", "300", "A"} {
			out = append(out, c05Cand{raw: bad, json: q(bad), xml: bad, accept: false, class: "text-of-no-member"})
		}
	}
	return out
}

// ---------------------------------------------------------------- execution

type c05Write struct {
	path string
	do   func(b *node.Browser, cand c05Cand, leaf string, list []c05Cand) (error, bool) // bool: applicable
}

func c05DoWrite(path string, m *meta.Module, b *node.Browser, leaf string, cands []c05Cand) (err error, applicable bool) {
	scalar := cands[0]
	isList := leaf == "xs"
	if leaf == "kl" {
		// a new list entry whose key is the candidate
		if m.Definition("kl") == nil {
			return nil, false
		}
		switch path {
		case "UpsertFrom(json)", "InsertFrom(json)":
			if scalar.json == "" {
				return nil, false
			}
			n, jerr := nodeutil.ReadJSON(fmt.Sprintf(`{"kl":[{"k":%s,"v":"a"}]}`, scalar.json))
			if jerr != nil {
				return fmt.Errorf("harness: %v", jerr), true
			}
			if path == "InsertFrom(json)" {
				return b.Root().InsertFrom(n), true
			}
			return b.Root().UpsertFrom(n), true
		case "UpsertFrom(xml)":
			if scalar.xml == "" || scalar.json2 {
				return nil, false
			}
			n, xerr := nodeutil.ReadXMLDoc(strings.NewReader(`<r xmlns="urn:r"><kl><k>` + xmlEsc(scalar.xml) + `</k><v>a</v></kl></r>`))
			if xerr != nil {
				return fmt.Errorf("harness: %v", xerr), true
			}
			return b.Root().UpsertFrom(n), true
		case "UpsertFrom(node)":
			if scalar.typed == nil {
				return nil, false
			}
			src := model.NewTree()
			e := model.NewTree()
			e.Leaves["k"] = model.L(scalar.typed)
			e.Leaves["v"] = model.L(val.String("a"))
			src.Lists["kl"] = &model.List{Entries: []*model.Tree{e}}
			return b.Root().UpsertFrom(store.ContainerNode(src)), true
		}
		return nil, false
	}
	switch path {
	case "Set":
		if isList {
			return nil, false
		}
		if scalar.typed == nil {
			return nil, false
		}
		sel, ferr := b.Root().Find(leaf)
		if ferr != nil || sel == nil {
			return fmt.Errorf("harness: find leaf: %v", ferr), true
		}
		return sel.Set(scalar.typed), true
	case "SetValue":
		sel, ferr := b.Root().Find(leaf)
		if ferr != nil || sel == nil {
			return fmt.Errorf("harness: find leaf: %v", ferr), true
		}
		if isList {
			var raws []interface{}
			for _, c := range cands {
				raws = append(raws, c.raw)
			}
			return sel.SetValue(raws), true
		}
		return sel.SetValue(scalar.raw), true
	case "UpsertFrom(json)", "InsertFrom(json)", "UpdateFrom(json)":
		var doc string
		if isList {
			var parts []string
			for _, c := range cands {
				if c.json == "" {
					return nil, false
				}
				parts = append(parts, c.json)
			}
			doc = fmt.Sprintf(`{"xs":[%s]}`, strings.Join(parts, ","))
		} else {
			if scalar.json == "" {
				return nil, false
			}
			doc = fmt.Sprintf(`{"x":%s}`, scalar.json)
		}
		n, jerr := nodeutil.ReadJSON(doc)
		if jerr != nil {
			return fmt.Errorf("harness: %v", jerr), true
		}
		switch path {
		case "UpsertFrom(json)":
			return b.Root().UpsertFrom(n), true
		case "InsertFrom(json)":
			return b.Root().InsertFrom(n), true
		}
		return b.Root().UpdateFrom(n), true
	case "UpsertFrom(xml)":
		var body string
		if isList {
			for _, c := range cands {
				if (c.xml == "" && c.json != `""`) || c.json2 {
					return nil, false
				}
				body += "<xs>" + xmlEsc(c.xml) + "</xs>"
			}
		} else {
			if (scalar.xml == "" && scalar.json != `""`) || scalar.json2 {
				return nil, false
			}
			body = "<x>" + xmlEsc(scalar.xml) + "</x>"
		}
		n, xerr := nodeutil.ReadXMLDoc(strings.NewReader(`<r xmlns="urn:r">` + body + `</r>`))
		if xerr != nil {
			return fmt.Errorf("harness: %v", xerr), true
		}
		return b.Root().UpsertFrom(n), true
	case "UpsertFrom(node)":
		src := model.NewTree()
		if isList {
			var vs []val.Value
			for _, c := range cands {
				if c.typed == nil {
					return nil, false
				}
				vs = append(vs, c.typed)
			}
			lv := model.ListOfAny(vs)
			if lv == nil {
				return nil, false
			}
			src.Leaves["xs"] = model.L(lv)
		} else {
			if scalar.typed == nil {
				return nil, false
			}
			src.Leaves["x"] = model.L(scalar.typed)
		}
		return b.Root().UpsertFrom(store.ContainerNode(src)), true
	}
	panic(path)
}

func (p *c05) Run(raw json.RawMessage) eng.Result {
	var c c05Case
	decode(raw, &c)
	var res eng.Result
	ss := &sigSet{res: &res}
	text := c05Module(c)
	site := fmt.Sprintf("C05/%s/%s/depth-%d", c.Kind, c.Base, len(c.Levels)-1)
	if c.Ref {
		site = fmt.Sprintf("C05/via-leafref/%s/%s/depth-%d", c.Kind, c.Base, len(c.Levels)-1)
	}
	if len(c.Levels) == 0 {
		site = fmt.Sprintf("C05/%s", c.Kind)
	}
	shape := ""
	for _, lv := range c.Levels {
		if strings.Contains(lv, "min") || strings.Contains(lv, "max") {
			shape = "/min-max-keyword"
		}
	}
	site += shape
	var m *meta.Module
	var lerr error
	fr, msg, pan := eng.Recover(func() { m, lerr = parser.LoadModuleFromString(nil, text) })
	if pan {
		ss.add(site+"/load-panic:"+fr, msg+" module: "+text)
		return res
	}
	if lerr != nil {
		ss.add("C05/harness/module-does-not-load/"+c.Kind, lerr.Error()+" module: "+text)
		return res
	}
	var cands []c05Cand
	switch c.Kind {
	case "range":
		cands = c05RangeCands(c)
	case "length":
		cands = c05LengthCands(c)
	case "pattern":
		cands = c05PatternCands(c)
	default:
		cands = c05OtherCands(c, m)
	}
	var good *c05Cand
	for i := range cands {
		if cands[i].accept && cands[i].typed != nil {
			good = &cands[i]
			break
		}
	}
	initial := `{"other":"keep"}`
	for _, cand := range cands {
		for _, path := range c05Paths {
			type trial struct {
				leaf  string
				elems []c05Cand
				pos   string
			}
			trials := []trial{{"x", []c05Cand{cand}, ""}}
			if c.Kind == "range" || c.Kind == "length" || c.Kind == "pattern" {
				trials = append(trials, trial{"kl", []c05Cand{cand}, "/list-key"})
			}
			if good != nil && c.Kind != "bits" && c.Kind != "union" && c.Kind != "union2" {
				// leaf-list: the candidate alone, and among good elements in each position
				trials = append(trials, trial{"xs", []c05Cand{cand}, "/leaf-list-only"}, trial{"xs", []c05Cand{cand, *good, *good}, "/leaf-list-first"}, trial{"xs", []c05Cand{*good, cand, *good}, "/leaf-list-middle"}, trial{"xs", []c05Cand{*good, *good, cand}, "/leaf-list-last"})
			}
			scalarSym := ""
			for _, tr := range trials {
				st := store.NewRef(nil)
				b := node.NewBrowser(m, st.Node())
				it, _ := model.FromJSON(m.DataDefinitions(), []byte(initial))
				*st.T = *it
				if path == "UpdateFrom(json)" || path == "Set" || path == "SetValue" {
					// nothing to pre-create: leaves live in the root container
				}
				// an empty list left behind by a refused entry carries no data
				before := st.T.Canon(m.DataDefinitions(), model.CanonOpts{EmptyListAbsent: true})
				var err error
				var applicable bool
				fr, msg, pan := eng.Recover(func() { err, applicable = c05DoWrite(path, m, b, tr.leaf, tr.elems) })
				if !pan && !applicable {
					continue
				}
				res.Evals++
				res.Nontriv++
				desc := fmt.Sprintf("%s of %v to %s (module: %s)", path, candDesc(tr.elems), tr.leaf, strings.Join(c.Levels, " <- "))
				cell := site + "/" + cand.class + tr.pos
				after := st.T.Canon(m.DataDefinitions(), model.CanonOpts{EmptyListAbsent: true})
				pathTag := ""
				sym := ""
				switch {
				case pan:
					sym = "panic"
				case err != nil && strings.HasPrefix(err.Error(), "harness:"):
				case cand.accept && err != nil:
					sym = "wrong-reject"
				case !cand.accept && err == nil:
					sym = "wrong-accept"
				}
				if tr.leaf == "x" {
					scalarSym = sym
				} else if sym != "" && sym == scalarSym {
					continue // the same thing the scalar leaf shows: not specific to leaf-lists
				}
				switch {
				case pan:
					ss.add(cell+"/panic:"+fr, desc+": "+msg)
				case err != nil && strings.HasPrefix(err.Error(), "harness:"):
					ss.add("C05/harness/"+path, err.Error())
				case cand.accept && err != nil:
					ss.add(cell+"/wrong-reject"+pathTag, desc+": "+err.Error())
				case !cand.accept && err == nil:
					ss.add(cell+"/wrong-accept"+pathTag, desc+": stored "+after)
				case !cand.accept && after != before:
					ss.add(cell+"/rejected-but-stored", desc+": store now "+after)
				case cand.accept && tr.leaf == "kl":
					if l, ok := st.T.Lists["kl"]; !ok || len(l.Entries) != 1 {
						ss.add(cell+"/accepted-but-not-stored", desc)
					}
				case cand.accept:
					lf, ok := st.T.Leaves[tr.leaf]
					if !ok {
						ss.add(cell+"/accepted-but-not-stored", desc)
					} else if cand.canon != "" && tr.leaf == "x" && lf.Canon != cand.canon {
						ss.add(cell+"/stored-different-value", desc+": stored "+lf.Canon)
					}
					if _, keep := st.T.Leaves["other"]; !keep {
						ss.add(cell+"/other-leaf-lost", desc)
					}
				}
			}
		}
	}
	res.Outcomes = []string{c.Kind + ":" + c.Base}
	if res.Evals == 0 {
		res.Evals = 1
	}
	return res
}

func candDesc(cs []c05Cand) string {
	var parts []string
	for _, c := range cs {
		parts = append(parts, fmt.Sprintf("%v", c.raw))
	}
	return "[" + strings.Join(parts, " ") + "]"
}
