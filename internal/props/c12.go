package props

import (
	"encoding/json"
	"errors"
	"fmt"
	"strings"

	"github.com/freeconf/yang/fc"
	"github.com/freeconf/yang/meta"
	"github.com/freeconf/yang/node"
	"github.com/freeconf/yang/nodeutil"
	"verif/internal/eng"
	"verif/internal/model"
	"verif/internal/store"
)

// C12 — every node told an edit begins is told it ended, and node errors surface.

type c12 struct{ base }

func init() {
	eng.Register(&c12{base{id: "C12", level: "fault_enumeration",
		rule: "for each edit scenario (strategy x direction x entry point x tree shape, Delete, ReplaceFrom, choice switch) run 0 numbers every callback (Child, Next, Field, Choose, BeginEdit, EndEdit) the library makes into the recording wrappers of source and target; run k makes exactly callback k fail with a unique sentinel, for every k (thorough: every pair k1<k2 over the calls that still happen after k1). Each run checks begin/end pairing per wrapper instance, recipients, error wrapping (errors.Is) and that no write follows the failing call; the call prefix before the fault must equal run 0. Non-trivial = distinct (scenario, k) fault placement"}})
}

type c12Scenario struct {
	Name   string `json:"name"`
	Schema string `json:"schema"`
	T      string `json:"T"`
	Entry  string `json:"entry"`
	Op     string `json:"op"` // upsert insert update delete replace
	Dir    string `json:"dir"`
	S      string `json:"S,omitempty"`
}

func init() {
	// a schema with when statements: evaluating them reads the target while the edit is under way
	model.Schemas["c12when"] = `module c12when { namespace "urn:c12w"; prefix w; revision 0;
  leaf mode { type string; }
  container w { when "../mode = 'a'"; leaf x { type string; } container d { when "../x = '1'"; leaf y { type string; } } }
  leaf g { when "mode = 'a'"; type string; }
  list l { key k; when "v = 'on'"; leaf k { type string; } leaf v { type string; } }
}`
	c12Scenarios = append(c12Scenarios,
		c12Scenario{"when/new-nodes", "c12when", `{"mode":"a"}`, "", "upsert", "from", `{"w":{"x":"1","d":{"y":"2"}},"g":"3"}`},
		c12Scenario{"when/existing-nodes", "c12when", `{"mode":"a","w":{"x":"1"},"g":"0"}`, "", "upsert", "from", `{"w":{"x":"1","d":{"y":"2"}},"g":"3"}`},
		c12Scenario{"when/list-entries", "c12when", `{"mode":"a","l":[{"k":"a","v":"on"}]}`, "", "upsert", "from", `{"l":[{"k":"a","v":"on"},{"k":"b","v":"on"}]}`},
		c12Scenario{"when/insert", "c12when", `{"mode":"a"}`, "", "insert", "from", `{"w":{"x":"1"},"g":"3"}`},
		c12Scenario{"when/into", "c12when", `{"mode":"a"}`, "", "upsert", "into", `{"mode":"a","w":{"x":"1"},"g":"3"}`},
	)
}

func init() {
	// the library's node combinator that fans edits out to two nodes takes part like any node
	for _, name := range []string{"new-container", "existing-container", "list-entries", "at-container", "at-entry", "nested-list", "choice-switch-clear-leaf", "choice-switch-delete-container", "delete-container", "delete-entry", "delete-list", "replace-entry"} {
		sc := c12ScenarioBy(name)
		sc.Name = "tee/" + name // the target is a nodeutil.Tee over two recorded stores holding the same tree
		c12Scenarios = append(c12Scenarios, sc)
	}
}

var c12Scenarios = []c12Scenario{
	{"leaf-only", "base", `{}`, "", "upsert", "from", `{"top":"a"}`},
	{"new-container", "base", `{}`, "", "upsert", "from", `{"c":{"a":"a"}}`},
	{"new-container-insert", "base", `{}`, "", "insert", "from", `{"c":{"a":"a","d":{"x":"a"}}}`},
	{"existing-container", "base", `{"c":{"a":"a"}}`, "", "upsert", "from", `{"c":{"a":"b","d":{"x":"a"}}}`},
	{"existing-container-update", "base", `{"c":{"a":"a","d":{"x":"a"}}}`, "", "update", "from", `{"c":{"a":"b","d":{"x":"b"}}}`},
	{"list-entries", "base", `{"l":[{"k":"a"}]}`, "", "upsert", "from", `{"l":[{"k":"a","v":1},{"k":"b","v":2}]}`},
	{"list-entries-insert", "base", `{}`, "", "insert", "from", `{"l":[{"k":"a","v":1},{"k":"b","v":2}]}`},
	{"list-entries-update", "base", `{"l":[{"k":"a"},{"k":"b"}]}`, "", "update", "from", `{"l":[{"k":"a","v":1},{"k":"b","v":2}]}`},
	{"at-container", "base", `{"c":{"a":"a"}}`, "c", "upsert", "from", `{"d":{"x":"a"}}`},
	{"at-container-depth2", "base", `{"c":{"d":{"x":"a"}}}`, "c/d", "upsert", "from", `{"x":"b"}`},
	{"at-list", "base", `{"l":[{"k":"a"}]}`, "l", "upsert", "from", `{"l":[{"k":"c","v":3}]}`},
	{"at-entry", "base", `{"l":[{"k":"a"}]}`, "l=a", "upsert", "from", `{"v":5,"n":[{"j":1,"u":"a"}]}`},
	{"at-nested-entry", "base", `{"l":[{"k":"a","n":[{"j":1,"u":"a"}]}]}`, "l=a/n=1", "upsert", "from", `{"u":"z"}`},
	{"nested-list", "base", `{}`, "", "upsert", "from", `{"l":[{"k":"a","m":{"z":"a"},"n":[{"j":1,"u":"a"},{"j":2}]}]}`},
	{"into-new-container", "base", `{}`, "", "upsert", "into", `{"c":{"a":"a"}}`},
	{"into-list", "base", `{"l":[{"k":"a"}]}`, "", "upsert", "into", `{"l":[{"k":"a","v":1},{"k":"b","v":2}]}`},
	{"into-at-entry", "base", `{"l":[{"k":"a"}]}`, "l=a", "upsert", "into", `{"v":5}`},
	{"choice-switch-clear-leaf", "choice", `{"a1":"a","a2":1}`, "", "upsert", "from", `{"b1":{"x":"a"}}`},
	{"choice-switch-delete-container", "choice", `{"b1":{"x":"a"}}`, "", "upsert", "from", `{"a1":"a"}`},
	{"choice-switch-delete-list", "choice", `{"c1":[{"k":"a","v":"a"}]}`, "", "upsert", "from", `{"s":"a"}`},
	{"delete-container", "base", `{"c":{"a":"a","d":{"x":"a"}},"top":"a"}`, "c", "delete", "", ``},
	{"delete-container-depth2", "base", `{"c":{"a":"a","d":{"x":"a"}}}`, "c/d", "delete", "", ``},
	{"delete-entry", "base", `{"l":[{"k":"a"},{"k":"b"}]}`, "l=a", "delete", "", ``},
	{"delete-list", "base", `{"l":[{"k":"a"},{"k":"b"}]}`, "l", "delete", "", ``},
	{"delete-nested-entry", "base", `{"l":[{"k":"a","n":[{"j":1,"u":"a"}]}]}`, "l=a/n=1", "delete", "", ``},
	{"replace-entry", "base", `{"l":[{"k":"a","v":1},{"k":"b"}]}`, "l=a", "replace", "from", `{"l":[{"k":"a","w":"b"}]}`},
	{"replace-container", "base", `{"c":{"a":"a"},"top":"a"}`, "c", "replace", "from", `{"c":{"b":1}}`},
}

type c12Case struct {
	// generated scenarios: all (T,S) pairs to a size bound for one schema / operation / entry point
	Gen    string       `json:"gen,omitempty"` // schema
	Op     string       `json:"op,omitempty"`
	Entry  string       `json:"entry,omitempty"`
	B      int          `json:"B,omitempty"`
	Inline *c12Scenario `json:"inline,omitempty"` // replay of one generated scenario

	Scenario string `json:"scenario"`
	K        int    `json:"k"`  // -1: whole sweep
	K2       int    `json:"k2"` // -1: none; -2: sweep all pairs
}

func (p *c12) Bounds(tier string) map[string]interface{} {
	return map[string]interface{}{"scenarios": len(c12Scenarios), "single_faults": "every callback position k of every scenario", "fault_pairs": tier == "thorough"}
}

func c12GenB(tier string) int {
	if tier == "thorough" {
		return 4
	}
	return 3
}

func (p *c12) Cases(tier string, emit func(interface{})) {
	for _, schema := range []string{"base", "choice"} {
		for _, op := range []string{"upsert", "insert", "update", "replace", "delete"} {
			entries := c03Entries[schema]
			if schema == "choice" {
				entries = []string{"", "w", "e=a"}
			}
			for _, entry := range entries {
				if (op == "replace" || op == "delete") && entry == "" {
					continue
				}
				emit(c12Case{Gen: schema, Op: op, Entry: entry, B: c12GenB(tier), K: -1, K2: -1})
			}
		}
	}
	for _, s := range c12Scenarios {
		emit(c12Case{Scenario: s.Name, K: -1, K2: -1})
		if tier == "thorough" {
			emit(c12Case{Scenario: s.Name, K: -1, K2: -2})
		}
	}
}

type sentinel struct{ n int }

func (s *sentinel) Error() string { return fmt.Sprintf("verif injected fault #%d", s.n) }

type c12Run struct {
	log     *store.Log
	err     error
	panic   string
	frame   string
	faults  map[int]*sentinel
	skipped bool
	// refuse: callback number of a create request that is answered with (nil, nil)
	refuse int
}

func c12Exec(sc c12Scenario, faults []int) c12Run {
	m := model.SharedSchema(sc.Schema)
	t, err := model.FromJSON(m.DataDefinitions(), []byte(sc.T))
	if err != nil {
		panic(err)
	}
	log := &store.Log{}
	run := c12Run{log: log, faults: map[int]*sentinel{}, refuse: -1}
	for _, k := range faults {
		if k < 0 {
			// -(k+1): refusal of create request k instead of a fault
			run.refuse = -(k + 1)
			continue
		}
		run.faults[k] = &sentinel{k}
	}
	tgt := store.NewRef(t)
	var tgtNode node.Node = store.Wrap(tgt.Node(), log, "dst")
	if strings.HasPrefix(sc.Name, "tee/") {
		tgtNode = nodeutil.Tee{A: tgtNode, B: store.Wrap(store.NewRef(t.Clone()).Node(), log, "dst")}
	}
	b := node.NewBrowser(m, tgtNode)
	ep := entryPoint{sc.Entry}
	fr, msg, pan := eng.Recover(func() {
		sel := b.Root()
		if sc.Entry != "" {
			var ferr error
			if sel, ferr = sel.Find(sc.Entry); ferr != nil || sel == nil {
				panic(fmt.Sprintf("harness: entry %s: %v", sc.Entry, ferr))
			}
		}
		var src node.Node
		var ssel *node.Selection
		if sc.S != "" {
			var defs = ep.defs(m)
			kind := ep.kind(m)
			if sc.Op == "replace" {
				// the document is rooted at the parent's level
				parent, _ := splitLast(sc.Entry)
				pep := entryPoint{parent}
				if kind == "entry" {
					pep = entryPoint{sc.Entry[:strings.LastIndex(sc.Entry, "=")]}
				}
				st, perr := model.FromJSON(entryDocDefs(m, pep), []byte(sc.S))
				if perr != nil {
					panic(perr)
				}
				if pep.kind(m) == "list" {
					src = store.Wrap(store.ListNode(st.Lists[pep.def(m).Ident()], pep.def(m).(*metaList)), log, "src")
				} else {
					src = store.Wrap(store.ContainerNode(st), log, "src")
				}
			} else {
				st, perr := model.FromJSON(entryDocDefs(m, ep), []byte(sc.S))
				if perr != nil {
					panic(perr)
				}
				if sc.Dir == "into" {
					sb := node.NewBrowser(m, store.Wrap(store.NewRef(embedAt(m, ep, st)).Node(), log, "src"))
					ssel = sb.Root()
					if sc.Entry != "" {
						var ferr error
						if ssel, ferr = ssel.Find(sc.Entry); ferr != nil || ssel == nil {
							panic(fmt.Sprintf("harness: source entry: %v", ferr))
						}
					}
				} else if kind == "list" {
					src = store.Wrap(store.ListNode(st.Lists[ep.def(m).Ident()], ep.def(m).(*metaList)), log, "src")
				} else {
					src = store.Wrap(store.ContainerNode(st), log, "src")
				}
				_ = defs
			}
		}
		// navigation is over: number callbacks from here and arm the faults
		log.Events = nil
		log.Fail = func(e *store.Event) error {
			if s, ok := run.faults[e.N]; ok {
				return s
			}
			if e.N == run.refuse && e.New && (e.Kind == "child" || e.Kind == "next") {
				return store.ErrRefuse
			}
			return nil
		}
		switch sc.Op {
		case "upsert":
			if sc.Dir == "into" {
				run.err = ssel.UpsertInto(sel.Node)
			} else {
				run.err = sel.UpsertFrom(src)
			}
		case "insert":
			run.err = sel.InsertFrom(src)
		case "update":
			run.err = sel.UpdateFrom(src)
		case "delete":
			run.err = sel.Delete()
		case "replace":
			run.err = sel.ReplaceFrom(src)
		}
	})
	log.Fail = nil
	if pan {
		run.panic, run.frame = msg, fr
	}
	return run
}

func c12ScenarioBy(name string) c12Scenario {
	for _, s := range c12Scenarios {
		if s.Name == name {
			return s
		}
	}
	panic(name)
}

func isWrite(e store.Event) bool {
	return (e.Kind == "field" && e.Write) || (e.Kind == "child" && (e.New || e.Del)) || (e.Kind == "next" && (e.New || e.Del))
}

// c12Check applies the four clauses to one run.
func c12Check(sc c12Scenario, run c12Run, faults []int) (sym, what string) {
	evs := run.log.Events
	trace := func() string {
		var sb []string
		for _, e := range evs {
			sb = append(sb, e.String())
		}
		return strings.Join(sb, "; ")
	}
	if run.panic != "" {
		return "panic:" + run.frame, run.panic
	}
	first := -1
	for _, k := range faults {
		if k < len(evs) && (first < 0 || k < first) {
			first = k
		}
	}
	firedKind := ""
	if first >= 0 {
		firedKind = evs[first].Side + "-" + evs[first].Kind
	}
	// (1) pairing per wrapper instance (stack discipline, same flags)
	type open struct{ new, del, root bool }
	stacks := map[int][]open{}
	for _, e := range evs {
		switch e.Kind {
		case "begin":
			if !e.Err {
				stacks[e.Inst] = append(stacks[e.Inst], open{e.New, e.Del, e.Root})
			}
		case "end":
			st := stacks[e.Inst]
			if len(st) == 0 {
				return firedKind + "/end-without-begin", fmt.Sprintf("instance #%d (/%s) got EndEdit without a successful BeginEdit: %s", e.Inst, e.Path, trace())
			}
			top := st[len(st)-1]
			if top.new != e.New || top.del != e.Del || top.root != e.Root {
				return firedKind + "/end-flags-differ", fmt.Sprintf("instance #%d (/%s): %s", e.Inst, e.Path, trace())
			}
			stacks[e.Inst] = st[:len(st)-1]
		}
	}
	for inst, st := range stacks {
		if len(st) > 0 {
			path := ""
			for _, e := range evs {
				if e.Inst == inst {
					path = e.Path
				}
			}
			return firedKind + "/begin-without-end", fmt.Sprintf("instance #%d (/%s) was told the edit begins but never that it ended: %s", inst, path, trace())
		}
	}
	// (2) recipients: never a source-side node; non-root notifications only on the path of an edit root
	roots := []string{}
	for _, e := range evs {
		if e.Kind == "begin" && e.Root {
			roots = append(roots, e.Path)
		}
	}
	for _, e := range evs {
		if e.Kind != "begin" && e.Kind != "end" {
			continue
		}
		if e.Side == "src" {
			return firedKind + "/source-node-notified", trace()
		}
		if e.Root {
			continue
		}
		related := false
		for _, r := range roots {
			if r == e.Path || strings.HasPrefix(r, e.Path+"/") || strings.HasPrefix(r, e.Path+"=") || e.Path == "" ||
				strings.HasPrefix(e.Path, r+"/") || strings.HasPrefix(e.Path, r+"=") || r == "" {
				related = true
			}
		}
		if !related {
			return firedKind + "/unrelated-node-notified", fmt.Sprintf("/%s is neither inside nor above an edit root: %s", e.Path, trace())
		}
	}
	if first < 0 {
		if run.err != nil && !errors.Is(run.err, fc.ConflictError) && !errors.Is(run.err, fc.NotFoundError) {
			// insert into something existing / update of something missing are the defined failures of a strategy
			return "error-without-fault", run.err.Error()
		}
		return "", ""
	}
	// (3) the API error wraps the injected error
	if run.err == nil {
		return firedKind + "/error-swallowed", fmt.Sprintf("callback %d (%s) failed but the API call returned nil: %s", first, evs[first], trace())
	}
	wrapped := false
	for _, k := range faults {
		if errors.Is(run.err, run.faults[k]) {
			wrapped = true
		}
	}
	if !wrapped {
		return firedKind + "/error-not-wrapped", fmt.Sprintf("callback %d (%s) failed; API error %q does not wrap it", first, evs[first], run.err.Error())
	}
	// (4) no write after the failing call
	for _, e := range evs[first+1:] {
		if isWrite(e) {
			return firedKind + "/write-after-failure", fmt.Sprintf("callback %d (%s) failed, later: %s", first, evs[first], e)
		}
	}
	return "", ""
}

func (p *c12) Run(raw json.RawMessage) eng.Result {
	var c c12Case
	decode(raw, &c)
	if c.Gen != "" {
		return c12RunGen(c)
	}
	var res eng.Result
	ss := &sigSet{res: &res}
	sc := c12Scenario{}
	if c.Inline != nil {
		sc = *c.Inline
	} else {
		sc = c12ScenarioBy(c.Scenario)
	}
	base := c12Exec(sc, nil)
	res.Evals++
	report := func(sym, what string, k, k2 int) {
		sig := "C12/" + scenarioClass(sc) + "/" + sym
		if ss.seen == nil {
			ss.seen = map[string]bool{}
		}
		if ss.seen[sig] {
			return
		}
		ss.seen[sig] = true
		rc := c12Case{Scenario: sc.Name, K: k, K2: k2}
		if c.Inline != nil {
			rc.Inline = c.Inline
		}
		res.AddCase(sig, fmt.Sprintf("scenario %s: %s", sc.Name, what), rc)
	}
	if sym, what := c12Check(sc, base, nil); sym != "" {
		report("fault-free/"+sym, what, -3, -1)
	}
	n := len(base.log.Events)
	one := func(faults []int) {
		run := c12Exec(sc, faults)
		res.Evals++
		res.Nontriv++
		// the prefix before the first fault must be identical to run 0
		first := faults[0]
		for i := 0; i < first && i < len(run.log.Events) && i < n; i++ {
			a, b := run.log.Events[i], base.log.Events[i]
			a.Err, b.Err = false, false
			if a.String() != b.String() {
				res.Add("C12/harness/prefix-diverged", fmt.Sprintf("scenario %s fault %v: event %d %s vs %s", sc.Name, faults, i, a, b))
				return
			}
		}
		k2 := -1
		if len(faults) > 1 {
			k2 = faults[1]
		}
		if sym, what := c12Check(sc, run, faults); sym != "" {
			if len(faults) > 1 {
				if strings.HasPrefix(sym, "dst-choose/") {
					// the first fault is the (known) swallowed Choose error: the edit carries on, whatever the second fault does
					sym = "dst-choose/error-swallowed"
				} else {
					sym = "pair/" + sym
				}
			}
			report(sym, what, faults[0], k2)
		}
		res.Outcomes = append(res.Outcomes, fmt.Sprintf("%s:%d", scenarioClass(sc), len(run.log.Events)))
	}
	refusal := func(k int) {
		run := c12Exec(sc, []int{-(k + 1)})
		res.Evals++
		res.Nontriv++
		site := "refused-create"
		switch {
		case run.panic != "":
			report(site+"/panic:"+run.frame, fmt.Sprintf("create request %d answered with (nil, nil): %s", k, run.panic), -(k + 10), -1)
		case run.err == nil:
			report(site+"/no-error", fmt.Sprintf("create request %d (%s) answered with (nil, nil) but the API call returned nil", k, base.log.Events[k]), -(k + 10), -1)
		default:
			// pairing still has to hold
			if sym, what := c12Check(sc, run, nil); strings.Contains(sym, "begin-without-end") || strings.Contains(sym, "end-without-begin") {
				report(site+"/"+sym, what, -(k + 10), -1)
			}
		}
	}
	switch {
	case c.K == -3:
		// fault-free replay only
	case c.K >= 0 && c.K2 >= 0:
		one([]int{c.K, c.K2})
	case c.K >= 0:
		one([]int{c.K})
	case c.K2 == -2:
		for k1 := 0; k1 < n; k1++ {
			r1 := c12Exec(sc, []int{k1})
			for k2 := k1 + 1; k2 < len(r1.log.Events); k2++ {
				one([]int{k1, k2})
			}
		}
	case c.K <= -10:
		// replay of a refusal
		refusal(-(c.K + 10))
	default:
		for k := 0; k < n; k++ {
			one([]int{k})
		}
		// a target that answers a create request with "nothing, no error"
		for k, e := range base.log.Events {
			if e.Side == "dst" && e.New && (e.Kind == "child" || e.Kind == "next") {
				refusal(k)
			}
		}
	}
	// dedupe outcomes
	seen := map[string]bool{}
	var oc []string
	for _, o := range res.Outcomes {
		if !seen[o] {
			seen[o] = true
			oc = append(oc, o)
		}
	}
	res.Outcomes = oc
	res.Sample = map[string]interface{}{"scenario": sc.Name, "callbacks_in_fault_free_run": n}
	return res
}

func scenarioClass(sc c12Scenario) string {
	if strings.HasPrefix(sc.Name, "choice") || sc.Schema == "choice" {
		return sc.Op + "+choice-switch"
	}
	return sc.Op
}

// c12RunGen sweeps every single fault position of every generated scenario of one
// (schema, operation, entry point): all target trees T and sources S with |T|+|S| <= B.
func c12RunGen(c c12Case) eng.Result {
	var res eng.Result
	m := model.SharedSchema(c.Gen)
	ep := entryPoint{c.Entry}
	a := model.DefaultAlpha()
	ts := model.GenTrees(m.DataDefinitions(), c.B, a)
	var srcs []*model.Tree
	if c.Op != "delete" {
		if c.Op == "replace" {
			srcs = c12ReplaceSources(m, ep, c.B, a)
		} else {
			srcs = c03Sources(m, ep, c.B, a)
		}
	} else {
		srcs = []*model.Tree{nil}
	}
	seenSig := map[string]bool{}
	ocs := map[string]bool{}
	for _, t := range ts {
		tt, tl := ep.locate(m, t)
		if tt == nil && tl == nil {
			continue
		}
		tj := t.ToJSON(m.DataDefinitions())
		for _, s := range srcs {
			sj := ""
			if s != nil {
				if s.Size()+t.Size() > c.B {
					continue
				}
				if c.Op == "replace" {
					sj = s.ToJSON(entryDocDefs(m, c12ReplaceParent(m, ep)))
				} else {
					b, _ := json.Marshal(treeJSON(m, ep, s, true))
					sj = string(b)
				}
			}
			sc := c12Scenario{Name: "generated", Schema: c.Gen, T: tj, Entry: c.Entry, Op: c.Op, Dir: "from", S: sj}
			if c.Op == "delete" {
				sc.Dir, sc.S = "", ""
			}
			r := (&c12{}).Run(mustJSON(c12Case{Inline: &sc, K: -1, K2: -1}))
			res.Evals += r.Evals
			res.Nontriv += r.Nontriv
			res.States++
			for _, o := range r.Outcomes {
				ocs[o] = true
			}
			for _, v := range r.Viols {
				if !seenSig[v.Sig] {
					seenSig[v.Sig] = true
					res.Viols = append(res.Viols, v)
				}
			}
		}
	}
	for o := range ocs {
		res.Outcomes = append(res.Outcomes, o)
	}
	if len(res.Outcomes) > 12 {
		res.Outcomes = res.Outcomes[:12]
	}
	return res
}

func mustJSON(v interface{}) json.RawMessage {
	b, err := json.Marshal(v)
	if err != nil {
		panic(err)
	}
	return b
}

// c12ReplaceParent: the node whose level a replace document is rooted at.
func c12ReplaceParent(m *meta.Module, ep entryPoint) entryPoint {
	parent, _ := splitLast(ep.Path)
	if ep.kind(m) == "entry" {
		return entryPoint{ep.Path[:strings.LastIndex(ep.Path, "=")]}
	}
	return entryPoint{parent}
}

// c12ReplaceSources: documents holding exactly the addressed node with new content.
func c12ReplaceSources(m *meta.Module, ep entryPoint, max int, a model.Alpha) []*model.Tree {
	pep := c12ReplaceParent(m, ep)
	var out []*model.Tree
	for _, t := range model.GenTrees(entryDocDefs(m, pep), max, a) {
		switch ep.kind(m) {
		case "entry":
			lm := ep.def(m).(*meta.List)
			l, ok := t.Lists[lm.Ident()]
			key := ep.Path[strings.LastIndex(ep.Path, "=")+1:]
			if !ok || len(l.Entries) != 1 || len(t.Leaves)+len(t.Conts)+len(t.Lists) != 1 {
				continue
			}
			if keyText(l.Entries[0].Leaves[lm.KeyMeta()[0].Ident()].Canon) != key || len(lm.KeyMeta()) != 1 {
				continue
			}
			out = append(out, t)
		case "container":
			_, id := splitLast(ep.Path)
			if _, ok := t.Conts[id]; ok && len(t.Leaves)+len(t.Conts)+len(t.Lists) == 1 {
				out = append(out, t)
			}
		case "list":
			_, id := splitLast(ep.Path)
			if _, ok := t.Lists[id]; ok && len(t.Leaves)+len(t.Conts)+len(t.Lists) == 1 {
				out = append(out, t)
			}
		}
	}
	return out
}
