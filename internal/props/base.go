// Package props holds one check per property.
package props

import (
	"encoding/json"
	"fmt"
)

type base struct {
	id    string
	level string
	rule  string
	sub   bool
}

func (b base) ID() string       { return b.id }
func (b base) Level() string    { return b.level }
func (b base) Rule() string     { return b.rule }
func (b base) Subprocess() bool { return b.sub }

func decode(c json.RawMessage, v interface{}) {
	if err := json.Unmarshal(c, v); err != nil {
		panic(fmt.Sprintf("bad case %s: %v", string(c), err))
	}
}

func sign(i int) int {
	if i < 0 {
		return -1
	}
	if i > 0 {
		return 1
	}
	return 0
}
