package props

import (
	"fmt"
	"math/big"
	"regexp"
	"sort"
	"strings"

	"github.com/freeconf/yang/node"
	"github.com/freeconf/yang/nodeutil"
	"github.com/freeconf/yang/val"
	"verif/internal/eng"
	"verif/internal/model"
	"verif/internal/store"
)

// C10 part "xmltext": the value is still the text of an XML element when it reaches the library.
// Every text over a small alphabet (white space of three kinds, a letter, a digit, a sign) up to
// length 3, plus texts with markup characters, is written as the content of a leaf, leaf-list entry,
// list key, leafref and union element and read with ReadXMLDoc + UpsertFrom. For the string types what
// is stored is exactly the text (white space is part of a string); for numbers and booleans white
// space around the lexical form is insignificant and what is stored is exactly the number / truth
// value the form denotes; a text that is no lexical form of the type is an error.

var c10XMLPlaces = []string{"s", "ss", "rs", "rss", "key", "un", "i", "is", "b", "d"}

func c10XMLCases(emit func(interface{})) {
	for _, pl := range c10XMLPlaces {
		emit(c10Case{Part: "xmltext", Schema: pl})
	}
}

func c10XMLTexts() []string {
	alpha := []string{" ", "\n", "\t", "a", "1", "-"}
	out := []string{}
	var rec func(prefix string, n int)
	rec = func(prefix string, n int) {
		if prefix != "" {
			out = append(out, prefix)
		}
		if n == 0 {
			return
		}
		for _, a := range alpha {
			rec(prefix+a, n-1)
		}
	}
	rec("", 3)
	out = append(out, " <&> ", "]]>", "a  b", " 127 ", "128", "-128", "-129", "+1", " +1", "01", "1.0", "1e1", "0x1", "١", "true", " true ", "false", "TRUE", "0", " t", "yes", "no", "np", "2", "1.50", " 1.5\n", "1.555", "  padded  ", "tail\n", "\nhead", "\r")
	return out
}

var c10XMLInt = regexp.MustCompile(`int`)
var c10XMLDec = regexp.MustCompile(`dec`)

func c10RunXMLText(c c10Case) eng.Result {
	var res eng.Result
	ss := &sigSet{res: &res}
	m := model.LoadText(`module xt { namespace "urn:xt"; prefix xt; revision 0;
  leaf s { type string; } leaf-list ss { type string; }
  leaf rs { type leafref { path "../s"; require-instance false; } }
  leaf-list rss { type leafref { path "../ss"; require-instance false; } }
  list l { key k; leaf k { type string; } leaf v { type string; } }
  leaf un { type union { type int8; type string; } }
  leaf i { type int8; } leaf-list is { type int8; }
  leaf b { type boolean; }
  leaf d { type decimal64 { fraction-digits 2; } } }`)
	ocs := map[string]bool{}
	pl := c.Schema
	for _, text := range c10XMLTexts() {
		forms := []string{xmlEsc(text)}
		if !strings.ContainsAny(text, "<&>\r") {
			forms = append(forms, text)
		} else if !strings.Contains(text, "]]>") && !strings.Contains(text, "\r") {
			forms = append(forms, "<![CDATA["+text+"]]>")
		}
		for fi, form := range forms {
			var body string
			switch pl {
			case "key":
				body = "<l><k>" + form + "</k><v>x</v></l>"
			case "ss", "rss", "is":
				// the entry under test between two plain ones
				plain := map[string][2]string{"ss": {"p", "q"}, "rss": {"p", "q"}, "is": {"7", "8"}}[pl]
				body = fmt.Sprintf("<%[1]s>%[2]s</%[1]s><%[1]s>%[3]s</%[1]s><%[1]s>%[4]s</%[1]s>", pl, plain[0], form, plain[1])
			default:
				body = "<" + pl + ">" + form + "</" + pl + ">"
			}
			doc := `<xt xmlns="urn:xt">` + body + `</xt>`
			ref := store.NewRef(nil)
			var err error
			fr, msg, pan := eng.Recover(func() {
				var n node.Node
				if n, err = nodeutil.ReadXMLDoc(strings.NewReader(doc)); err == nil {
					err = node.NewBrowser(m, ref.Node()).Root().UpsertFrom(n)
				}
			})
			res.Evals++
			res.Nontriv++
			class := "plain"
			switch {
			case strings.TrimSpace(text) == "":
				class = "only-white-space"
			case strings.TrimSpace(text) != text:
				class = "outer-white-space"
			case strings.ContainsAny(text, " \t\n"):
				class = "inner-white-space"
			case strings.ContainsAny(text, "<&>"):
				class = "markup"
			}
			site := fmt.Sprintf("C10/xmltext/%s/%s/%s", pl, []string{"escaped", "literal"}[fi], class)
			if pan {
				ss.add(site+"/panic:"+fr, fmt.Sprintf("%q: %s", doc, msg))
				continue
			}
			if err != nil {
				ocs["error"] = true
				// a string takes every text
				switch pl {
				case "s", "ss", "rs", "rss", "key", "un":
					if text != "" && !(pl == "key" && strings.TrimSpace(text) == "") {
						ss.add(site+"/text-refused", fmt.Sprintf("%q: %v", doc, err))
					}
				}
				continue
			}
			ocs["ok"] = true
			var got val.Value
			switch pl {
			case "key":
				if l := ref.T.Lists["l"]; l != nil && len(l.Entries) == 1 {
					got = l.Entries[0].Leaves["k"].V
				}
			case "ss", "rss", "is":
				if lf, ok := ref.T.Leaves[pl]; ok {
					if l, isList := lf.V.(val.Listable); isList && l.Len() == 3 {
						got = l.Item(1)
					} else if isList {
						ss.add(site+"/entries-lost", fmt.Sprintf("%q stored as %v", doc, lf.V))
						continue
					}
				}
			default:
				if lf, ok := ref.T.Leaves[pl]; ok {
					got = lf.V
				}
			}
			if got == nil {
				ss.add(site+"/accepted-but-nothing-stored", fmt.Sprintf("%q", doc))
				continue
			}
			trimmed := strings.TrimSpace(text)
			wantNumber := func(re *regexp.Regexp) {
				// the number a text denotes is judged generously (any form math/big reads, e.g. 1e1): the
				// property is about the number, not about which lexical forms are admitted
				want, denotes := new(big.Rat).SetString(trimmed)
				if !denotes {
					ss.add(site+"/no-lexical-form-accepted", fmt.Sprintf("%q stored as %v (%T)", doc, got, got))
					return
				}
				g, isNum := goNumber(got.Value())
				if !isNum {
					ss.add(site+"/not-a-number", fmt.Sprintf("%q stored as %v (%T)", doc, got, got))
					return
				}
				if re == c10XMLDec {
					wf, _ := want.Float64()
					gf, _ := g.Float64()
					if wf != gf {
						ss.add(site+"/different-number", fmt.Sprintf("%q stored as %v", doc, got))
					}
					return
				}
				if g.Cmp(want) != 0 {
					ss.add(site+"/different-number", fmt.Sprintf("%q stored as %v", doc, got))
				}
			}
			switch pl {
			case "s", "ss", "rs", "rss", "key":
				if s, ok := got.Value().(string); !ok || s != text {
					ss.add(site+"/different-text", fmt.Sprintf("%q stored as %q (%T)", doc, got.Value(), got))
				}
			case "un":
				if got.Format() == val.FmtString {
					if s, _ := got.Value().(string); s != text {
						ss.add(site+"/different-text", fmt.Sprintf("%q stored as string %q", doc, s))
					}
				} else {
					wantNumber(c10XMLInt)
				}
			case "i", "is":
				wantNumber(c10XMLInt)
			case "d":
				wantNumber(c10XMLDec)
			case "b":
				// generous as well: the spellings strconv.ParseBool reads, and yes / no, denote a truth value
				bv, ok := got.Value().(bool)
				low := strings.ToLower(trimmed)
				isTrue, isFalse := low == "true" || low == "t" || low == "1" || low == "yes", low == "false" || low == "f" || low == "0" || low == "no"
				if !ok || (!isTrue && !isFalse) || bv != isTrue {
					ss.add(site+"/different-truth-value", fmt.Sprintf("%q stored as %v (%T)", doc, got, got))
				}
			}
		}
	}
	for k := range ocs {
		res.Outcomes = append(res.Outcomes, "xmltext:"+c.Schema+":"+k)
	}
	sort.Strings(res.Outcomes)
	return res
}
