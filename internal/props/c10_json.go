package props

import (
	"fmt"
	"math"
	"math/big"
	"sort"
	"strings"

	"github.com/freeconf/yang/meta"
	"github.com/freeconf/yang/node"
	"github.com/freeconf/yang/nodeutil"
	"github.com/freeconf/yang/val"
	"verif/internal/eng"
	"verif/internal/model"
	"verif/internal/store"
)

// C10 part "jsontext": the number is still text when it reaches the library. Every literal of the
// alphabet is written as a JSON number (and as a JSON string) into a leaf, a leaf-list and a list key
// of every numeric type through ReadJSON + UpsertFrom; what is stored must denote exactly the number
// the literal denotes (decimal64: its nearest float64), or the edit must fail.

// c10JSONLiterals: decimal literals around every type bound, 2^53, 10^16 and the float64 grid, in
// integer, ".0", fraction and exponent form.
func c10JSONLiterals() []string {
	seen := map[string]bool{}
	var out []string
	add := func(s string) {
		if !seen[s] {
			seen[s] = true
			out = append(out, s)
		}
	}
	one := big.NewInt(1)
	var ints []*big.Int
	for _, bits := range []int{8, 16, 32, 64} {
		for _, signed := range []bool{true, false} {
			lo, hi := kindRange(bits, signed)
			for _, b := range []*big.Int{lo, hi} {
				for d := -2; d <= 2; d++ {
					ints = append(ints, new(big.Int).Add(b, big.NewInt(int64(d))))
				}
			}
		}
	}
	p53 := new(big.Int).Lsh(one, 53)
	e16, _ := new(big.Int).SetString("10000000000000000", 10)
	for _, c := range []*big.Int{p53, new(big.Int).Neg(p53), e16, new(big.Int).Neg(e16)} {
		for d := -3; d <= 3; d++ {
			ints = append(ints, new(big.Int).Add(c, big.NewInt(int64(d))))
		}
	}
	for _, s := range []string{"0", "1", "-1", "5", "42", "100", "9007199254740995", "9999999999999999", "99999999999999999", "-9999999999999999", "123456789012345678", "18446744073709551616000", "-18446744073709551616000"} {
		n, _ := new(big.Int).SetString(s, 10)
		ints = append(ints, n)
	}
	for _, n := range ints {
		add(n.String())
		add(n.String() + ".0")
	}
	for _, s := range []string{"-0", "0.0", "-0.0", "0.5", "1.5", "-1.5", "2.50", "127.5", "255.9", "1e2", "1E2", "1e+2", "1.5e1", "15e-1", "1e-2", "12e-1", "1e19", "1e20", "-1e19", "9.223372036854775807e18", "9.223372036854775808e18", "1.8446744073709551615e19", "1e300", "-1e300", "1e-300", "0.01", "92233720368547758.07", "92233720368547758.08", "-92233720368547758.08", "-92233720368547758.09"} {
		add(s)
	}
	return out
}

func c10LiteralRat(s string) *big.Rat {
	r, ok := new(big.Rat).SetString(s)
	if !ok {
		panic("harness: literal " + s)
	}
	return r
}

var c10JSONLeaves = []string{"i8", "i16", "i32", "i64", "u8", "u16", "u32", "u64", "d2"}

func c10JSONCases(emit func(interface{})) {
	for _, lf := range c10JSONLeaves {
		emit(c10Case{Part: "jsontext", Schema: lf})
	}
}

func c10LiteralClass(target string, r *big.Rat) string {
	lo, hi, isInt := intTargetRange(target)
	if !isInt {
		if r.IsInt() {
			return "integral"
		}
		return "fractional"
	}
	switch {
	case !r.IsInt():
		return "fractional"
	case r.Num().Cmp(lo) < 0:
		return "below-min"
	case r.Num().Cmp(hi) > 0:
		return "above-max"
	case r.Num().BitLen() > 53:
		return "in-range-beyond-2^53"
	}
	return "in-range"
}

func c10RunJSONText(c c10Case) eng.Result {
	var res eng.Result
	ss := &sigSet{res: &res}
	// leaf, leaf-list and key of the type under test
	yang := map[string]string{"i8": "int8", "i16": "int16", "i32": "int32", "i64": "int64", "u8": "uint8", "u16": "uint16", "u32": "uint32", "u64": "uint64", "d2": "decimal64 { fraction-digits 2; }"}[c.Schema]
	m := model.LoadText(fmt.Sprintf(`module jn { namespace "urn:jn"; prefix jn; revision 0;
  leaf x { type %[1]s } leaf-list xs { type %[1]s } list l { key k; leaf k { type %[1]s } leaf v { type string; } }
  leaf un { type union { type %[1]s type string; } } }`, map[bool]string{true: yang, false: yang + ";"}[strings.HasSuffix(yang, "}")]))
	target := map[string]string{"d2": "decimal64"}[c.Schema]
	if target == "" {
		target = yang
	}
	ocs := map[string]bool{}
	for _, lit := range c10JSONLiterals() {
		want := c10LiteralRat(lit)
		for _, form := range []string{"number", "string"} {
			text := lit
			if form == "string" {
				text = `"` + lit + `"`
			}
			for _, place := range []string{"leaf", "leaf-list", "key", "union"} {
				doc := map[string]string{"leaf": `{"x":%s}`, "leaf-list": `{"xs":[%s]}`, "key": `{"l":[{"k":%s}]}`, "union": `{"un":%s}`}[place]
				doc = fmt.Sprintf(doc, text)
				ref := store.NewRef(nil)
				var err error
				fr, msg, pan := eng.Recover(func() {
					var n node.Node
					if n, err = nodeutil.ReadJSON(doc); err == nil {
						err = node.NewBrowser(m, ref.Node()).Root().UpsertFrom(n)
					}
				})
				res.Evals++
				res.Nontriv++
				site := fmt.Sprintf("C10/jsontext/%s/%s/%s/%s", target, place, form, c10LiteralClass(target, want))
				if pan {
					ss.add(site+"/panic:"+fr, doc+": "+msg)
					continue
				}
				if err != nil {
					ocs["error"] = true
					continue
				}
				ocs["ok"] = true
				var got val.Value
				switch place {
				case "leaf":
					got = ref.T.Leaves["x"].V
				case "union":
					got = ref.T.Leaves["un"].V
				case "leaf-list":
					if l, ok := ref.T.Leaves["xs"].V.(val.Listable); ok && l.Len() == 1 {
						got = l.Item(0)
					}
				case "key":
					if l := ref.T.Lists["l"]; l != nil && len(l.Entries) == 1 {
						got = l.Entries[0].Leaves["k"].V
					}
				}
				if got == nil {
					ss.add(site+"/accepted-but-nothing-stored", doc)
					continue
				}
				if place == "union" && got.Format() == val.FmtString {
					// the string member took it. A JSON string is taken as it is; for a JSON number the text
					// has to denote the same number (fractions are the float-to-string finding of part conv)
					if form == "string" {
						if got.String() != lit {
							ss.add(site+"/different-text", fmt.Sprintf("%s stored as string %q", doc, got.String()))
						}
					} else if want.IsInt() {
						if back, ok := new(big.Rat).SetString(got.String()); !ok || back.Cmp(want) != 0 {
							ss.add(site+"/different-number-as-text", fmt.Sprintf("%s stored as string %q", doc, got.String()))
						}
					}
					continue
				}
				g, isNum := goNumber(got.Value())
				if !isNum {
					ss.add(site+"/not-a-number", fmt.Sprintf("%s stored as %v (%T)", doc, got, got))
					continue
				}
				if target == "decimal64" {
					wf, _ := want.Float64()
					gf, _ := g.Float64()
					if math.IsInf(wf, 0) || gf != wf {
						ss.add(site+"/different-number", fmt.Sprintf("%s stored as %v", doc, got))
					}
					continue
				}
				if g.Cmp(want) != 0 {
					ss.add(site+"/different-number", fmt.Sprintf("%s stored as %s", doc, g.RatString()))
				}
			}
		}
	}
	for k := range ocs {
		res.Outcomes = append(res.Outcomes, "jsontext:"+c.Schema+":"+k)
	}
	sort.Strings(res.Outcomes)
	_ = strings.TrimSpace
	_ = meta.IsLeaf
	return res
}
