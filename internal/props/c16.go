package props

import (
	"encoding/json"
	"fmt"
	"math/big"
	"net/url"
	"strconv"
	"strings"

	"github.com/freeconf/yang/meta"
	"github.com/freeconf/yang/node"
	"github.com/freeconf/yang/nodeutil"
	"github.com/freeconf/yang/val"
	"github.com/freeconf/yang/xpath"
	"verif/internal/eng"
	"verif/internal/model"
	"verif/internal/store"
)

// C16 — when, where and filter hide exactly what their expression excludes.

type c16 struct{ base }

func init() {
	eng.Register(&c16{base{id: "C16", level: "exploration",
		rule: "full matrix operand type (13) x literal x operator (6) x operand value {unset, below, equal, above, type min, type max} x placement {when on a leaf (read and edit), when on a container, where on a list, filter on a notification}; each cell loads a generated module and runs the real read/edit/subscription; the reference is the mathematical truth of the comparison (big numbers, code points, enum name/value, boolean), false when the operand is unset. Non-trivial = distinct (placement,type,literal,operator,operand) cell"}})
}

type c16Case struct {
	Part    string `json:"part,omitempty"`
	Type    string `json:"type"`
	Literal string `json:"literal"`
	Op      string `json:"op"`
}

type c16Type struct {
	name    string
	yang    string
	literal []string // literals as written in the expression
}

var c16Ops = []string{"=", "!=", "<", "<=", ">", ">="}

var c16Types = []c16Type{
	{"int8", "int8", []string{"10", "-5", "0.5", "010", "08"}},
	{"int16", "int16", []string{"10", "-300"}},
	{"int32", "int32", []string{"10", "-70000", "10.5"}},
	{"int64", "int64", []string{"10", "-5000000000", "9007199254740993"}},
	{"uint8", "uint8", []string{"10", "200"}},
	{"uint16", "uint16", []string{"10", "40000", "0100", "009"}},
	{"uint32", "uint32", []string{"10", "3000000000"}},
	{"uint64", "uint64", []string{"10", "9223372036854775807", "9223372036854775808", "18446744073709551615", "0.5"}},
	{"decimal64", "decimal64 { fraction-digits 2; }", []string{"1.5", "-1.5", "10", "010", "01.5"}},
	{"string", "string", []string{"'m'", "'ab'"}},
	// XPath 1.0 3.4: a string compared with a number counts as the number it reads as (NaN if none)
	{"string-number", "string", []string{"2", "1.5", "-3", "010"}},
	{"boolean", "boolean", []string{"'true'", "'false'"}},
	{"enumeration", "enumeration { enum zero; enum one; enum five { value 5; } }", []string{"'one'", "'five'"}},
	{"identityref", "identityref { base base-id; }", []string{"'id-b'"}},
}

func (p *c16) Bounds(tier string) map[string]interface{} {
	return map[string]interface{}{"types": 13, "operators": c16Ops, "placements": []string{"leaf-when/read", "leaf-when/edit", "container-when/read", "where", "filter"},
		"operand_values": "unset, literal-1, literal, literal+1 (neighbours in the type's order), type minimum, type maximum", "quick=thorough": true}
}

func (p *c16) Cases(tier string, emit func(interface{})) {
	for _, op := range c16Ops {
		emit(c16Case{Part: "place", Op: op})
	}
	for _, t := range c16Types {
		for _, l := range t.literal {
			for _, op := range c16Ops {
				emit(c16Case{Type: t.name, Literal: l, Op: op})
			}
		}
	}
}

type c16Operand struct {
	class string
	v     val.Value // nil = unset
}

func c16TypeBy(name string) c16Type {
	for _, t := range c16Types {
		if t.name == name {
			return t
		}
	}
	panic(name)
}

// c16Operands: values around the literal plus the type's extremes, typed via the compiled leaf.
func c16Operands(lf meta.Leafable, typ, literal string) ([]c16Operand, val.Value) {
	t := lf.Type()
	lit := strings.Trim(literal, "'")
	mk := func(s string) val.Value { return model.ParseScalar(t, s) }
	out := []c16Operand{{"unset", nil}}
	var litV val.Value
	switch typ {
	case "int8", "int16", "int32", "int64", "uint8", "uint16", "uint32", "uint64":
		n, isInt := new(big.Int).SetString(lit, 10)
		frac := !isInt
		if frac {
			// a literal with a fraction against an integer leaf: operands are the integers around it
			f, _ := new(big.Float).SetString(lit)
			n, _ = f.Int(nil)
		}
		bits := map[string]int{"int8": 8, "int16": 16, "int32": 32, "int64": 64, "uint8": 8, "uint16": 16, "uint32": 32, "uint64": 64}[typ]
		lo, hi := kindRange(bits, !strings.HasPrefix(typ, "u"))
		add := func(class string, b *big.Int) {
			if b.Cmp(lo) >= 0 && b.Cmp(hi) <= 0 {
				out = append(out, c16Operand{class, mkInt(typ, b)})
			}
		}
		add("below", new(big.Int).Sub(n, big.NewInt(1)))
		add("equal", n)
		add("above", new(big.Int).Add(n, big.NewInt(1)))
		add("type-min", lo)
		add("type-max", hi)
		litV = mkInt(typ, n)
		if frac {
			fl, _ := strconv.ParseFloat(lit, 64)
			litV = val.Decimal64(fl)
			for i := range out {
				if out[i].class == "equal" {
					out[i].class = "below" // floor of the literal
				}
			}
		}
	case "decimal64":
		f := mk(lit).(val.Decimal64)
		out = append(out, c16Operand{"below", f - 0.01}, c16Operand{"equal", f}, c16Operand{"above", f + 0.01}, c16Operand{"type-min", val.Decimal64(-92233720368547758.08)}, c16Operand{"type-max", val.Decimal64(92233720368547758.07)})
		litV = f
	case "string":
		below := lit[:len(lit)-1] + string(rune(lit[len(lit)-1]-1))
		out = append(out, c16Operand{"below", val.String(below)}, c16Operand{"equal", val.String(lit)}, c16Operand{"above", val.String(lit + "a")}, c16Operand{"type-min", val.String("")}, c16Operand{"above", val.String("é")}, c16Operand{"below", val.String(strings.ToUpper(lit))})
		litV = val.String(lit)
	case "string-number":
		f, _ := strconv.ParseFloat(lit, 64)
		out = append(out, c16Operand{"below", val.String(strconv.FormatFloat(f-1, 'f', -1, 64))}, c16Operand{"equal", val.String(lit)}, c16Operand{"equal-other-spelling", val.String(lit + "0")}, c16Operand{"equal-padded", val.String(" " + lit + " ")},
			c16Operand{"above", val.String(strconv.FormatFloat(f+1, 'f', -1, 64))}, c16Operand{"above-longer-text", val.String("10")}, c16Operand{"not-a-number", val.String("abc")}, c16Operand{"not-a-number", val.String("")})
		if !strings.Contains(lit, ".") {
			out[3].v = val.String(lit + ".0")
		}
		litV = val.String(lit)
	case "boolean":
		out = append(out, c16Operand{"value-false", val.Bool(false)}, c16Operand{"value-true", val.Bool(true)})
		litV = val.Bool(lit == "true")
	case "enumeration":
		for _, e := range t.Enum() {
			out = append(out, c16Operand{"enum-" + e.Label, e})
		}
		litV = mk(lit)
	case "identityref":
		out = append(out, c16Operand{"id-a", val.IdentRef{Label: "id-a"}}, c16Operand{"id-b", val.IdentRef{Label: "id-b"}})
		litV = val.IdentRef{Label: lit}
	}
	return out, litV
}

// c16Truth: mathematical truth of "operand op literal"; false when unset.
func c16Truth(typ, op string, a, lit val.Value) bool {
	if a == nil {
		return false
	}
	var c int
	switch typ {
	case "string-number":
		ra, isNumber := new(big.Rat).SetString(strings.TrimSpace(string(a.(val.String))))
		if !isNumber {
			return op == "!="
		}
		rl, _ := new(big.Rat).SetString(string(lit.(val.String)))
		c = ra.Cmp(rl)
	case "string":
		c = strings.Compare(string(a.(val.String)), string(lit.(val.String)))
	case "identityref":
		c = strings.Compare(a.(val.IdentRef).Label, lit.(val.IdentRef).Label)
	case "boolean":
		ab, lb := 0, 0
		if bool(a.(val.Bool)) {
			ab = 1
		}
		if bool(lit.(val.Bool)) {
			lb = 1
		}
		c = ab - lb
	case "enumeration":
		ea, el := a.(val.Enum), lit.(val.Enum)
		if op == "=" || op == "!=" {
			c = strings.Compare(ea.Label, el.Label)
		} else {
			c = ea.Id - el.Id
		}
	case "decimal64":
		ra, rl := new(big.Rat), new(big.Rat)
		ra.SetFloat64(float64(a.(val.Decimal64)))
		rl.SetFloat64(float64(lit.(val.Decimal64)))
		c = ra.Cmp(rl)
	default:
		ra, _ := new(big.Rat).SetString(model.Lex(a))
		rl, _ := new(big.Rat).SetString(model.Lex(lit))
		c = ra.Cmp(rl)
	}
	switch op {
	case "=":
		return c == 0
	case "!=":
		return c != 0
	case "<":
		return c < 0
	case "<=":
		return c <= 0
	case ">":
		return c > 0
	case ">=":
		return c >= 0
	}
	panic(op)
}

func c16Module(t c16Type, op, literal string) string {
	expr := op + literal
	ty := t.yang + ";"
	if strings.HasSuffix(t.yang, "}") {
		ty = t.yang
	}
	return fmt.Sprintf(`module w { namespace "urn:w"; prefix w; revision 0;
  identity base-id; identity id-a { base base-id; } identity id-b { base base-id; }
  leaf z { type %[1]s }
  leaf y { when "z%[2]s"; type string; }
  container c { when "cz%[2]s"; leaf cz { type %[1]s } leaf q { type string; } }
  list l { key k; leaf k { type string; } leaf z { type %[1]s } }
  list lw { when "z%[2]s"; key k; leaf k { type string; } leaf z { type %[1]s } }
  notification n { leaf z { type %[1]s } leaf tag { type string; } }
}`, ty, expr)
}

func (p *c16) Run(raw json.RawMessage) eng.Result {
	var c c16Case
	decode(raw, &c)
	if c.Part == "place" {
		return c16RunPlace(c.Op)
	}
	var res eng.Result
	ss := &sigSet{res: &res}
	ty := c16TypeBy(c.Type)
	text := c16Module(ty, c.Op, c.Literal)
	var m *meta.Module
	fr, msg, pan := eng.Recover(func() { m = model.LoadText(text) })
	if pan {
		res.Add("C16/harness/module-does-not-load", fr+": "+msg)
		return res
	}
	if _, perr := xpath.Parse("z" + c.Op + c.Literal); perr != nil {
		// a name, one of the six operators and a number (signed, with a fraction) or a quoted string:
		// every expression of this matrix is a comparison the property is about
		class := "literal"
		if strings.HasPrefix(c.Literal, "-") {
			class = "negative-literal"
		}
		res.Add(fmt.Sprintf("C16/parse/%s/%s/comparison-refused", c.Type, class), "z"+c.Op+c.Literal+": "+perr.Error())
		return res
	}
	zLeaf := m.Definition("z").(meta.Leafable)
	operands, lit := c16Operands(zLeaf, c.Type, c.Literal)
	opName := map[string]string{"=": "eq", "!=": "ne", "<": "lt", "<=": "le", ">": "gt", ">=": "ge"}[c.Op]
	report := func(placement, class, sym, what string) {
		ss.add(fmt.Sprintf("C16/%s/%s/%s/%s/%s", placement, opName, c.Type, class, sym), fmt.Sprintf("%s%s%s: %s", "z", c.Op, c.Literal, what))
	}
	for _, o := range operands {
		truth := c16Truth(c.Type, c.Op, o.v, lit)
		desc := "operand unset"
		if o.v != nil {
			desc = "operand " + model.CanonVal(o.v)
		}
		// A. when on a leaf, read
		{
			t := model.NewTree()
			if o.v != nil {
				t.Leaves["z"] = model.L(o.v)
			}
			t.Leaves["y"] = model.L(val.String("yy"))
			got := model.NewTree()
			var err error
			fr, msg, pan := eng.Recover(func() {
				err = node.NewBrowser(m, store.NewRef(t).Node()).Root().UpsertInto(store.ContainerNode(got))
			})
			res.Evals++
			res.Nontriv++
			_, has := got.Leaves["y"]
			switch {
			case pan:
				report("leaf-when/read", o.class, "panic:"+fr, desc+": "+msg)
			case err != nil:
				report("leaf-when/read", o.class, "error-aborts-read", desc+": "+err.Error())
			case has != truth:
				report("leaf-when/read", o.class, fmt.Sprintf("visible-%v-want-%v", has, truth), desc)
			default:
				if _, zok := got.Leaves["z"]; zok != (o.v != nil) {
					report("leaf-when/read", o.class, "other-node-affected", desc)
				}
			}
		}
		// B. when on a container, read
		{
			t := model.NewTree()
			cc := model.NewTree()
			if o.v != nil {
				cc.Leaves["cz"] = model.L(o.v)
			}
			cc.Leaves["q"] = model.L(val.String("qq"))
			t.Conts["c"] = cc
			got := model.NewTree()
			var err error
			fr, msg, pan := eng.Recover(func() {
				err = node.NewBrowser(m, store.NewRef(t).Node()).Root().UpsertInto(store.ContainerNode(got))
			})
			res.Evals++
			res.Nontriv++
			gc, has := got.Conts["c"]
			switch {
			case pan:
				report("container-when/read", o.class, "panic:"+fr, desc+": "+msg)
			case err != nil:
				report("container-when/read", o.class, "error-aborts-read", desc+": "+err.Error())
			case has != truth:
				report("container-when/read", o.class, fmt.Sprintf("visible-%v-want-%v", has, truth), desc)
			case has:
				if kd, w := model.Diff(m.DataDefinitions(), t, got, model.CanonOpts{}, ""); kd != "" {
					report("container-when/read", o.class, "content/"+kd, desc+": "+w)
				}
				_ = gc
			}
		}
		// C. when on a leaf, edit: the target already holds z
		{
			tgt := model.NewTree()
			src := model.NewTree()
			if o.v != nil {
				tgt.Leaves["z"] = model.L(o.v)
				src.Leaves["z"] = model.L(o.v)
			}
			src.Leaves["y"] = model.L(val.String("yy"))
			ts := store.NewRef(tgt)
			var err error
			fr, msg, pan := eng.Recover(func() {
				err = node.NewBrowser(m, ts.Node()).Root().UpsertFrom(store.ContainerNode(src))
			})
			res.Evals++
			res.Nontriv++
			_, has := ts.T.Leaves["y"]
			switch {
			case pan:
				report("leaf-when/edit", o.class, "panic:"+fr, desc+": "+msg)
			case err != nil:
				report("leaf-when/edit", o.class, "error-aborts-edit", desc+": "+err.Error())
			case has != truth:
				report("leaf-when/edit", o.class, fmt.Sprintf("written-%v-want-%v", has, truth), desc)
			}
		}
	}
	// D. where: one list with an entry per operand
	{
		t := model.NewTree()
		l := &model.List{}
		var want []string
		for i, o := range operands {
			e := model.NewTree()
			k := fmt.Sprintf("k%d", i)
			e.Leaves["k"] = model.L(val.String(k))
			if o.v != nil {
				e.Leaves["z"] = model.L(o.v)
			}
			l.Entries = append(l.Entries, e)
			if c16Truth(c.Type, c.Op, o.v, lit) {
				want = append(want, k)
			}
		}
		t.Lists["l"] = l
		got := &model.List{}
		var err error
		fr, msg, pan := eng.Recover(func() {
			var sel *node.Selection
			sel, err = node.NewBrowser(m, store.NewRef(t).Node()).Root().Find("l?where=" + url.QueryEscape("z"+c.Op+c.Literal))
			if err == nil && sel != nil {
				err = sel.UpsertInto(store.ListNode(got, m.Definition("l").(*meta.List)))
			}
		})
		res.Evals++
		res.Nontriv += int64(len(operands))
		var keys []string
		for _, e := range got.Entries {
			keys = append(keys, keyText(e.Leaves["k"].Canon))
		}
		switch {
		case pan:
			report("where", "all", "panic:"+fr, msg)
		case err != nil:
			report("where", "all", "error-aborts-read", err.Error())
		case strings.Join(keys, ",") != strings.Join(want, ","):
			// name the first operand class that is wrong
			gotSet := map[string]bool{}
			for _, k := range keys {
				gotSet[k] = true
			}
			cls := "order"
			for i, o := range operands {
				k := fmt.Sprintf("k%d", i)
				if gotSet[k] != c16Truth(c.Type, c.Op, o.v, lit) {
					cls = o.class + fmt.Sprintf("/kept-%v", gotSet[k])
					break
				}
			}
			report("where", cls, "wrong-entries", fmt.Sprintf("kept %v want %v", keys, want))
		}
	}
	// F. when on a list: entries are visible exactly when it holds for them (same context rule as containers)
	{
		t := model.NewTree()
		l := &model.List{}
		var want []string
		for i, o := range operands {
			e := model.NewTree()
			k := fmt.Sprintf("k%d", i)
			e.Leaves["k"] = model.L(val.String(k))
			if o.v != nil {
				e.Leaves["z"] = model.L(o.v)
			}
			l.Entries = append(l.Entries, e)
			if c16Truth(c.Type, c.Op, o.v, lit) {
				want = append(want, k)
			}
		}
		t.Lists["lw"] = l
		got := model.NewTree()
		var err error
		fr, msg, pan := eng.Recover(func() {
			err = node.NewBrowser(m, store.NewRef(t).Node()).Root().UpsertInto(store.ContainerNode(got))
		})
		res.Evals++
		res.Nontriv += int64(len(operands))
		var keys []string
		if gl, ok := got.Lists["lw"]; ok {
			for _, e := range gl.Entries {
				keys = append(keys, keyText(e.Leaves["k"].Canon))
			}
		}
		switch {
		case pan:
			report("list-when/read", "all", "panic:"+fr, msg)
		case err != nil:
			report("list-when/read", "all", "error-aborts-read", err.Error())
		case strings.Join(keys, ",") != strings.Join(want, ","):
			report("list-when/read", "all", "wrong-entries", fmt.Sprintf("visible %v want %v", keys, want))
		}
		// the same entries addressed one by one: an entry the when hides is not there for Find either,
		// neither the entry nor a leaf below it, and an edit through the path does not write it
		wantSet := map[string]bool{}
		for _, k := range want {
			wantSet[k] = true
		}
		for i := range operands {
			k := fmt.Sprintf("k%d", i)
			for _, path := range []string{"lw=" + k, "lw=" + k + "/z", "lw=" + k + "/k"} {
				if strings.HasSuffix(path, "/z") && operands[i].v == nil {
					continue
				}
				var sel *node.Selection
				var ferr error
				fr, msg, pan := eng.Recover(func() {
					sel, ferr = node.NewBrowser(m, store.NewRef(t.Clone()).Node()).Root().Find(path)
				})
				res.Evals++
				switch {
				case pan:
					report("list-when/find", operands[i].class, "panic:"+fr, path+": "+msg)
				case ferr == nil && (sel != nil) != wantSet[k]:
					report("list-when/find", operands[i].class, fmt.Sprintf("found-%v-want-%v", sel != nil, wantSet[k]), "Find("+path+")")
				case ferr != nil && wantSet[k]:
					report("list-when/find", operands[i].class, "error-for-visible-entry", "Find("+path+"): "+ferr.Error())
				}
			}
		}
	}
	// E. filter on a notification stream
	{
		var events []node.Node
		for i, o := range operands {
			e := model.NewTree()
			e.Leaves["tag"] = model.L(val.String(fmt.Sprintf("k%d", i)))
			if o.v != nil {
				e.Leaves["z"] = model.L(o.v)
			}
			events = append(events, store.ContainerNode(e))
		}
		var want []string
		for i, o := range operands {
			if c16Truth(c.Type, c.Op, o.v, lit) {
				want = append(want, fmt.Sprintf("k%d", i))
			}
		}
		root := &nodeutil.Basic{
			OnNotify: func(r node.NotifyRequest) (node.NotifyCloser, error) {
				for _, ev := range events {
					r.Send(ev)
				}
				return func() error { return nil }, nil
			},
		}
		var got []string
		var err error
		var streamErr string
		fr, msg, pan := eng.Recover(func() {
			var sel *node.Selection
			sel, err = node.NewBrowser(m, root).Root().Find("n?filter=" + url.QueryEscape("z"+c.Op+c.Literal))
			if err != nil || sel == nil {
				return
			}
			_, err = sel.Notifications(func(n node.Notification) {
				v, gerr := n.Event.GetValue("tag")
				if gerr != nil {
					streamErr = gerr.Error()
					return
				}
				got = append(got, model.Lex(v))
			})
		})
		res.Evals++
		res.Nontriv += int64(len(operands))
		switch {
		case pan:
			report("filter", "all", "panic:"+fr, msg)
		case err != nil:
			report("filter", "all", "error", err.Error())
		case streamErr != "":
			report("filter", "all", "error-event-delivered", streamErr)
		case strings.Join(got, ",") != strings.Join(want, ","):
			gotSet := map[string]bool{}
			for _, k := range got {
				gotSet[k] = true
			}
			cls := "order"
			for i, o := range operands {
				k := fmt.Sprintf("k%d", i)
				if gotSet[k] != c16Truth(c.Type, c.Op, o.v, lit) {
					cls = o.class + fmt.Sprintf("/delivered-%v", gotSet[k])
					break
				}
			}
			report("filter", cls, "wrong-events", fmt.Sprintf("delivered %v want %v", got, want))
		}
	}
	res.Outcomes = []string{c.Type + c.Op}
	return res
}
