package props

import (
	"encoding/json"
	"fmt"
	"net/url"
	"sort"
	"strings"
	"time"

	"github.com/freeconf/yang/meta"
	"github.com/freeconf/yang/node"
	"github.com/freeconf/yang/nodeutil"
	"verif/internal/eng"
	"verif/internal/model"
	"verif/internal/store"
)

// C13 — no request content can crash the library once the schema is valid.

type c13 struct{ base }

func init() {
	model.Schemas["req"] = `module req { namespace "urn:req"; prefix r; revision 0;
  leaf top { type string; }
  container c { leaf a { type string; } leaf n { type int32 { range "min..10"; } } container d { leaf x { type string; } }
    leaf-list ll { type string; } leaf-list le { type enumeration { enum one; enum two; } } leaf-list li { type int8; } leaf-list lb { type bits { bit x; } } leaf e { type enumeration { enum one; enum two; } } leaf b { type boolean; }
    leaf u { type union { type int32; type string; } } leaf em { type empty; } leaf bits { type bits { bit x; bit y; } }
    leaf lr { type leafref { path "../a"; } } leaf dec { type decimal64 { fraction-digits 2; } } leaf u64 { type uint64; }
    leaf nk { type int32 { range "1..5 | max"; } } leaf sk { type string { length "min | 4..8"; } } leaf dk { type decimal64 { fraction-digits 2; range "min | 0..1"; } } leaf uk { type uint8 { range "max"; } } anydata any; action cact { input { leaf i { type string; } } } notification cev { leaf x { type string; } } }
  list l { key k; leaf k { type string; } leaf v { type int32; } leaf-list tags { type string; } anydata any; action cact { input { leaf i { type string; } } } notification cev { leaf x { type string; } } container m { leaf z { type string; } }
    list n { key "a b"; leaf a { type string; } leaf b { type int32; } leaf w { type string; } } }
  list i { key k; leaf k { type int32; } leaf v { type string; } }
  choice ch { case x { leaf x1 { type string; } } case y { container y1 { leaf q { type string; } } } }
  rpc act { input { leaf i { type string; } } output { leaf o { type string; } } }
  notification ev { leaf x { type string; } }
}`
	eng.Register(&c13{base{id: "C13", level: "exploration", sub: true,
		rule: "against a valid schema with a non-trivial tree already stored: (a) every JSON value kind (19) substituted at every schema position (23) of a valid edit document, every byte prefix and every single-token mutation of valid JSON and XML documents, as Upsert/Insert/Update sources; (b) every Find path of up to 3 segments over a 40-segment alphabet (unknown names, keys on non-lists, steps below leaves, bad escapes, qualified names, '..') from two start selections; (c) every query parameter name x value alphabet and every pair; (d) every XPath text of up to 4 tokens over a 26-token alphabet as where=, filter= and when; (e) SetValue of 40 Go values/kinds on every leaf type. All in crash-proof worker processes with deadlines: a normal result or an error, never a panic, fatal error or hang; documents whose shape contradicts the schema must be errors; the stored tree must still be readable afterwards. Non-trivial = distinct request"}})
}

type c13Case struct {
	// Store: target node implementation for the edit kinds ("" = reference store)
	Store string `json:"store,omitempty"`
	Kind  string `json:"kind"` // json-kind | json-mut | xml-mut | path | query | xpath | setvalue
	From  int    `json:"from"`
	To    int    `json:"to"`
}

const c13Stored = `{"top":"t","c":{"a":"a","n":5,"d":{"x":"x"},"ll":["p","q"],"e":"one","b":true,"u":7,"bits":"x","lr":"a","dec":1.5,"u64":"9"},"l":[{"k":"a","v":1,"tags":["t1","t2"],"m":{"z":"z"},"n":[{"a":"p","b":1,"w":"w"}]},{"k":"b"}],"i":[{"k":1,"v":"one"}],"x1":"x"}`

func (p *c13) Bounds(tier string) map[string]interface{} {
	return map[string]interface{}{"json_kinds": len(c13JSONKinds), "positions": len(c13Positions), "path_segments": len(c13Segs), "path_length": 3, "xpath_tokens": len(c13XTokens), "xpath_length": c13XLen(tier), "query_values": len(c13QVals), "setvalue_values": "see c13GoValues"}
}

func c13XLen(tier string) int {
	if tier == "thorough" {
		return 4
	}
	return 3
}

var c13JSONKinds = []string{`null`, `true`, `0`, `-1`, `1.5`, `1e99`, `"s"`, `""`, `[]`, `[0]`, `["a"]`, `[null]`, `{}`, `{"x":0}`, `[[1]]`, `[{}]`, `[{"k":1}]`, `[{"k":"a"},{"k":"a"}]`, `[{"v":1}]`}

// positions: path of member names into the valid document (list entries by index)
// (x1 and y1 are members of two cases of one choice: never both in one document)
var c13Positions = []string{"top", "c", "c/a", "c/n", "c/d", "c/d/x", "c/ll", "c/le", "c/li", "c/lb", "c/e", "c/b", "c/u", "c/em", "c/bits", "c/lr", "c/dec", "c/u64", "c/nk", "c/sk", "c/dk", "c/uk", "l", "l/0", "l/0/k", "l/0/m", "l/0/n", "l/0/n/0", "l/0/n/0/b", "i", "i/0/k", "x1", "y1", "zz", "c/zz", "l/0/zz", "zz:top", "req:top", "act", "ev"}

var c13Segs = []string{"c", "d", "a", "zz", "l", "l=a", "l=zz", "l=a,b", "l=", "i=1", "i=x", "i=1.5", "i=99999999999", "c=a", "top", "top=a", "act", "ev", "..", ".", "", "%zz", "%2F", "req:c", "zz:c", ":", "=", ",", "l==a", "n=p,1", "n=p", "n=p,x", "m", "x1", "y1", "ch", "x", "?", "?depth=1", "?depth=x", "#", "ll", "ll=p", "e", "act/input", "lr"}

var c13QNames = []string{"depth", "content", "fields", "fc.xfields", "with-defaults", "fc.range", "fc.max-node-count", "where", "filter", "zz"}
var c13QVals = []string{"", "1", "-1", "99999999999999999999", "a", "a/", "/", "(", ")", ";", "!", "!-", "l!1-", "l!x-y", "l!1-2", "l!-1", "l!-1-2", "l!-4-", "i!-1", "l!1--2", "l!-", "l!99999999999999999999", "((", "a(b", "a;b)", "c/d", "c(a;d/x)", "l/n", "zz", "%zz", "a=1", "k='a'", "k=", "='a'", "config", "trim"}

var c13XTokens = []string{"a", "k", "v", "tags", "any", "cact", "cev", "zz", "c", "d", "l", "/", ":", "=", "!=", "<", "<=", ">", ">=", "10", "-10", "1.5", "'lit'", "'", "(", ")", "[", "]", "*", ".", "..", " "}

func c13Words(alpha []string, maxLen int, sep string) []string {
	out := []string{""}
	var rec func(prefix []string)
	rec = func(prefix []string) {
		if len(prefix) > 0 {
			out = append(out, strings.Join(prefix, sep))
		}
		if len(prefix) == maxLen {
			return
		}
		for _, a := range alpha {
			rec(append(append([]string{}, prefix...), a))
		}
	}
	rec(nil)
	return out
}

var c13WordCache = map[string][]string{}

func c13Paths() []string {
	if w, ok := c13WordCache["paths"]; ok {
		return w
	}
	w := c13Words(c13Segs, 3, "/")
	c13WordCache["paths"] = w
	return w
}

func c13XPaths(n int) []string {
	key := fmt.Sprint("xp", n)
	if w, ok := c13WordCache[key]; ok {
		return w
	}
	w := c13Words(c13XTokens, n, "")
	// parameter sweeps: paths of 1..300 steps, long literals and numbers
	for k := 1; k <= 300; k++ {
		w = append(w, strings.Repeat("a/", k)+"a", strings.Repeat("../", k)+"a", strings.Repeat("c/", k)+"v=10",
			"v="+strings.Repeat("9", k), "a='"+strings.Repeat("x", k)+"'", strings.Repeat("c:", k)+"a")
	}
	c13WordCache[key] = w
	return w
}

func c13Queries() []string {
	if w, ok := c13WordCache["q"]; ok {
		return w
	}
	var out []string
	for _, n := range c13QNames {
		for _, v := range c13QVals {
			out = append(out, n+"="+url.QueryEscape(v))
		}
		out = append(out, n)
	}
	single := append([]string{}, out...)
	// pairs: every pair of names with 4 representative values each
	rep := []string{"1", "a/", "l!1-", "c(a;d/x)"}
	for i, a := range c13QNames {
		for _, b := range c13QNames[i+1:] {
			for _, va := range rep {
				for _, vb := range rep {
					out = append(out, a+"="+url.QueryEscape(va)+"&"+b+"="+url.QueryEscape(vb))
				}
			}
		}
	}
	_ = single
	c13WordCache["q"] = out
	return out
}

// JSON documents: substitute a kind at a position of the valid doc
func c13JSONDocs() []struct{ doc, pos, kind string } {
	var out []struct{ doc, pos, kind string }
	base := `{"top":"t2","c":{"a":"b","n":3,"d":{"x":"y"},"ll":["r"],"e":"two","b":false,"u":"s","em":[null],"bits":"y","lr":"b","dec":2.5,"u64":"10"},"l":[{"k":"a","v":2,"m":{"z":"y"},"n":[{"a":"p","b":1,"w":"x"}]},{"k":"c","v":3}],"i":[{"k":2,"v":"two"}]}`
	for _, pos := range c13Positions {
		for _, kind := range c13JSONKinds {
			var doc interface{}
			json.Unmarshal([]byte(base), &doc)
			var kv interface{}
			json.Unmarshal([]byte(kind), &kv)
			segs := strings.Split(pos, "/")
			cur := doc
			ok := true
			for i, s := range segs {
				last := i == len(segs)-1
				switch c := cur.(type) {
				case map[string]interface{}:
					if last {
						c[s] = kv
					} else {
						cur = c[s]
					}
				case []interface{}:
					idx := int(s[0] - '0')
					if idx >= len(c) {
						ok = false
					} else if last {
						c[idx] = kv
					} else {
						cur = c[idx]
					}
				default:
					ok = false
				}
				if !ok {
					break
				}
			}
			if !ok {
				continue
			}
			b, _ := json.Marshal(doc)
			out = append(out, struct{ doc, pos, kind string }{string(b), pos, kind})
		}
	}
	return out
}

func jsonTokens(text string) []yTok {
	var toks []yTok
	i := 0
	for i < len(text) {
		c := text[i]
		switch {
		case c == ' ':
			i++
		case strings.ContainsRune("{}[],:", rune(c)):
			toks = append(toks, yTok{i, i + 1})
			i++
		case c == '"':
			j := i + 1
			for j < len(text) && text[j] != '"' {
				if text[j] == '\\' {
					j++
				}
				j++
			}
			j++
			toks = append(toks, yTok{i, j})
			i = j
		default:
			j := i
			for j < len(text) && !strings.ContainsRune("{}[],: ", rune(text[j])) {
				j++
			}
			toks = append(toks, yTok{i, j})
			i = j
		}
	}
	return toks
}

func xmlTokens(text string) []yTok {
	var toks []yTok
	i := 0
	for i < len(text) {
		if text[i] == '<' {
			j := strings.IndexByte(text[i:], '>')
			if j < 0 {
				j = len(text) - i - 1
			}
			toks = append(toks, yTok{i, i + j + 1})
			i += j + 1
		} else {
			j := strings.IndexByte(text[i:], '<')
			if j < 0 {
				j = len(text) - i
			}
			toks = append(toks, yTok{i, i + j})
			i += j
		}
	}
	return toks
}

const c13ValidJSON = `{"top":"t2","c":{"a":"b","n":3,"d":{"x":"y"},"ll":["r","s"],"e":"two","b":false,"u":"s","em":[null],"bits":"x y"},"l":[{"k":"a","v":2,"m":{"z":"y"},"n":[{"a":"p","b":1,"w":"x"}]},{"k":"c","v":3}],"i":[{"k":2,"v":"two"}],"y1":{"q":"q"}}`
const c13ValidXML = `<req xmlns="urn:req"><top>t2</top><c><a>b</a><n>3</n><d><x>y</x></d><ll>r</ll><ll>s</ll><e>two</e><b>false</b><em/><bits>x y</bits></c><l><k>a</k><v>2</v><m><z>y</z></m><n><a>p</a><b>1</b><w>x</w></n></l><l><k>c</k></l><i><k>2</k></i><y1><q>q</q></y1></req>`

// mutations of a tokenised document: every prefix, every token deleted / duplicated / substituted
func c13Mutants(text string, toks []yTok, subst []string) []string {
	var out []string
	for i := 0; i <= len(text); i++ {
		out = append(out, text[:i])
	}
	for _, t := range toks {
		out = append(out, text[:t.start]+text[t.end:])
		out = append(out, text[:t.end]+text[t.start:t.end]+text[t.end:])
		for _, s := range subst {
			out = append(out, text[:t.start]+s+text[t.end:])
		}
	}
	return out
}

var c13JSONSubst = []string{"{", "}", "[", "]", ",", ":", `"x"`, "0", "null", "true", `"k"`, "1e999", "-", `"\u0000"`, `"\ud800"`}
var c13XMLSubst = []string{"<x>", "</x>", "<k>", "</k>", "<l>", "</l>", "<zz:a>", "<a b='1'>", "<![CDATA[x]]>", "<!-- c -->", "<?pi?>", "&amp;", "&bogus;", "text", "<req xmlns='urn:other'>", "<"}

func c13Env(impl string) (*meta.Module, *store.Ref, *node.Browser) {
	m := model.SharedSchema("req")
	t, err := model.FromJSON(m.DataDefinitions(), []byte(c13Stored))
	if err != nil {
		panic(err)
	}
	r := store.NewRef(t)
	base := r.Node()
	if impl == "json-reader" || impl == "xml-reader" {
		// the library's document readers serve the stored tree (read-side requests only)
		var err error
		if impl == "json-reader" {
			base, err = nodeutil.ReadJSON(c13Stored)
		} else {
			base, err = nodeutil.ReadXMLDoc(strings.NewReader("<req xmlns=\"urn:req\">" + xmlBody(m.DataDefinitions(), t) + "</req>"))
		}
		if err != nil {
			panic("harness: reader over the stored tree: " + err.Error())
		}
	} else if impl != "" && impl != "ref" {
		// a library node over Go maps, loaded directly
		st := store.New(impl)
		if !st.(interface {
			Load([]meta.Definition, *model.Tree) bool
		}).Load(m.DataDefinitions(), t) {
			panic("harness: cannot load the stored tree into " + impl)
		}
		base = st.Root()
	}
	b := node.NewBrowser(m, &nodeutil.Extend{Base: base,
		OnAction: func(p node.Node, r node.ActionRequest) (node.Node, error) { return nil, nil },
		OnNotify: func(p node.Node, r node.NotifyRequest) (node.NotifyCloser, error) {
			e := model.NewTree()
			r.Send(store.ContainerNode(e))
			return func() error { return nil }, nil
		}})
	return m, r, b
}

// readable: the stored tree can still be exported
func c13Readable(b *node.Browser) string {
	var err error
	fr, msg, pan := eng.Recover(func() { _, err = nodeutil.WriteJSON(b.Root()) })
	if pan {
		return "store-unreadable-afterwards/panic:" + fr + " " + msg
	}
	if err != nil {
		return "store-unreadable-afterwards/error " + err.Error()
	}
	return ""
}

// c13Fanouts: a prefix followed by 1..17 groups of two alternatives (flat, with a segment between
// the groups, nested, and with three alternatives to 11 groups)
func c13Fanouts() []string {
	var out []string
	for n := 1; n <= 17; n++ {
		out = append(out, "d"+strings.Repeat("(x;y)", n))
		out = append(out, "d"+strings.Repeat("(x;y)/z", n))
		out = append(out, "(a;n)"+strings.Repeat("(x;y)", n))
		out = append(out, "d"+strings.Repeat("(x;y", n)+strings.Repeat(")", n))
		if n <= 11 {
			out = append(out, "d"+strings.Repeat("(x;y;z)", n))
		}
	}
	return out
}

func (p *c13) sizes(tier string) map[string]int {
	return map[string]int{
		"json-kind": len(c13JSONDocs()),
		"json-mut":  len(c13Mutants(c13ValidJSON, jsonTokens(c13ValidJSON), c13JSONSubst)),
		"xml-mut":   len(c13Mutants(c13ValidXML, xmlTokens(c13ValidXML), c13XMLSubst)),
		"path":      len(c13Paths()),
		"query":     len(c13Queries()),
		"xpath":     len(c13XPaths(c13XLen(tier))),
		"setvalue":  len(c13SetValueCases()),
		"fanout":    len(c13Fanouts()),
	}
}

func (p *c13) Cases(tier string, emit func(interface{})) {
	sz := p.sizes(tier)
	var kinds []string
	for k := range sz {
		kinds = append(kinds, k)
	}
	sort.Strings(kinds)
	for _, k := range kinds {
		batch := 400
		if k == "xpath" || k == "path" {
			batch = 2000
		}
		for from := 0; from < sz[k]; from += batch {
			to := from + batch
			if to > sz[k] {
				to = sz[k]
			}
			kk := k
			if k == "xpath" {
				kk = fmt.Sprintf("xpath%d", c13XLen(tier))
			}
			emit(c13Case{Kind: kk, From: from, To: to})
			if k == "path" || k == "query" || k == "xpath" {
				// navigation and filters over the library's document readers as the data tree
				for _, st := range []string{"json-reader", "xml-reader"} {
					emit(c13Case{Store: st, Kind: kk, From: from, To: to})
				}
			}
			if k == "json-kind" || k == "json-mut" || k == "xml-mut" {
				// the same edit requests against the library's own nodes over Go maps
				for _, st := range []string{"reflect-map", "node-map"} {
					emit(c13Case{Store: st, Kind: kk, From: from, To: to})
				}
			}
		}
	}
}

func (p *c13) Split(raw json.RawMessage) []json.RawMessage {
	var c c13Case
	decode(raw, &c)
	if c.To-c.From <= 1 {
		return nil
	}
	var out []json.RawMessage
	// bisect in two steps to keep attribution cheap
	step := 1
	if c.To-c.From > 40 {
		step = (c.To - c.From + 19) / 20
	}
	for i := c.From; i < c.To; i += step {
		s := c
		s.From, s.To = i, i+step
		if s.To > c.To {
			s.To = c.To
		}
		b, _ := json.Marshal(s)
		out = append(out, b)
	}
	return out
}

// shape expectations for the JSON kind substitution
func c13MustFail(pos, kind string) bool {
	isObj := strings.HasPrefix(kind, "{")
	isArr := strings.HasPrefix(kind, "[")
	isNull := kind == "null"
	if isNull {
		return false
	}
	switch pos {
	case "c", "c/d", "l/0/m", "y1":
		return !isObj // a scalar or array where a container is declared
	case "l", "i", "l/0/n":
		if !isArr {
			return true // an object or scalar where a list is declared
		}
		return kind == "[0]" || kind == `["a"]` || kind == "[[1]]" || kind == "[null]" // entries must be objects
	case "l/0", "l/0/n/0":
		return !isObj
	}
	return false
}

func (p *c13) Run(raw json.RawMessage) eng.Result {
	var c c13Case
	decode(raw, &c)
	var res eng.Result
	ss := &sigSet{res: &res}
	report := func(class, sym, what string, idx int) {
		sig := "C13/" + class + "/" + sym
		if c.Store != "" {
			sig = "C13/" + c.Store + "/" + class + "/" + sym
		}
		if ss.seen == nil {
			ss.seen = map[string]bool{}
		}
		if ss.seen[sig] {
			return
		}
		ss.seen[sig] = true
		rc := c
		rc.From, rc.To = idx, idx+1
		res.AddCase(sig, what, rc)
	}
	guard := func(class string, idx int, desc string, f func(b *node.Browser) error) (err error, panicked bool) {
		_, _, b := c13Env(c.Store)
		start := time.Now()
		fr, msg, pan := eng.Recover(func() { err = f(b) })
		res.Evals++
		res.Nontriv++
		if pan {
			report(class, "panic:"+fr, desc+": "+msg, idx)
			return nil, true
		}
		if time.Since(start) > 5*time.Second {
			report(class, "slow", desc, idx)
		}
		if u := c13Readable(b); u != "" {
			report(class, strings.SplitN(u, " ", 2)[0], desc+": "+u, idx)
		}
		return err, false
	}
	edits := func(class string, idx int, desc string, mk func() (node.Node, error), mustFail bool) {
		for _, op := range []string{"upsert", "insert", "update"} {
			err, pan := guard(class, idx, op+" "+desc, func(b *node.Browser) error {
				n, err := mk()
				if err != nil {
					return err
				}
				switch op {
				case "upsert":
					return b.Root().UpsertFrom(n)
				case "insert":
					return b.Root().InsertFrom(n)
				}
				return b.Root().UpdateFrom(n)
			})
			if !pan && mustFail && err == nil && op == "upsert" {
				report(class, "shape-mismatch-accepted", op+" "+desc, idx)
			}
		}
	}
	kind := c.Kind
	switch {
	case kind == "json-kind":
		docs := c13JSONDocs()
		for i := c.From; i < c.To && i < len(docs); i++ {
			d := docs[i]
			poskind := c13PosKind(d.pos)
			edits("json/"+poskind+"/"+c13KindClass(d.kind), i, fmt.Sprintf("%s at %s: %s", d.kind, d.pos, d.doc), func() (node.Node, error) { return nodeutil.ReadJSON(d.doc) }, c13MustFail(d.pos, d.kind))
		}
	case kind == "json-mut":
		muts := c13Mutants(c13ValidJSON, jsonTokens(c13ValidJSON), c13JSONSubst)
		for i := c.From; i < c.To && i < len(muts); i++ {
			d := muts[i]
			edits("json-mutation", i, d, func() (node.Node, error) { return nodeutil.ReadJSON(d) }, false)
		}
	case kind == "xml-mut":
		muts := c13Mutants(c13ValidXML, xmlTokens(c13ValidXML), c13XMLSubst)
		for i := c.From; i < c.To && i < len(muts); i++ {
			d := muts[i]
			edits("xml-mutation", i, d, func() (node.Node, error) {
				n, err := nodeutil.ReadXMLDoc(strings.NewReader(d))
				if err != nil {
					return nil, err
				}
				return n, nil
			}, false)
		}
	case kind == "path":
		paths := c13Paths()
		for i := c.From; i < c.To && i < len(paths); i++ {
			pth := paths[i]
			for _, start := range []string{"", "l=a"} {
				var sel *node.Selection
				err, pan := guard("path", i, fmt.Sprintf("Find(%q) from %q", pth, start), func(b *node.Browser) error {
					s := b.Root()
					if start != "" {
						s, _ = s.Find(start)
					}
					var err error
					sel, err = s.Find(pth)
					if err == nil && sel != nil {
						// use what was found: read it
						if meta.IsLeaf(sel.Meta()) {
							_, err = sel.Get()
						} else if !meta.IsAction(sel.Meta()) && !meta.IsNotification(sel.Meta()) {
							_, err = nodeutil.WriteJSON(sel)
						}
					}
					return err
				})
				if pan {
					continue
				}
				if start == "" && err == nil && sel != nil {
					if strings.HasPrefix(pth, "c=a") || strings.HasPrefix(pth, "top=a") {
						report("path", "key-on-a-non-list-accepted", pth, i)
					}
					if strings.HasPrefix(pth, "top/") && len(pth) > 4 && !strings.HasPrefix(pth[4:], "?") && pth[4:] != "" && !strings.HasPrefix(pth[4:], "/") {
						report("path", "step-below-a-leaf-accepted", pth, i)
					}
				}
			}
		}
	case kind == "query":
		qs := c13Queries()
		for i := c.From; i < c.To && i < len(qs); i++ {
			q := qs[i]
			for _, target := range []string{"", "c", "l", "l=a", "ev"} {
				guard("query", i, fmt.Sprintf("%q on %q", q, target), func(b *node.Browser) error {
					s := b.Root()
					var err error
					if target != "" {
						s, err = s.Find(target + "?" + q)
					} else {
						s, err = s.Constrain(q)
					}
					if err != nil || s == nil {
						return err
					}
					if target == "ev" {
						_, err = s.Notifications(func(n node.Notification) {
							if n.Event != nil {
								nodeutil.WriteJSON(n.Event)
							}
						})
						return err
					}
					_, err = nodeutil.WriteJSON(s)
					return err
				})
			}
		}
	case kind == "fanout":
		// groups that multiply: the paths an expression stands for grow with the power of the number
		// of groups. The library may refuse such an expression; it must not build a structure out of
		// all proportion to the request (here: 10^4 times the length of the expression)
		fs := c13Fanouts()
		for i := c.From; i < c.To && i < len(fs); i++ {
			f := fs[i]
			guard("fanout", i, fmt.Sprintf("%q", f), func(b *node.Browser) error {
				pe, err := node.ParsePathExpression(f)
				if err != nil || pe == nil {
					return err
				}
				if n := len(pe.String()); n > 10000*len(f) {
					report("fanout", "structure-out-of-proportion", fmt.Sprintf("expression of %d bytes stands for %d bytes of paths", len(f), n), i)
				}
				return nil
			})
			for _, param := range []string{"fields", "fc.xfields", "fc.range"} {
				guard("fanout", i, fmt.Sprintf("%s=%q", param, f), func(b *node.Browser) error {
					q := param + "=" + f
					if param == "fc.range" {
						q += "!1-2"
					}
					s, err := b.Root().Find("c?" + q)
					if err != nil || s == nil {
						return err
					}
					_, err = nodeutil.WriteJSON(s)
					return err
				})
			}
		}
	case strings.HasPrefix(kind, "xpath"):
		n := int(kind[5] - '0')
		xs := c13XPaths(n)
		for i := c.From; i < c.To && i < len(xs); i++ {
			x := xs[i]
			for _, use := range []string{"where", "filter"} {
				guard("xpath/"+use, i, fmt.Sprintf("%s=%q", use, x), func(b *node.Browser) error {
					target := "l"
					if use == "filter" {
						target = "ev"
					}
					s, err := b.Root().Find(target + "?" + use + "=" + url.QueryEscape(x))
					if err != nil || s == nil {
						return err
					}
					if use == "filter" {
						_, err = s.Notifications(func(n node.Notification) {
							if n.Event != nil {
								nodeutil.WriteJSON(n.Event)
							}
						})
						return err
					}
					_, err = nodeutil.WriteJSON(s)
					return err
				})
			}
			// as a when expression: the module must load (any text is a legal argument) and reads must not crash
			if !strings.ContainsAny(x, `"\`) {
				guard("xpath/when", i, fmt.Sprintf("when %q", x), func(_ *node.Browser) error {
					text := fmt.Sprintf(`module w { namespace "urn:w"; prefix w; revision 0; container c { leaf a { type string; } anydata any; action cact { input { leaf i { type string; } } } notification cev { leaf x { type string; } } leaf k { type string; when "%s"; } container d { when "%s"; leaf v { type int32; } } list l { key k; leaf k { type string; } leaf v { type int32; } } } }`, x, x)
					m, err := parserLoad(text)
					if err != nil {
						return err
					}
					t, _ := model.FromJSON(m.DataDefinitions(), []byte(`{"c":{"a":"a","k":"k","d":{"v":10},"l":[{"k":"a","v":10}]}}`))
					_, err = nodeutil.WriteJSON(node.NewBrowser(m, store.NewRef(t).Node()).Root())
					return err
				})
			}
		}
	case kind == "setvalue":
		cs := c13SetValueCases()
		for i := c.From; i < c.To && i < len(cs); i++ {
			sc := cs[i]
			guard("setvalue/"+sc.leafType, i, fmt.Sprintf("SetValue(%s) on %s", sc.desc, sc.leaf), func(b *node.Browser) error {
				s, err := b.Root().Find(sc.leaf)
				if err != nil || s == nil {
					return fmt.Errorf("harness: %v", err)
				}
				return s.SetValue(sc.v)
			})
		}
	}
	res.Outcomes = []string{kind}
	if res.Evals == 0 {
		res.Evals = 1
	}
	return res
}

func c13PosKind(pos string) string {
	switch pos {
	case "c", "c/d", "l/0/m", "y1":
		return "container-position"
	case "l", "i", "l/0/n":
		return "list-position"
	case "l/0", "l/0/n/0":
		return "entry-position"
	case "l/0/k", "i/0/k", "l/0/n/0/b":
		return "key-leaf-position"
	case "c/ll":
		return "leaf-list-position"
	case "zz", "c/zz", "l/0/zz", "zz:top", "req:top":
		return "unknown-or-qualified-member"
	case "act", "ev":
		return "rpc-or-notification-name"
	}
	return "leaf-position"
}

func c13KindClass(kind string) string {
	switch {
	case kind == "null":
		return "null"
	case strings.HasPrefix(kind, "{"):
		return "object"
	case strings.HasPrefix(kind, "[{"):
		return "array-of-objects"
	case strings.HasPrefix(kind, "["):
		return "array"
	}
	return "scalar"
}

type c13SV struct {
	leaf, leafType, desc string
	v                    interface{}
}

func c13SetValueCases() []c13SV {
	var out []c13SV
	leaves := map[string]string{"top": "string", "c/n": "int32-range", "c/ll": "string-list", "c/e": "enumeration", "c/b": "boolean", "c/u": "union", "c/em": "empty", "c/bits": "bits", "c/lr": "leafref", "c/dec": "decimal64", "c/u64": "uint64", "c/nk": "int32-keyword-range", "c/sk": "string-keyword-length", "c/dk": "decimal64-keyword-range", "c/uk": "uint8-keyword-range", "l=a/k": "key", "i=1/k": "int-key"}
	var ls []string
	for l := range leaves {
		ls = append(ls, l)
	}
	sort.Strings(ls)
	type st struct{ A int }
	ch := make(chan int)
	vals := []interface{}{nil, 0, -1, int8(-128), uint8(255), int64(1) << 40, uint64(1) << 63, 1.5, float32(2.5), "", "s", "one", "x y", "5", true, []string{"a", "b"}, []interface{}{"a", 1, nil}, []int{1, 2}, []float64{1.5}, [][]string{{"a"}}, map[string]interface{}{"a": 1}, st{1}, &st{2}, ch, func() {}, []byte("ab"), json.Number("7"), struct{}{}, [2]int{1, 2}, new(int), error(nil), fmt.Errorf("e"), time.Second, time.Unix(0, 0), 'x', complex(1, 2), uintptr(1), []interface{}{}, map[int]int{}, interface{}(nil)}
	for _, l := range ls {
		for _, v := range vals {
			out = append(out, c13SV{l, leaves[l], fmt.Sprintf("%T %v", v, v), v})
		}
	}
	return out
}
