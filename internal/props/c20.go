package props

import (
	"bytes"
	"encoding/json"
	"fmt"
	"io"
	"os"
	"os/exec"
	"runtime"
	"strings"
	"sync"
	"time"

	"github.com/freeconf/yang/meta"
	"github.com/freeconf/yang/node"
	"github.com/freeconf/yang/nodeutil"
	"github.com/freeconf/yang/parser"
	"github.com/freeconf/yang/source"
	"github.com/freeconf/yang/val"
	"verif/internal/eng"
	"verif/internal/model"
	"verif/internal/store"
)

// C20 — a compiled schema is immutable shared state: concurrent use is race-free.

type c20 struct{ base }

func init() {
	model.Schemas["shared"] = `module shared { yang-version 1.1; namespace "urn:shared"; prefix sh; revision 0;
  feature f1;
  identity base-id; identity id-a { base base-id; } identity id-b { base id-a; } identity id-z { base base-id; } identity id-m { base base-id; } identity id-y { base id-a; } identity id-c { base id-a; }
  identity b1; identity b2; identity b3; identity bq; identity br;
  identity p1 { base b1; base b2; base b3; } identity q1 { base bq; } identity r1 { base br; }
  typedef t3 { type identityref { base b1; base b2; base b3; } }
  typedef t1 { type int32 { range "0..100"; } default 7; units "u"; }
  grouping g { leaf gl { type t1; } container gc { leaf gx { type string { pattern "[a-z]*"; length "0..8"; } } } }
  leaf top { type string; }
  container c { uses g; leaf idr { type identityref { base base-id; } } leaf e { type enumeration { enum one; enum two; } } leaf w { when "gl>3"; type string; }
    leaf un { type union { type int32; type string; } } leaf bits { type bits { bit x; bit y; } } leaf lr { type leafref { path "../e"; } } leaf dec { type decimal64 { fraction-digits 2; range "0..10"; } } leaf em { type empty; } leaf bin { type binary; } leaf u64 { type uint64; } leaf-list les { type enumeration { enum one; enum two; } }
    leaf ux { type union { type t3; type identityref { base bq; } } } leaf uy { type union { type t3; type identityref { base br; } } }
    choice ch { case ca { leaf ca1 { type string; } } case cb { container cb1 { leaf x { type string; } } } } }
  list l { key k; leaf k { type string; } leaf v { type int32; default 3; } uses g; list n { key j; leaf j { type int32; } leaf u { type string; } } }
  leaf-list ll { type string; }
  // a chain of whens: evaluating the last one evaluates the ten before it, nested (the library allows 16 levels)
  leaf k1 { type int32; } leaf k2 { when "../k1>0"; type int32; } leaf k3 { when "../k2>0"; type int32; } leaf k4 { when "../k3>0"; type int32; }
  leaf k5 { when "../k4>0"; type int32; } leaf k6 { when "../k5>0"; type int32; } leaf k7 { when "../k6>0"; type int32; } leaf k8 { when "../k7>0"; type int32; }
  leaf k9 { when "../k8>0"; type int32; } leaf k10 { when "../k9>0"; type int32; } leaf k11 { when "../k10>0"; type int32; }
}`
	eng.Register(&c20{base{id: "C20", level: "model_checking", sub: true,
		rule: "part schedules: every unordered pair (thorough: also triples) of operations from the alphabet {load a module with uses and imports, JSON export, XML export, upsert from JSON, Find with query + export, delete, constrain + read, set value} runs as threads that share one compiled module but own their data; a cooperative scheduler with scheduling points at every node callback, output-stream write, opener call and reader Read explores every interleaving with at most 2 (thorough 3) preemptions; each thread's observable result (output, error, final store, dump of the module it loaded) must equal its solo result, the shared module's deep structural hash (unexported fields included) must be unchanged, and a prefix replay must reproduce its decision points. part immutability: the deep hash is compared before/after every single operation and every ordered pair run sequentially. part race: the same thread bodies run free on real goroutines in a -race build (GOMAXPROCS 1, 2 and all CPUs, repeated); any report of the race detector is a violation. states = distinct schedules, transitions = executions. Non-trivial = schedule with at least one preemption"}})
}

type c20Case struct {
	Part  string   `json:"part"`
	Ops   []string `json:"ops,omitempty"`
	Bound int      `json:"bound,omitempty"`
	// replay
	Choices []int `json:"choices,omitempty"`
}

var c20Ops = []string{"load", "json", "xml", "upsert", "find", "delete", "constrain", "set", "schema"}

// CaseDeadline: one scenario explores up to 150000 schedules. Cases run in worker processes
// because a data race in the library can end in a fatal error of the Go runtime (concurrent
// map writes), which no recover() catches.
func (p *c20) CaseDeadline() time.Duration { return 3 * time.Hour }

func (p *c20) Bounds(tier string) map[string]interface{} {
	b := 2
	if tier == "thorough" {
		b = 3
	}
	return map[string]interface{}{"operations": c20Ops, "threads": map[string]string{"quick": "2", "thorough": "2 and 3"}[tier], "preemption_bound": b, "race_pass": "GOMAXPROCS 1,2,NumCPU x 8 repetitions x all pairs", "max_executions_per_scenario": c20Cap(tier)}
}

func c20Cap(tier string) int {
	if tier == "thorough" {
		// (400000 until the chain of nested whens tripled the length of every schedule)
		return 150000
	}
	return 60000
}

func (p *c20) Cases(tier string, emit func(interface{})) {
	bound := 2
	if tier == "thorough" {
		bound = 3
	}
	for i, a := range c20Ops {
		for _, b := range c20Ops[i:] {
			emit(c20Case{Part: "schedules", Ops: []string{a, b}, Bound: bound})
		}
	}
	if tier == "thorough" {
		for i, a := range c20Ops {
			for j, b := range c20Ops[i:] {
				for _, c := range c20Ops[i+j:] {
					emit(c20Case{Part: "schedules", Ops: []string{a, b, c}, Bound: 2})
				}
			}
		}
	}
	emit(c20Case{Part: "immutability"})
	emit(c20Case{Part: "race"})
}

// string values hold characters every writer has to escape (quote, backslash, markup, control, non-ASCII)
const c20Data = `{"top":"t\"q\\b<&>\u00e9\n\u2028","c":{"gl":5,"gc":{"gx":"abc"},"idr":"id-b","e":"two","w":"shown","ca1":"x","un":5,"bits":"x","lr":"two","dec":1.5,"em":[null],"bin":"AQID","u64":"18446744073709551615","les":["one","two"],"ux":"p1","uy":"r1"},"l":[{"k":"a","v":1,"gl":9,"n":[{"j":1,"u":"a"},{"j":2,"u":"b"}]},{"k":"b","gc":{"gx":"z"}}],"ll":["p","q\"<\u00e9>"],"k1":1,"k2":2,"k3":3,"k4":4,"k5":5,"k6":6,"k7":7,"k8":8,"k9":9,"k10":10,"k11":11}`

const c20LoadText = `module ld { yang-version 1.1; namespace "urn:ld"; prefix ld; import dep { prefix d; } include sub; revision 0;
  feature f; grouping g { leaf a { type d:dt; } container c { leaf b { type string; } } }
  anydata blob; anyxml blob2;
  container u1 { uses g; } container u2 { uses g { refine a { default "9"; } } } list l { key k; leaf k { type string; } uses d:rg; }
  augment "/u1/c" { leaf added { type string; if-feature f; } } }`

var c20LoadMods = map[string]string{
	"dep": `module dep { namespace "urn:dep"; prefix d; revision 0; typedef dt { type int32; default 4; } grouping rg { leaf r { type string; } } }`,
	"sub": `submodule sub { belongs-to ld { prefix ld; } container s { leaf x { type string; } } }`,
}

// yieldWriter yields at every Write
type yieldWriter struct {
	buf   bytes.Buffer
	yield func()
}

func (w *yieldWriter) Write(p []byte) (int, error) {
	w.yield()
	return w.buf.Write(p)
}

type yieldReader struct {
	r     io.Reader
	yield func()
}

func (r *yieldReader) Read(p []byte) (int, error) {
	r.yield()
	if len(p) > 64 {
		p = p[:64]
	}
	return r.r.Read(p)
}

// c20Body builds the thread body for op: it returns the observable result as a string.
func c20Body(op string, m *meta.Module, out *string) func(yield func()) {
	return func(yield func()) {
		var res strings.Builder
		defer func() {
			if r := recover(); r != nil {
				fmt.Fprintf(&res, "PANIC %v", r)
			}
			*out = res.String()
		}()
		newStore := func() (*store.Ref, *node.Browser) {
			t, err := model.FromJSON(m.DataDefinitions(), []byte(c20Data))
			if err != nil {
				panic(err)
			}
			r := store.NewRef(t)
			log := &store.Log{}
			log.Fail = func(e *store.Event) error {
				yield()
				return nil
			}
			return r, node.NewBrowser(m, store.Wrap(r.Node(), log, "t"))
		}
		switch op {
		case "load":
			opener := func(name, ext string) (io.Reader, error) {
				yield()
				if t, ok := c20LoadMods[name]; ok {
					return &yieldReader{strings.NewReader(t), yield}, nil
				}
				return nil, nil
			}
			lm, err := parser.LoadModuleFromString(opener, c20LoadText)
			if err != nil {
				fmt.Fprintf(&res, "err=%v", err)
				return
			}
			res.WriteString(model.DumpModule(lm, model.FullDump()).String())
		case "schema":
			// the compiled module itself is exported, through both schema browsers of the library
			fcYang := c20FcYang()
			w := &yieldWriter{yield: yield}
			wtr := &nodeutil.JSONWtr{Out: w}
			err := nodeutil.Schema(fcYang, m).Root().UpsertInto(wtr.Node())
			w2 := &yieldWriter{yield: yield}
			wtr2 := &nodeutil.JSONWtr{Out: w2}
			err2 := nodeutil.SchemaBrowser(fcYang, m).Root().UpsertInto(wtr2.Node())
			// (the older browser stops at the first choice: its identities are exported on their own)
			w3 := &yieldWriter{yield: yield}
			wtr3 := &nodeutil.JSONWtr{Out: w3}
			ids, err3 := nodeutil.Schema(fcYang, m).Root().Find("module/identity")
			if err3 == nil && ids != nil {
				err3 = ids.UpsertInto(wtr3.Node())
			}
			fmt.Fprintf(&res, "err=%v err2=%v err3=%v out=%s out2=%s out3=%s", err, err2, err3, w.buf.String(), w2.buf.String(), w3.buf.String())
		case "json":
			_, b := newStore()
			w := &yieldWriter{yield: yield}
			wtr := &nodeutil.JSONWtr{Out: w, Pretty: true, QualifyNamespace: true}
			err := b.Root().UpsertInto(wtr.Node())
			fmt.Fprintf(&res, "err=%v out=%s", err, w.buf.String())
		case "xml":
			_, b := newStore()
			s, err := nodeutil.WriteXMLDoc(b.Root(), false)
			fmt.Fprintf(&res, "err=%v out=%s", err, s)
		case "upsert":
			r, b := newStore()
			n, err := nodeutil.ReadJSON(`{"c":{"gl":50,"cb1":{"x":"y"},"idr":"id-a","un":"text","bits":"x y","lr":"one","dec":2.25,"les":["two"],"ux":"q1","uy":"p1"},"l":[{"k":"c","n":[{"j":3}]},{"k":"a","v":2}]}`)
			if err == nil {
				err = b.Root().UpsertFrom(n)
			}
			fmt.Fprintf(&res, "err=%v store=%s", err, r.T.Canon(m.DataDefinitions(), model.CanonOpts{}))
		case "find":
			_, b := newStore()
			sel, err := b.Root().Find("l=a?depth=2&fields=" + "k;n/u")
			if err == nil && sel != nil {
				var s string
				s, err = nodeutil.WriteJSON(sel)
				res.WriteString(s)
			}
			fmt.Fprintf(&res, " err=%v", err)
			// nodes that are looked up by name inside the cases of a choice, present and absent
			for _, path := range []string{"c/ca1", "c/cb1", "c/cb1/x", "c/nope"} {
				sel, err := b.Root().Find(path)
				var v val.Value
				if err == nil && sel != nil && meta.IsLeaf(sel.Meta()) {
					v, err = sel.Get()
				}
				fmt.Fprintf(&res, " %s:%v,%v,%v", path, sel != nil, v, err)
			}
		case "delete":
			r, b := newStore()
			sel, err := b.Root().Find("l=a/n=1")
			if err == nil && sel != nil {
				err = sel.Delete()
			}
			if err == nil {
				if sel, err = b.Root().Find("c/gc"); err == nil && sel != nil {
					err = sel.Delete()
				}
			}
			fmt.Fprintf(&res, "err=%v store=%s", err, r.T.Canon(m.DataDefinitions(), model.CanonOpts{}))
		case "constrain":
			_, b := newStore()
			sel, err := b.Root().Constrain("content=config&with-defaults=trim&fc.range=" + "l!0-1")
			if err == nil {
				var s string
				s, err = nodeutil.WriteJSON(sel)
				res.WriteString(s)
			}
			fmt.Fprintf(&res, " err=%v", err)
		case "set":
			r, b := newStore()
			var errs []string
			for _, kv := range [][2]string{{"c/gl", "101"}, {"c/gl", "42"}, {"c/gc/gx", "UPPER"}, {"c/gc/gx", "ok"}, {"c/e", "one"}, {"c/un", "7"}, {"c/un", "seven"}, {"c/bits", "y"}, {"c/bits", "zz"}, {"c/dec", "11"}, {"c/lr", "two"}, {"c/idr", "id-a"}, {"c/idr", "nope"}, {"c/ux", "q1"}, {"c/uy", "r1"}, {"c/ux", "r1"}} {
				sel, err := b.Root().Find(kv[0])
				if err == nil && sel != nil {
					err = sel.SetValue(kv[1])
				}
				errs = append(errs, fmt.Sprint(err != nil))
			}
			fmt.Fprintf(&res, "errs=%v store=%s", errs, r.T.Canon(m.DataDefinitions(), model.CanonOpts{}))
		}
	}
}

var (
	c20Mu     sync.Mutex
	c20Module *meta.Module
	c20Yang   *meta.Module
)

// c20FcYang: the library's own module describing YANG (needed by its schema browsers), loaded once
func c20FcYang() *meta.Module {
	c20Mu.Lock()
	defer c20Mu.Unlock()
	if c20Yang == nil {
		var err error
		if c20Yang, err = parser.LoadModule(source.Dir("/repo/yang"), "fc-yang"); err != nil {
			panic("harness: fc-yang: " + err.Error())
		}
	}
	return c20Yang
}

func c20Shared() *meta.Module {
	c20Mu.Lock()
	defer c20Mu.Unlock()
	if c20Module == nil {
		c20Module = model.Schema("shared")
	}
	return c20Module
}

func c20Solo(op string, m *meta.Module) string {
	var out string
	c20Body(op, m, &out)(func() {})
	return out
}

func (p *c20) Run(raw json.RawMessage) eng.Result {
	var c c20Case
	decode(raw, &c)
	var res eng.Result
	ss := &sigSet{res: &res}
	if c.Part != "race" {
		// the cooperative scheduler runs one goroutine at a time: with one P a hand-off stays on
		// the thread instead of waking another one (the case runs in a worker process of its own)
		defer runtime.GOMAXPROCS(runtime.GOMAXPROCS(1))
	}
	switch c.Part {
	case "schedules", "schedule":
		m := model.Schema("shared") // one module per scenario, shared by its threads only
		want := make([]string, len(c.Ops))
		for i, op := range c.Ops {
			want[i] = c20Solo(op, m)
			if strings.HasPrefix(want[i], "PANIC") {
				ss.add("C20/solo/"+op+"/panic", want[i])
				return res
			}
			// a solo run is deterministic
			if again := c20Solo(op, m); again != want[i] {
				ss.add("C20/solo/"+op+"/not-deterministic", "two solo runs differ")
				return res
			}
		}
		hash0 := model.DeepHash(m)
		outs := make([]string, len(c.Ops))
		mk := func() []func(func()) {
			var bodies []func(func())
			for i, op := range c.Ops {
				bodies = append(bodies, c20Body(op, m, &outs[i]))
			}
			return bodies
		}
		name := strings.Join(c.Ops, "+")
		check := func(choices []int, diverged bool) {
			res.Transitions++
			pre := false
			for _, ch := range choices {
				if ch != 0 {
					pre = true
				}
			}
			if pre {
				res.Nontriv++
			}
			report := func(sig, what string) {
				if ss.seen == nil {
					ss.seen = map[string]bool{}
				}
				if ss.seen[sig] {
					return
				}
				ss.seen[sig] = true
				rc := c20Case{Part: "schedule", Ops: c.Ops, Choices: choices}
				res.AddCase(sig, what, rc)
			}
			if diverged {
				report("C20/harness/replay-diverged/"+name, fmt.Sprint(choices))
			}
			for i, op := range c.Ops {
				if outs[i] != want[i] {
					other := c.Ops[(i+1)%len(c.Ops)]
					report("C20/schedule/"+op+"-while-"+other+"/result-differs-from-solo", fmt.Sprintf("schedule %v: %s gave %s, alone %s", choices, op, trunc200(outs[i]), trunc200(want[i])))
				}
			}
			if h := model.DeepHash(m); h != hash0 {
				report("C20/schedule/"+name+"/shared-module-mutated", fmt.Sprintf("schedule %v", choices))
				hash0 = h
			}
		}
		if c.Part == "schedule" {
			run := eng.RunSchedule(c.Choices, mk())
			_ = run
			check(c.Choices, false)
			res.Evals = 1
			return res
		}
		n, capped := eng.ExploreSchedules(c.Bound, c20Cap("quick"), mk, check)
		res.Evals = int64(n)
		res.States = int64(n)
		res.Capped = capped
		res.Outcomes = []string{name}
		res.Sample = map[string]interface{}{"ops": c.Ops, "bound": c.Bound, "schedules": n, "capped": capped}
	case "immutability":
		m := model.Schema("shared")
		h0 := model.DeepHash(m)
		for _, a := range c20Ops {
			c20Solo(a, m)
			res.Evals++
			res.Nontriv++
			if h := model.DeepHash(m); h != h0 {
				ss.add("C20/immutability/"+a+"/shared-module-mutated", "deep structural hash of the compiled module changed by a single "+a)
				h0 = h
			}
			for _, b := range c20Ops {
				r1 := c20Solo(b, m)
				// the same operation after any other gives the same answer as on a fresh module
				fresh := c20Solo(b, model.Schema("shared"))
				res.Evals++
				if r1 != fresh {
					ss.add("C20/history-dependence/"+b+"-after-"+a, "result differs from the result on a freshly compiled module")
				}
				if h := model.DeepHash(m); h != h0 {
					ss.add("C20/immutability/"+b+"-after-"+a+"/shared-module-mutated", "deep hash changed")
					h0 = h
				}
			}
		}
		res.States = res.Evals
		res.Transitions = res.Evals
		res.Outcomes = []string{"immutability"}
	case "race":
		c20RacePass(&res, ss)
	case "race-child":
		// executed inside the -race binary: free-running goroutines
		c20RaceChild()
	}
	if res.Evals == 0 {
		res.Evals = 1
	}
	return res
}

// c20RaceChild runs every pair of operations on real goroutines (free-running).
func c20RaceChild() {
	m := model.Schema("shared")
	for rep := 0; rep < 8; rep++ {
		for i, a := range c20Ops {
			for _, b := range c20Ops[i:] {
				var wg sync.WaitGroup
				outs := make([]string, 3)
				for t, op := range []string{a, b, a} {
					wg.Add(1)
					go func(t int, op string) {
						defer wg.Done()
						c20Body(op, m, &outs[t])(runtime.Gosched)
					}(t, op)
				}
				wg.Wait()
			}
		}
	}
}

// c20RacePass builds nothing itself: scripts/run.sh builds bin/vcheck-race; here it is run and its stderr parsed.
func c20RacePass(res *eng.Result, ss *sigSet) {
	bin := eng.Root + "/bin/vcheck-race"
	if _, err := os.Stat(bin); err != nil {
		ss.add("C20/harness/race-binary-missing", bin+" (scripts/run.sh builds it)")
		return
	}
	for _, procs := range []int{1, 2, runtime.NumCPU()} {
		cmd := exec.Command(bin, "racechild")
		cmd.Env = append(os.Environ(), fmt.Sprintf("GOMAXPROCS=%d", procs), "GORACE=halt_on_error=0")
		var stderr bytes.Buffer
		cmd.Stderr = &stderr
		cmd.Stdout = io.Discard
		err := cmd.Run()
		res.Evals += int64(8 * len(c20Ops) * (len(c20Ops) + 1) / 2)
		res.Transitions += int64(8 * len(c20Ops) * (len(c20Ops) + 1) / 2)
		res.Nontriv++
		out := stderr.String()
		if strings.Contains(out, "DATA RACE") {
			// attribute by the first library frames of the report
			for _, rep := range strings.Split(out, "WARNING: DATA RACE")[1:] {
				loc := "unknown"
				for _, line := range strings.Split(rep, "\n") {
					line = strings.TrimSpace(line)
					if strings.HasPrefix(line, "github.com/freeconf/yang/") {
						loc = strings.TrimPrefix(line, "github.com/freeconf/yang/")
						if i := strings.Index(loc, "("); i > 0 && !strings.HasPrefix(loc[i:], "(*") {
							loc = loc[:i]
						} else if j := strings.LastIndex(loc, "("); j > 0 {
							loc = loc[:j]
						}
						break
					}
				}
				// which access is reported first varies from run to run: one signature, the place in the text
				ss.add("C20/race/data-race", fmt.Sprintf("GOMAXPROCS=%d: at %s: %s", procs, loc, trunc200(rep)))
			}
		} else if err != nil {
			ss.add("C20/race/child-failed", fmt.Sprintf("%v: %s", err, trunc200(out)))
		}
	}
	res.Outcomes = []string{"race"}
}
