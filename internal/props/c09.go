package props

import (
	"encoding/json"
	"errors"
	"fmt"
	"github.com/freeconf/yang/fc"
	"github.com/freeconf/yang/val"
	"strings"

	"github.com/freeconf/yang/meta"
	"github.com/freeconf/yang/node"
	"github.com/freeconf/yang/nodeutil"
	"verif/internal/eng"
	"verif/internal/model"
	"verif/internal/store"
)

// C09 — at most one case of a choice ever holds data.

type c09 struct{ base }

func init() {
	eng.Register(&c09{base{id: "C09", level: "model_checking",
		rule: "BFS over all sequences of upserts of minimal documents, each populating members of one case (every member alone and all together) of a flat, nested, shorthand or in-list choice, to the depth bound or closure, per target store and source kind; state = canonical directly-inspected store content. After every transition: reference-model equality (other cases cleared, outside untouched), the exclusivity invariant computed on the inspected store, and the library's own read of the store. Non-trivial = distinct reached state other than the initial one"}})
}

type c09Op struct {
	Tag string `json:"tag"` // choice shape / member kind, used in signatures
	Doc string `json:"doc"`
	// Strat: "" = upsert; "insert" / "update": only the invariant and the read are checked, and the
	// strategy may refuse the edit (conflict / not-found); "set": Doc names one leaf, the edit is
	// Find(path to the leaf).SetValue(value), a no-op when the node holding the leaf is not there
	Strat string `json:"strategy,omitempty"`
}

func init() {
	// cases guarded by a when on a leaf outside the choice
	model.Schemas["choicewhen"] = `module choicewhen { namespace "urn:cw"; prefix cw; revision 0;
  leaf kind { type string; }
  choice ch {
    case a { when "kind = 'a'"; leaf a1 { type string; } }
    case b { when "kind = 'b'"; leaf b1 { type string; } container b2 { leaf x { type string; } } }
  }
}`
}

func init() {
	// case members that reach their choice through uses, nested choices and augments
	model.Schemas["choiceaug"] = `module choiceaug { namespace "urn:ca"; prefix ca; revision 0;
  grouping g { leaf g1 { type string; } container gc { leaf x { type string; } } list gl { key k; leaf k { type string; } } }
  grouping g2 { leaf h1 { type string; } container hc { leaf x { type string; } } }
  leaf o { type string; }
  choice h {
    case a { leaf a1 { type string; } }
    case u { uses g; }
    case r { leaf r1 { type int32 { range "1..5"; } } leaf r2 { type string { length "1..2"; } } }
    case n { choice in { case n1 { container nd { leaf x { type string; } } } case n2 { list nl { key k; leaf k { type string; } } leaf n2l { type string; } } } }
  }
  augment "/h" { case aug { leaf au1 { type string; } container auc { leaf x { type string; } } } }
  augment "/h" { leaf sh { type string; } }
  augment "/h" { uses g2; }
  augment "/h/a" { container ac { leaf x { type string; } } }
  container w { leaf keep { type string; } choice g { case p { leaf p1 { type string; } } } }
  augment "/w/g" { case q { leaf q1 { type string; } list ql { key k; leaf k { type string; } } } }
}`
}

var c09AugAlphabet = []c09Op{
	{"plain-case/leaf", `{"a1":"a"}`, ""},
	{"augmented-into-case/container", `{"ac":{"x":"a"}}`, ""},
	{"uses-in-case/leaf", `{"g1":"a"}`, ""},
	{"uses-in-case/container", `{"gc":{"x":"a"}}`, ""},
	{"uses-in-case/list", `{"gl":[{"k":"a"}]}`, ""},
	{"uses-in-case/all", `{"g1":"b","gc":{"x":"b"},"gl":[{"k":"b"}]}`, ""},
	{"nested-choice/container", `{"nd":{"x":"a"}}`, ""},
	{"nested-choice/list", `{"nl":[{"k":"a"}]}`, ""},
	{"nested-choice/leaf", `{"n2l":"a"}`, ""},
	{"augmented-case/leaf", `{"au1":"a"}`, ""},
	{"augmented-case/container", `{"auc":{"x":"a"}}`, ""},
	{"augmented-shorthand/leaf", `{"sh":"a"}`, ""},
	{"augmented-uses/leaf", `{"h1":"a"}`, ""},
	{"augmented-uses/container", `{"hc":{"x":"a"}}`, ""},
	{"outside", `{"o":"a"}`, ""},
	{"in-container/plain-case", `{"w":{"p1":"a"}}`, ""},
	{"in-container/augmented-case/leaf", `{"w":{"q1":"a"}}`, ""},
	{"in-container/augmented-case/list", `{"w":{"ql":[{"k":"a"}]}}`, ""},
	{"nested/case-holding-only-a-choice", `{"w":{"t1":"a"}}`, ""},
	{"nested/case-holding-only-a-choice", `{"w":{"t2":"b"}}`, ""},
	{"outside", `{"w":{"keep":"a"}}`, ""},
	// a value the type refuses: the edit fails and what another case holds stays
	{"ranged-case/leaf", `{"r1":3}`, ""},
	{Tag: "refused/out-of-range-leaf", Doc: `{"r1":9}`, Strat: "reject"},
	{Tag: "refused/too-long-leaf", Doc: `{"r2":"toolong"}`, Strat: "reject"},
	{Tag: "refused/set-out-of-range-leaf", Doc: `{"r1":9}`, Strat: "set-reject"},
}

var c09Alphabets = map[string][]c09Op{"": c09Alphabet, "choicewhen": c09WhenAlphabet, "choiceaug": c09AugAlphabet}

var c09WhenAlphabet = []c09Op{
	{"when-case/switch-with-guard", `{"kind":"a","a1":"x"}`, ""},
	{"when-case/switch-with-guard", `{"kind":"b","b1":"y"}`, ""},
	{"when-case/switch-with-guard", `{"kind":"b","b2":{"x":"z"}}`, ""},
	{"when-case/guard-only", `{"kind":"a"}`, ""},
	{"when-case/guard-only", `{"kind":"b"}`, ""},
}

var c09Alphabet = []c09Op{
	{"flat/leaf", `{"a1":"a"}`, ""},
	{"flat/leaf", `{"a2":1}`, ""},
	{"flat/leaves", `{"a1":"b","a2":2}`, ""},
	{"flat/zero-valued-leaf", `{"a2":0}`, ""},
	{"flat/empty-string-leaf", `{"a1":""}`, ""},
	{"flat/container", `{"b1":{"x":"a"}}`, ""},
	{"flat/list", `{"c1":[{"k":"a","v":"a"}]}`, ""},
	{"flat/list", `{"c1":[{"k":"b"}]}`, ""},
	{"flat/leaf-after-container", `{"b2":"a"}`, ""},
	{"flat/container-and-leaf", `{"b1":{"x":"b"},"b2":"b"}`, ""},
	{"flat/shorthand", `{"s":"a"}`, ""},
	{"outside", `{"o":"a"}`, ""},
	{"nested/outer-case", `{"w":{"p1":"a"}}`, ""},
	{"nested/inner-case", `{"w":{"i1":"a"}}`, ""},
	{"nested/inner-case", `{"w":{"j1":"a"}}`, ""},
	{"nested/inner-case", `{"w":{"j2":"b"}}`, ""},
	{"nested/inner-case", `{"w":{"j1":"b","j2":"a"}}`, ""},
	{"nested/leaf-after-inner-choice", `{"w":{"q2":"a"}}`, ""},
	{"nested/choice-after-leaf", `{"w":{"r1":"a","r2":"b"}}`, ""},
	{"nested/choice-after-leaf", `{"w":{"r3":"c"}}`, ""},
	{"outside", `{"w":{"keep":"a"}}`, ""},
	{"in-list", `{"e":[{"k":"a","x1":"a"}]}`, ""},
	{"in-list", `{"e":[{"k":"a","y1":"a"}]}`, ""},
	{"in-list", `{"e":[{"k":"b","y1":"b"}]}`, ""},
	{Tag: "insert/leaf", Doc: `{"a1":"i"}`, Strat: "insert"},
	{Tag: "insert/leaf", Doc: `{"b2":"i"}`, Strat: "insert"},
	{Tag: "insert/shorthand", Doc: `{"s":"i"}`, Strat: "insert"},
	{Tag: "insert/container", Doc: `{"b1":{"x":"i"}}`, Strat: "insert"},
	{Tag: "update/leaf", Doc: `{"a2":7}`, Strat: "update"},
	{Tag: "update/shorthand", Doc: `{"s":"u"}`, Strat: "update"},
	{Tag: "insert/nested", Doc: `{"w":{"j1":"i"}}`, Strat: "insert"},
	{Tag: "set/leaf", Doc: `{"a1":"s"}`, Strat: "set"},
	{Tag: "set/leaf-after-container", Doc: `{"b2":"s"}`, Strat: "set"},
	{Tag: "set/shorthand", Doc: `{"s":"t"}`, Strat: "set"},
	{Tag: "set/nested-inner-case", Doc: `{"w":{"j1":"s"}}`, Strat: "set"},
	{Tag: "set/nested-outer-case", Doc: `{"w":{"p1":"s"}}`, Strat: "set"},
	{"in-list/two-items-same-case", `{"e":[{"k":"a","x1":"c"},{"k":"b","x1":"c"}]}`, ""},
	{"in-list/two-items-same-case", `{"e":[{"k":"a","y1":"d"},{"k":"b","y1":"d"}]}`, ""},
	{"in-list/two-items-other-cases", `{"e":[{"k":"a","x1":"e"},{"k":"b","y1":"e"}]}`, ""},
	{"in-list/three-items-same-case", `{"e":[{"k":"a","y1":"f"},{"k":"b","y1":"f"},{"k":"c","y1":"f"}]}`, ""},
}

type c09Case struct {
	Schema string  `json:"schema,omitempty"` // "" = choice
	Part   string  `json:"part"`
	Store  string  `json:"store"`
	Source string  `json:"source"`
	Depth  int     `json:"depth"`
	Ops    []c09Op `json:"ops,omitempty"`
}

func (p *c09) Bounds(tier string) map[string]interface{} {
	return map[string]interface{}{"depth": c09Depth(tier), "alphabet": len(c09Alphabet), "stores": append(append([]string{}, store.Impls...), "node-struct", "node-structmap", "node-structembed"), "sources": []string{"json", "ref", "xml"}, "schema": "choice (flat with leaf/container/list/shorthand cases, nested choice in a case, choice inside a list entry)"}
}

func c09Depth(tier string) int {
	if tier == "thorough" {
		return 5
	}
	return 3
}

func (p *c09) Cases(tier string, emit func(interface{})) {
	for _, st := range []string{"ref", "reflect-map", "node-map"} {
		emit(c09Case{Schema: "choicewhen", Part: "bfs", Store: st, Source: "json", Depth: c09Depth(tier) + 1})
	}
	emit(c09Case{Part: "structslice"})
	emit(c09Case{Part: "defaults"})
	// nodeutil.Reflect over Go structs does not implement choices (every read fails with
	// "OnChoose not implemented"): only nodeutil.Node serves the struct-backed stores here
	for _, st := range append(append([]string{}, store.Impls...), "node-struct", "node-structmap", "node-structembed") {
		for _, src := range []string{"json", "ref", "xml"} {
			emit(c09Case{Part: "bfs", Store: st, Source: src, Depth: c09Depth(tier)})
			emit(c09Case{Schema: "choiceaug", Part: "bfs", Store: st, Source: src, Depth: c09Depth(tier)})
		}
	}
}

// exclusive checks the invariant directly on a tree: for every choice at most
// one case holds data. Returns "" or the offending choice path.
func exclusive(defs []meta.Definition, t *model.Tree, path string) string {
	for _, d := range defs {
		switch x := d.(type) {
		case *meta.Choice:
			n := 0
			for _, id := range model.CaseIds(x) {
				cs := x.Cases()[id]
				if model.HasAny(cs.DataDefinitions(), t) {
					n++
					if msg := exclusive(cs.DataDefinitions(), t, path); msg != "" {
						return msg
					}
				}
			}
			if n > 1 {
				return fmt.Sprintf("%s/%s has data in %d cases", path, x.Ident(), n)
			}
		case *meta.List:
			if l, ok := t.Lists[x.Ident()]; ok {
				for _, e := range l.Entries {
					if msg := exclusive(x.DataDefinitions(), e, path+"/"+x.Ident()); msg != "" {
						return msg
					}
				}
			}
		case meta.HasDataDefinitions:
			if c, ok := t.Conts[x.Ident()]; ok {
				if msg := exclusive(x.DataDefinitions(), c, path+"/"+x.Ident()); msg != "" {
					return msg
				}
			}
		}
	}
	return ""
}

type c09Inst struct{ env *dataEnv }

func c09Step(c c09Case, inst *c09Inst, op c09Op) []eng.StepViol {
	env := inst.env
	m := env.m
	site := fmt.Sprintf("C09/%s/%s/%s", c.Store, c.Source, op.Tag)
	before := env.snap()
	s, err := model.FromJSON(m.DataDefinitions(), []byte(op.Doc))
	if err != nil {
		panic(err)
	}
	desc := fmt.Sprintf("%s %s on %s", map[string]string{"": "upsert", "insert": "insert", "update": "update", "set": "Find+SetValue", "reject": "upsert", "set-reject": "Find+SetValue"}[op.Strat], op.Doc, before)
	var uerr error
	setSkipped := false
	fr, msg, pan := eng.Recover(func() {
		var src node.Node
		if c.Source == "json" {
			if src, uerr = nodeutil.ReadJSON(op.Doc); uerr != nil {
				return
			}
		} else if c.Source == "xml" {
			if src, uerr = nodeutil.ReadXMLDoc(strings.NewReader("<data>" + xmlBody(m.DataDefinitions(), s) + "</data>")); uerr != nil {
				return
			}
		} else {
			src = store.ContainerNode(s.Clone())
		}
		switch op.Strat {
		case "set", "set-reject":
			var doc interface{}
			if err := json.Unmarshal([]byte(op.Doc), &doc); err != nil {
				panic(err)
			}
			var path []string
			for {
				obj, isObj := doc.(map[string]interface{})
				if !isObj {
					break
				}
				for k, v := range obj {
					path = append(path, k)
					doc = v
				}
			}
			var sel *node.Selection
			if sel, uerr = env.b.Root().Find(strings.Join(path, "/")); uerr == nil {
				if sel == nil {
					setSkipped = true
				} else {
					uerr = sel.SetValue(doc)
				}
			}
		case "insert":
			uerr = env.b.Root().InsertFrom(src)
		case "update":
			uerr = env.b.Root().UpdateFrom(src)
		default:
			uerr = env.b.Root().UpsertFrom(src)
		}
	})
	if pan {
		return []eng.StepViol{{Sig: site + "/panic:" + fr, What: desc + ": " + msg}}
	}
	if strings.HasSuffix(op.Strat, "reject") {
		if uerr == nil && !setSkipped {
			return []eng.StepViol{{Sig: site + "/refused-value-accepted", What: desc}}
		}
		if got := env.snap(); got.Canon(m.DataDefinitions(), env.canonOpts()) != before.Canon(m.DataDefinitions(), env.canonOpts()) {
			return []eng.StepViol{{Sig: site + "/refused-edit-changed-the-target", What: fmt.Sprintf("%s: %v; store now %s", desc, uerr, got)}}
		}
		return nil
	}
	if uerr != nil && (op.Strat == "" || (!errors.Is(uerr, fc.ConflictError) && !errors.Is(uerr, fc.NotFoundError))) {
		return []eng.StepViol{{Sig: site + "/error-on-valid", What: fmt.Sprintf("%s: %v", desc, uerr)}}
	}
	got := env.snap()
	// invariant, independent of the model
	if msg := exclusive(m.DataDefinitions(), got, ""); msg != "" {
		return []eng.StepViol{{Sig: site + "/two-cases-hold-data", What: fmt.Sprintf("%s: %s; store now %s", desc, msg, got)}}
	}
	if op.Strat == "" || op.Strat == "set" {
		want := before.Clone()
		if !setSkipped {
			modelEdit(m, entryPoint{}, model.Upsert, s, want, env.st.MapLists())
		}
		if kd, w := model.Diff(m.DataDefinitions(), want, got, env.canonOpts(), ""); kd != "" {
			return []eng.StepViol{{Sig: site + "/wrong-result/" + kd, What: fmt.Sprintf("%s: %s; want %s got %s", desc, w, want, got)}}
		}
	}
	if c.Schema == "choicewhen" {
		// a case whose when is false is stored but not shown: the read clause does not apply
		return nil
	}
	// the library's own read shows exactly the stored (selected-case) nodes
	r := store.NewRef(nil)
	var xerr error
	fr, msg, pan = eng.Recover(func() { xerr = env.b.Root().UpsertInto(r.Node()) })
	if pan {
		return []eng.StepViol{{Sig: site + "/read/panic:" + fr, What: desc + "; then read: " + msg}}
	}
	if xerr != nil {
		return []eng.StepViol{{Sig: site + "/read/error", What: fmt.Sprintf("%s; then read: %v", desc, xerr)}}
	}
	o := env.canonOpts()
	o.IgnoreEntryOrder = true
	if kd, w := model.Diff(m.DataDefinitions(), got, r.T, o, ""); kd != "" {
		return []eng.StepViol{{Sig: site + "/read/" + kd, What: fmt.Sprintf("%s; then read: %s; store %s read %s", desc, w, got, r.T)}}
	}
	return nil
}

func (p *c09) Run(raw json.RawMessage) eng.Result {
	var c c09Case
	decode(raw, &c)
	var res eng.Result
	schema := "choice"
	alphabet := c09Alphabet
	if c.Schema != "" {
		schema, alphabet = c.Schema, c09Alphabets[c.Schema]
	}
	if c.Part == "structslice" {
		return c09StructSlice()
	}
	if c.Part == "defaults" {
		return c09Defaults()
	}
	m := model.SharedSchema(schema)
	newInst := func() *c09Inst { return &c09Inst{env: newEnv(schema, c.Store)} }
	if c.Part == "history" {
		inst := newInst()
		for i, op := range c.Ops {
			for _, v := range c09Step(c, inst, op) {
				res.Add(v.Sig, fmt.Sprintf("after %d operations: %s", i+1, v.What))
			}
		}
		return res
	}
	ex := eng.Explorer[*c09Inst, c09Op]{
		New:  newInst,
		Ops:  func(*c09Inst) []c09Op { return alphabet },
		Step: func(inst *c09Inst, op c09Op) []eng.StepViol { return c09Step(c, inst, op) },
		Key: func(inst *c09Inst) string {
			return inst.env.snap().Canon(m.DataDefinitions(), inst.env.canonOpts())
		},
		Depth: c.Depth,
	}
	r := ex.Run()
	res.States, res.Transitions, res.Evals = r.States, r.Transitions, r.Transitions
	res.Nontriv = r.States - 1
	for _, v := range r.Viols {
		rc := c
		rc.Part, rc.Ops = "history", v.History
		res.AddCase(v.Sig, fmt.Sprintf("after %d operations: %s", len(v.History), v.What), rc)
	}
	res.Outcomes = []string{fmt.Sprintf("%s:%s:closed=%v", c.Store, c.Source, r.Closed)}
	res.Sample = map[string]interface{}{"store": c.Store, "source": c.Source, "states": r.States, "transitions": r.Transitions, "depth": r.MaxDepth, "closed": r.Closed}
	return res
}

// part structslice: a hand-written Go struct served by nodeutil.Node WITHOUT IgnoreEmpty, the cases of
// its choice are a list in a slice, a leaf-list in a slice, a container behind a pointer and a map-backed
// list. Every sequence of up to 5 upserts over the cases: after each one the Go object holds data of one
// case only (a non-nil empty slice or map counts as what the library itself takes it for: it must not
// make the library report the case) and the library's read shows exactly the case written last.
type c09SSPort struct{ N string }
type c09SSBox struct{ X string }
type c09SSObj struct {
	Port []*c09SSPort
	Tags []string
	Box  *c09SSBox
	Peer map[string]*c09SSPort
	O    string
}

func init() {
	model.Schemas["structslice"] = `module structslice { namespace "urn:ss"; prefix ss; revision 0;
  choice ch {
    case a { list port { key n; leaf n { type string; } } }
    case t { leaf-list tags { type string; } }
    case b { container box { leaf x { type string; } } }
    case p { list peer { key n; leaf n { type string; } } }
  }
  leaf o { type string; }
}`
}

func c09StructSlice() eng.Result {
	var res eng.Result
	ss := &sigSet{res: &res}
	m := model.SharedSchema("structslice")
	docs := map[string]string{"port": `{"port":[{"n":"p"}]}`, "tags": `{"tags":["x","y"]}`, "box": `{"box":{"x":"y"}}`, "peer": `{"peer":[{"n":"q"}]}`}
	names := []string{"port", "tags", "box", "peer"}
	var seqs [][]string
	var rec func(prefix []string)
	rec = func(prefix []string) {
		if len(prefix) > 0 {
			seqs = append(seqs, append([]string{}, prefix...))
		}
		if len(prefix) == 4 {
			return
		}
		for _, n := range names {
			if len(prefix) > 0 && prefix[len(prefix)-1] == n {
				continue
			}
			rec(append(prefix, n))
		}
	}
	rec(nil)
	for _, seq := range seqs {
		obj := &c09SSObj{O: "o"}
		b := node.NewBrowser(m, &nodeutil.Node{Object: obj})
		res.States++
		for i, step := range seq {
			var err error
			var out string
			fr, msg, pan := eng.Recover(func() {
				var n node.Node
				if n, err = nodeutil.ReadJSON(docs[step]); err != nil {
					return
				}
				if err = b.Root().UpsertFrom(n); err != nil {
					return
				}
				out, err = nodeutil.WriteJSON(b.Root())
			})
			res.Evals++
			res.Transitions++
			res.Nontriv++
			prev := "none"
			if i > 0 {
				prev = seq[i-1]
			}
			site := fmt.Sprintf("C09/structslice/%s-after-%s", step, prev)
			desc := fmt.Sprintf("upserts %v (step %d)", seq, i+1)
			if pan {
				ss.add(site+"/panic:"+fr, desc+": "+msg)
				break
			}
			if err != nil {
				ss.add(site+"/error-on-valid", desc+": "+err.Error())
				break
			}
			holds := map[string]bool{"port": len(obj.Port) > 0, "tags": len(obj.Tags) > 0, "box": obj.Box != nil, "peer": len(obj.Peer) > 0}
			for _, n := range names {
				if holds[n] != (n == step) {
					ss.add(site+"/two-cases-hold-data", fmt.Sprintf("%s: object holds %s=%v, written last: %s; object %+v", desc, n, holds[n], step, *obj))
				}
			}
			var doc map[string]interface{}
			if jerr := json.Unmarshal([]byte(out), &doc); jerr != nil {
				ss.add(site+"/read/not-json", desc+": "+out)
				break
			}
			for _, n := range names {
				if _, shown := doc[n]; shown != (n == step) {
					ss.add(site+fmt.Sprintf("/read/%s-shown-%v", map[bool]string{true: "written-case", false: "other-case"}[n == step], shown), fmt.Sprintf("%s: read gives %s", desc, out))
				}
			}
			if doc["o"] != "o" {
				ss.add(site+"/read/node-outside-the-choice-lost", fmt.Sprintf("%s: read gives %s", desc, out))
			}
		}
	}
	res.Outcomes = []string{"structslice"}
	return res
}

// part defaults: reading one leaf (Selection.GetValue) reports the default of a leaf inside a case
// only when that case is the one in effect: the case that holds data, or, when none does, the default
// case of the choice (RFC 7950 7.9.3) - at both levels of a nested choice. All subsets of set leaves
// that keep to one case per choice, on every store.
func init() {
	model.Schemas["casedefaults"] = `module casedefaults { namespace "urn:cd"; prefix cd; revision 0;
  leaf plain { type string; default "pd"; }
  choice ch { default b;
    case a { leaf a1 { type string; default "ad"; } leaf a2 { type string; } }
    case b { leaf b1 { type string; default "bd"; }
      choice in { default y; case x { leaf x1 { type string; default "xd"; } } case y { leaf y1 { type string; default "yd"; } } } } }
}`
}

func c09Defaults() eng.Result {
	var res eng.Result
	ss := &sigSet{res: &res}
	m := model.SharedSchema("casedefaults")
	leaves := []string{"plain", "a1", "a2", "b1", "x1", "y1"}
	defaults := map[string]string{"plain": "pd", "a1": "ad", "b1": "bd", "x1": "xd", "y1": "yd"}
	for bits := 0; bits < 1<<uint(len(leaves)); bits++ {
		set := map[string]bool{}
		for i, l := range leaves {
			set[l] = bits&(1<<uint(i)) != 0
		}
		caseA := set["a1"] || set["a2"]
		caseB := set["b1"] || set["x1"] || set["y1"]
		if (caseA && caseB) || (set["x1"] && set["y1"]) {
			continue // two cases of one choice: no such data
		}
		inEffect := map[string]bool{"plain": true, "a1": caseA, "a2": caseA, "b1": !caseA, "x1": !caseA && set["x1"], "y1": !caseA && !set["x1"]}
		doc := map[string]interface{}{}
		for _, l := range leaves {
			if set[l] {
				doc[l] = "set-" + l
			}
		}
		text, _ := json.Marshal(doc)
		for _, st := range []string{"ref", "reflect-map", "node-map"} {
			env := newEnv("casedefaults", st)
			t, err := model.FromJSON(m.DataDefinitions(), text)
			if err != nil {
				panic(err)
			}
			if err := env.populate(t); err != nil {
				panic(err)
			}
			res.States++
			for _, l := range leaves {
				var got val.Value
				var gerr error
				fr, msg, pan := eng.Recover(func() { got, gerr = env.b.Root().GetValue(l) })
				res.Evals++
				res.Nontriv++
				want := ""
				switch {
				case set[l]:
					want = "set-" + l
				case inEffect[l]:
					want = defaults[l]
				}
				site := fmt.Sprintf("C09/defaults/%s/%s", st, map[bool]string{true: "case-in-effect", false: "case-not-in-effect"}[inEffect[l] || set[l]])
				desc := fmt.Sprintf("data %s, GetValue(%s)", text, l)
				gotText := ""
				if got != nil {
					gotText = model.Lex(got)
				}
				switch {
				case pan:
					ss.add(site+"/panic:"+fr, desc+": "+msg)
				case gerr != nil:
					ss.add(site+"/error", desc+": "+gerr.Error())
				case gotText != want:
					ss.add(site+"/wrong-value", fmt.Sprintf("%s = %q, want %q", desc, gotText, want))
				}
			}
		}
	}
	res.Outcomes = []string{"defaults"}
	return res
}
