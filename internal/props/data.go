package props

import (
	"errors"
	"fmt"
	"strings"

	"github.com/freeconf/yang/fc"
	"github.com/freeconf/yang/meta"
	"github.com/freeconf/yang/node"
	"github.com/freeconf/yang/nodeutil"
	"github.com/freeconf/yang/parser"
	"github.com/freeconf/yang/val"
	"verif/internal/model"
	"verif/internal/store"
)

// dataEnv is one fresh schema + store + browser.
type dataEnv struct {
	m  *meta.Module
	st store.Store
	b  *node.Browser
	// srcUnordered: the source of the current edit is a Go map (no entry order)
	srcUnordered bool
}

func newEnv(schema, impl string) *dataEnv {
	m := model.SharedSchema(schema)
	st := store.NewFor(impl, m)
	return &dataEnv{m: m, st: st, b: node.NewBrowser(m, st.Root())}
}

func (e *dataEnv) canonOpts() model.CanonOpts {
	// Go structs cannot tell an empty list from no list
	return model.CanonOpts{IgnoreEntryOrder: e.st.MapLists(), EmptyListAbsent: store.IsStructImpl(e.st.Name()), ZeroLeafAbsent: store.IsStructImpl(e.st.Name())}
}

func (e *dataEnv) snap() *model.Tree { return e.st.Snapshot(e.m) }

// populate loads t into the (empty) store. The reference store is filled
// directly; library stores through the library itself, verified by direct
// inspection.
func (e *dataEnv) populate(t *model.Tree) error {
	if rs, ok := e.st.(interface{ Tree() *model.Tree }); ok {
		c := t.Clone()
		*rs.Tree() = *c
		return nil
	}
	if t.Empty() {
		return nil
	}
	if ld, ok := e.st.(interface {
		Load([]meta.Definition, *model.Tree) bool
	}); ok {
		if !ld.Load(e.m.DataDefinitions(), t) {
			return errUnrepresentable
		}
		got := e.snap()
		if kd, what := model.Diff(e.m.DataDefinitions(), t, got, e.canonOpts(), ""); kd != "" {
			return fmt.Errorf("harness: direct load mismatch (%s): %s", kd, what)
		}
		return nil
	}
	panic("store cannot be populated")
}

var errUnrepresentable = errors.New("tree not representable in this store layout")

// entryPoint addresses a node of the data tree by a Find-style path
// ("" root, "c", "c/d", "l", "l=a", "l=a/n").
type entryPoint struct {
	Path string `json:"path"`
}

func (ep entryPoint) kind(m *meta.Module) string {
	if ep.Path == "" {
		return "root"
	}
	segs := strings.Split(ep.Path, "/")
	last := segs[len(segs)-1]
	if strings.Contains(last, "=") {
		return "entry"
	}
	d := ep.def(m)
	if meta.IsList(d) {
		return "list"
	}
	if meta.IsLeaf(d) {
		return "leaf"
	}
	return "container"
}

// def returns the schema node addressed.
func (ep entryPoint) def(m *meta.Module) meta.Definition {
	if ep.Path == "" {
		return nil
	}
	var cur meta.Meta = m
	for _, seg := range strings.Split(ep.Path, "/") {
		if i := strings.Index(seg, "="); i >= 0 {
			seg = seg[:i]
		}
		d := meta.Find(cur, seg)
		if d == nil {
			panic("bad entry path " + ep.Path)
		}
		cur = d
	}
	return cur.(meta.Definition)
}

func (ep entryPoint) defs(m *meta.Module) []meta.Definition {
	if ep.Path == "" {
		return m.DataDefinitions()
	}
	return ep.def(m).(meta.HasDataDefinitions).DataDefinitions()
}

// keyText renders a leaf canon as URL key text (simple alphabets only).
func keyText(canon string) string {
	if strings.HasPrefix(canon, "\"") {
		return strings.Trim(canon, "\"")
	}
	return strings.TrimPrefix(canon, "enum:")
}

// locate finds the addressed container/entry tree or list inside t; nil if absent.
func (ep entryPoint) locate(m *meta.Module, t *model.Tree) (*model.Tree, *model.List) {
	if ep.Path == "" {
		return t, nil
	}
	var cur meta.Meta = m
	segs := strings.Split(ep.Path, "/")
	for i, seg := range segs {
		name, key := seg, ""
		hasKey := false
		if j := strings.Index(seg, "="); j >= 0 {
			name, key, hasKey = seg[:j], seg[j+1:], true
		}
		d := meta.Find(cur, name)
		cur = d
		if lm, ok := d.(*meta.List); ok {
			l, ok := t.Lists[name]
			if !ok {
				return nil, nil
			}
			if !hasKey {
				if i != len(segs)-1 {
					panic("list without key in the middle of " + ep.Path)
				}
				return nil, l
			}
			var found *model.Tree
			for _, e := range l.Entries {
				var ks []string
				for _, km := range lm.KeyMeta() {
					ks = append(ks, keyText(e.Leaves[km.Ident()].Canon))
				}
				if strings.Join(ks, ",") == key {
					found = e
				}
			}
			if found == nil {
				return nil, nil
			}
			t = found
			continue
		}
		c, ok := t.Conts[name]
		if !ok {
			return nil, nil
		}
		t = c
	}
	return t, nil
}

func errClass(err error) model.ErrClass {
	switch {
	case err == nil:
		return model.OK
	case errors.Is(err, fc.ConflictError):
		return model.Conflict
	case errors.Is(err, fc.NotFoundError):
		return model.NotFound
	}
	return model.Other
}

// sourceNode builds the source node for S at an entry point.
// kind: "ref" | "json". For list entry points S is a one-list tree holding
// the list under its identifier.
func sourceNode(kind string, m *meta.Module, ep entryPoint, s *model.Tree) (node.Node, error) {
	epKind := ep.kind(m)
	switch kind {
	case "ref":
		if epKind == "list" {
			lm := ep.def(m).(*meta.List)
			return store.ListNode(s.Clone().Lists[lm.Ident()], lm), nil
		}
		return store.ContainerNode(s.Clone()), nil
	case "json":
		if epKind == "list" {
			lm := ep.def(m).(*meta.List)
			return nodeutil.ReadJSON(s.ToJSON([]meta.Definition{lm}))
		}
		return nodeutil.ReadJSON(s.ToJSON(ep.defs(m)))
	case "xml":
		defs := ep.defs(m)
		if epKind == "list" {
			defs = []meta.Definition{ep.def(m).(*meta.List)}
		}
		return nodeutil.ReadXMLDoc(strings.NewReader("<data>" + xmlBody(defs, s) + "</data>"))
	}
	if strings.HasPrefix(kind, "lib:") {
		// a library node over Go data holding S at the entry point's path is the source
		env := newEnv(schemaNameOf(m), kind[4:])
		if err := env.populate(embedAt(m, ep, s)); err != nil {
			return nil, err
		}
		sel := env.b.Root()
		if ep.Path != "" {
			var err error
			if sel, err = sel.Find(ep.Path); err != nil || sel == nil {
				return nil, fmt.Errorf("harness: source find %s: %v", ep.Path, err)
			}
		}
		return sel.Node, nil
	}
	panic("unknown source kind " + kind)
}

func schemaNameOf(m *meta.Module) string { return m.Ident() }

func keyCanon(k []val.Value) string {
	var parts []string
	for _, v := range k {
		parts = append(parts, model.CanonVal(v))
	}
	return strings.Join(parts, "|")
}

type metaList = meta.List

// entryDocDefs: definitions a source document for an entry point is rooted at
// (a list entry point takes {"list":[...]}).
func entryDocDefs(m *meta.Module, ep entryPoint) []meta.Definition {
	if ep.kind(m) == "list" {
		return []meta.Definition{ep.def(m)}
	}
	return ep.defs(m)
}

func parserLoad(text string) (*meta.Module, error) {
	return parser.LoadModuleFromString(nil, text)
}
