package props

import (
	"bytes"
	"encoding/base64"
	"encoding/json"
	"fmt"
	"math"
	"math/big"
	"reflect"
	"strconv"
	"strings"

	"github.com/freeconf/yang/val"
	"verif/internal/eng"
)

// C10 — value conversion is exact or fails.
//
// part "conv": val.Conv(target format, source) for the full product
// target format x source Go kind x boundary value set; the reference is the
// exact denotation of the source (big.Rat / text / bool).
// part "oneof": val.ConvOneOf over ordered pairs of member formats.
// part "schema" (c10_schema.go): node.NewValue for enum/bits/identityref/union/leafref.

type c10 struct{ base }

func init() {
	eng.Register(&c10{base{id: "C10", level: "exploration",
		rule: "full product target format (all scalar and list formats) x source Go kind (int..uint64, float32/64, string forms, bool, named types, json.Number, slices, []interface{}) x boundary value set of the source kind; each conversion runs val.Conv / val.ConvOneOf / node.NewValue on the real code and is compared with the exact big.Rat/text denotation of the source. Non-trivial = distinct (target, source kind, value) where the source denotes a number/text/bool (i.e. conversion is meaningful), counted once"}})
}

type c10Case struct {
	Part   string `json:"part"`
	Target string `json:"target"`
	Kind   string `json:"kind"`
	List   bool   `json:"list,omitempty"`
	Second string `json:"second,omitempty"` // oneof
	Schema string `json:"schema,omitempty"` // schema part: leaf name
}

func (p *c10) Bounds(tier string) map[string]interface{} {
	return map[string]interface{}{
		"targets":        c10Targets,
		"source_kinds":   c10Kinds,
		"values":         "per source kind: type min/max and +-1, 0, +-1, 127/128, 255/256, 2^15, 2^16, 2^31, 2^32, 2^53, 2^63, 2^64 neighbours that the kind can hold; floats add -0.0, +-0.5, +-3.7, 1e20, 1e300, Inf, NaN; strings render each integer boundary plus sign/space/leading-zero/fraction/exponent/hex/non-numeric forms",
		"lists":          "every scalar value as a 1- and 2-element typed slice and as []interface{} mixed with a small in-range element",
		"quick=thorough": true,
	}
}

var c10Targets = []string{"int8", "uint8", "int16", "uint16", "int32", "uint32", "int64", "uint64", "decimal64", "boolean", "string", "binary", "empty"}
var c10Kinds = []string{"int", "int8", "int16", "int32", "int64", "uint", "uint8", "uint16", "uint32", "uint64", "float32", "float64", "string", "bool", "named-int32", "named-uint16", "named-int64", "named-string", "named-float64", "json.Number"}

func (p *c10) Cases(tier string, emit func(interface{})) {
	for _, t := range c10Targets {
		for _, k := range c10Kinds {
			emit(c10Case{Part: "conv", Target: t, Kind: k})
			if t != "binary" { // Conv has no binary list form of its own (it yields a string list)
				emit(c10Case{Part: "conv", Target: t, Kind: k, List: true})
			}
		}
	}
	for _, a := range c10Targets[:11] {
		for _, b := range c10Targets[:11] {
			if a != b {
				emit(c10Case{Part: "oneof", Target: a, Second: b})
			}
		}
	}
	c10SchemaCases(tier, emit)
	c10JSONCases(emit)
	c10XMLCases(emit)
}

type namedInt32 int32
type namedUint16 uint16
type namedInt64 int64
type namedString string
type namedFloat64 float64

// srcVal is one source value with its denotation.
type srcVal struct {
	v     interface{}
	num   *big.Rat // exact number denoted, if any
	txt   *string  // text denoted (string sources)
	boo   *bool
	class string // extra classification for signatures
	lbl   string
}

var c10IntCands = func() []*big.Int {
	var out []*big.Int
	for _, s := range []string{"0", "1", "-1", "2", "42", "-42", "127", "128", "-128", "-129", "200", "255", "256", "32767", "32768", "-32768", "-32769", "65535", "65536",
		"2147483647", "2147483648", "-2147483648", "-2147483649", "4294967295", "4294967296", "1099511627776", "9007199254740991", "9007199254740992", "9007199254740993",
		"9223372036854775806", "9223372036854775807", "9223372036854775808", "-9223372036854775807", "-9223372036854775808", "-9223372036854775809",
		"18446744073709551614", "18446744073709551615", "18446744073709551616"} {
		b, _ := new(big.Int).SetString(s, 10)
		out = append(out, b)
	}
	return out
}()

func kindRange(bits int, signed bool) (lo, hi *big.Int) {
	one := big.NewInt(1)
	if signed {
		return new(big.Int).Neg(new(big.Int).Lsh(one, uint(bits-1))), new(big.Int).Sub(new(big.Int).Lsh(one, uint(bits-1)), one)
	}
	return big.NewInt(0), new(big.Int).Sub(new(big.Int).Lsh(one, uint(bits)), one)
}

func c10Sources(kind string) []srcVal {
	var out []srcVal
	addInt := func(bits int, signed bool, mk func(*big.Int) interface{}) {
		lo, hi := kindRange(bits, signed)
		for _, c := range c10IntCands {
			if c.Cmp(lo) < 0 || c.Cmp(hi) > 0 {
				continue
			}
			out = append(out, srcVal{v: mk(c), num: new(big.Rat).SetInt(c), lbl: c.String()})
		}
	}
	switch kind {
	case "int":
		addInt(64, true, func(b *big.Int) interface{} { return int(b.Int64()) })
	case "int8":
		addInt(8, true, func(b *big.Int) interface{} { return int8(b.Int64()) })
	case "int16":
		addInt(16, true, func(b *big.Int) interface{} { return int16(b.Int64()) })
	case "int32":
		addInt(32, true, func(b *big.Int) interface{} { return int32(b.Int64()) })
	case "int64":
		addInt(64, true, func(b *big.Int) interface{} { return b.Int64() })
	case "uint":
		addInt(64, false, func(b *big.Int) interface{} { return uint(b.Uint64()) })
	case "uint8":
		addInt(8, false, func(b *big.Int) interface{} { return uint8(b.Uint64()) })
	case "uint16":
		addInt(16, false, func(b *big.Int) interface{} { return uint16(b.Uint64()) })
	case "uint32":
		addInt(32, false, func(b *big.Int) interface{} { return uint32(b.Uint64()) })
	case "uint64":
		addInt(64, false, func(b *big.Int) interface{} { return b.Uint64() })
	case "named-int32":
		addInt(32, true, func(b *big.Int) interface{} { return namedInt32(b.Int64()) })
	case "named-uint16":
		addInt(16, false, func(b *big.Int) interface{} { return namedUint16(b.Uint64()) })
	case "named-int64":
		addInt(64, true, func(b *big.Int) interface{} { return namedInt64(b.Int64()) })
	case "float64", "named-float64", "float32":
		fs := []float64{0, math.Copysign(0, -1), 0.5, -0.5, 3.7, -3.7, 1, -1, 127, 128, -128, -129, 200, 255, 255.5, 256, 32767, 32768, 65535, 65536,
			2147483647, 2147483648, -2147483648, -2147483649, 4294967295, 4294967296, 9007199254740991, 9007199254740992, 9007199254740994,
			9223372036854775808, -9223372036854775808, -9223372036854777856, 18446744073709551616, 1e20, -1e20, 1e300, math.Inf(1), math.Inf(-1), math.NaN(), 0.1, 1e-7}
		for _, f := range fs {
			var v interface{} = f
			ff := f
			if kind == "float32" {
				if math.Abs(f) > math.MaxFloat32 && !math.IsInf(f, 0) {
					continue
				}
				v = float32(f)
				ff = float64(float32(f))
			} else if kind == "named-float64" {
				v = namedFloat64(f)
			}
			s := srcVal{v: v, lbl: fmt.Sprint(v)}
			if math.IsNaN(ff) || math.IsInf(ff, 0) {
				s.class = "non-finite"
			} else {
				s.num = new(big.Rat)
				s.num.SetFloat64(ff)
			}
			out = append(out, s)
		}
	case "string", "named-string", "json.Number":
		var texts []string
		for _, c := range c10IntCands {
			texts = append(texts, c.String())
		}
		texts = append(texts, "+5", "-0", " 5", "5 ", "05", "5.0", "5.5", "-5.5", ".5", "5.", "1e3", "1E3", "1e-3", "0x10", "0x1p4", "1_0", "", "abc", "NaN", "Inf", "inf", "-Infinity", "true", "false", "1", "0", "yes", "no", "np", "٣", "é", "a b", "0.1", "3.7", "9223372036854775807.5", "1e400")
		for _, t := range texts {
			t := t
			var v interface{} = t
			if kind == "named-string" {
				v = namedString(t)
			} else if kind == "json.Number" {
				v = json.Number(t)
			}
			s := srcVal{v: v, txt: &t, lbl: fmt.Sprintf("%q", t)}
			s.num, s.class = textNumber(t)
			switch t {
			case "1", "true", "yes":
				b := true
				s.boo = &b
			case "0", "false", "no":
				b := false
				s.boo = &b
			}
			out = append(out, s)
		}
	case "bool":
		for _, b := range []bool{false, true} {
			b := b
			out = append(out, srcVal{v: b, boo: &b, lbl: fmt.Sprint(b)})
		}
	}
	return out
}

// textNumber gives the number a text denotes in plain decimal (or Go float)
// notation, or nil with a class saying why not.
func textNumber(t string) (*big.Rat, string) {
	if t == "" {
		return nil, "empty-text"
	}
	ok := true
	for _, r := range t {
		if !(r >= '0' && r <= '9' || strings.ContainsRune("+-.eExXpP_abcdefABCDEF", r)) {
			ok = false
		}
	}
	lower := strings.ToLower(t)
	if strings.Contains(lower, "inf") || strings.Contains(lower, "nan") {
		return nil, "non-finite-text"
	}
	if !ok {
		return nil, "non-numeric-text"
	}
	if strings.Contains(t, "_") {
		// Go syntax allows digit separators; either rejecting or reading 1_0 as 10 is exact
		r := new(big.Rat)
		if _, ok := r.SetString(strings.Replace(t, "_", "", -1)); ok {
			return r, "underscore-text"
		}
		return nil, "non-numeric-text"
	}
	r := new(big.Rat)
	if strings.HasPrefix(lower, "0x") || strings.HasPrefix(lower, "-0x") || strings.HasPrefix(lower, "+0x") {
		if f, err := strconv.ParseFloat(t, 64); err == nil {
			r.SetFloat64(f)
			return r, "hex-text"
		}
		if i, ok := new(big.Int).SetString(t, 0); ok {
			return r.SetInt(i), "hex-text"
		}
		return nil, "non-numeric-text"
	}
	if _, ok := r.SetString(t); ok {
		return r, "numeric-text"
	}
	return nil, "non-numeric-text"
}

// kindGroup coarsens source kinds for signatures.
func kindGroup(k string) string {
	switch {
	case strings.Contains(k, "float"):
		return "float"
	case strings.Contains(k, "uint"):
		return "unsigned"
	case strings.Contains(k, "int"):
		return "signed"
	case strings.Contains(k, "string"), k == "json.Number":
		return "text"
	}
	return k
}

func fmtOf(name string, list bool) val.Format {
	f, ok := val.TypeAsFormat(name)
	if !ok {
		panic(name)
	}
	if list {
		return f.List()
	}
	return f
}

func intTargetRange(t string) (lo, hi *big.Int, ok bool) {
	switch t {
	case "int8":
		lo, hi = kindRange(8, true)
	case "int16":
		lo, hi = kindRange(16, true)
	case "int32":
		lo, hi = kindRange(32, true)
	case "int64":
		lo, hi = kindRange(64, true)
	case "uint8":
		lo, hi = kindRange(8, false)
	case "uint16":
		lo, hi = kindRange(16, false)
	case "uint32":
		lo, hi = kindRange(32, false)
	case "uint64":
		lo, hi = kindRange(64, false)
	default:
		return nil, nil, false
	}
	return lo, hi, true
}

// valueClass describes where the source value lies relative to the target.
func valueClass(target string, s srcVal) string {
	if s.class != "" && s.num == nil {
		return s.class
	}
	if s.num == nil {
		if s.boo != nil {
			return "bool"
		}
		return "text"
	}
	lo, hi, isInt := intTargetRange(target)
	if !isInt {
		if s.class != "" {
			return s.class
		}
		if s.num.IsInt() {
			return "integral"
		}
		return "fractional"
	}
	pre := ""
	if s.class != "" && s.class != "numeric-text" {
		pre = s.class + "-"
	}
	if !s.num.IsInt() {
		return pre + "fractional"
	}
	n := s.num.Num()
	switch {
	case n.Cmp(lo) < 0 && lo.Sign() == 0:
		return pre + "negative-to-unsigned"
	case n.Cmp(lo) < 0:
		return pre + "below-min"
	case n.Cmp(hi) > 0:
		return pre + "above-max"
	}
	return pre + "in-range"
}

// denoteScalar gives the number/text/bool a result value denotes.
func goNumber(x interface{}) (*big.Rat, bool) {
	rv := reflect.ValueOf(x)
	switch {
	case rv.CanInt():
		return new(big.Rat).SetInt64(rv.Int()), true
	case rv.CanUint():
		return new(big.Rat).SetInt(new(big.Int).SetUint64(rv.Uint())), true
	case rv.CanFloat():
		f := rv.Float()
		if math.IsNaN(f) || math.IsInf(f, 0) {
			return nil, false
		}
		r := new(big.Rat)
		r.SetFloat64(f)
		return r, true
	}
	return nil, false
}

// checkScalar compares one successful scalar conversion with the source.
// got is the Go value of the result (Value() of a scalar or an element).
func checkScalar(target string, s srcVal, got interface{}, str string) (symptom, what string) {
	_, _, isInt := intTargetRange(target)
	switch {
	case isInt:
		g, ok := goNumber(got)
		if !ok {
			return "not-a-number", fmt.Sprintf("result %v (%T)", got, got)
		}
		if s.num == nil {
			return "number-from-non-number", fmt.Sprintf("source %s denotes no number but converted to %s", s.lbl, g.RatString())
		}
		if g.Cmp(s.num) != 0 {
			return "different-number", fmt.Sprintf("source %s converted to %s", s.lbl, g.RatString())
		}
	case target == "decimal64":
		f, ok := got.(float64)
		if !ok {
			return "wrong-go-type", fmt.Sprintf("%T", got)
		}
		if s.num == nil {
			return "number-from-non-number", fmt.Sprintf("source %s denotes no number but converted to %v", s.lbl, f)
		}
		want, _ := s.num.Float64()
		if math.IsInf(want, 0) {
			return "out-of-range-accepted", fmt.Sprintf("source %s converted to %v", s.lbl, f)
		}
		if f != want {
			return "different-number", fmt.Sprintf("source %s converted to %v, nearest float64 is %v", s.lbl, f, want)
		}
	case target == "boolean":
		b, ok := got.(bool)
		if !ok {
			return "wrong-go-type", fmt.Sprintf("%T", got)
		}
		if s.boo == nil {
			return "bool-from-non-bool", fmt.Sprintf("source %s converted to %v", s.lbl, b)
		}
		if b != *s.boo {
			return "different-truth-value", fmt.Sprintf("source %s converted to %v", s.lbl, b)
		}
	case target == "string":
		t, ok := got.(string)
		if !ok {
			return "wrong-go-type", fmt.Sprintf("%T", got)
		}
		switch {
		case s.txt != nil:
			if t != *s.txt {
				return "different-text", fmt.Sprintf("source %s converted to %q", s.lbl, t)
			}
		case s.boo != nil:
			if t != strconv.FormatBool(*s.boo) {
				return "different-text", fmt.Sprintf("source %s converted to %q", s.lbl, t)
			}
		case s.num != nil:
			// reading the text back as the source kind must give the original
			if !readsBack(s, t) {
				return "different-number", fmt.Sprintf("source %s converted to text %q, which does not read back as the source", s.lbl, t)
			}
		default: // non-finite float: any text naming it
		}
	case target == "binary":
		b, ok := got.([]byte)
		if !ok {
			return "wrong-go-type", fmt.Sprintf("%T", got)
		}
		if src, isBytes := s.v.([]byte); isBytes && !bytes.Equal(src, b) {
			return "different-bytes", fmt.Sprintf("%v -> %v", src, b)
		}
		if s.txt != nil {
			// text is the base64 form (RFC 7950 9.8.2): reading the value back gives the bytes it encodes
			want, err := base64.StdEncoding.DecodeString(*s.txt)
			if err != nil {
				return "text-that-is-not-base64-accepted", fmt.Sprintf("source %s accepted, reads back as %v", s.lbl, b)
			}
			if !bytes.Equal(want, b) {
				return "different-bytes", fmt.Sprintf("source %s reads back as %v, it encodes %v", s.lbl, b, want)
			}
		}
	}
	return "", ""
}

func readsBack(s srcVal, t string) bool {
	rv := reflect.ValueOf(s.v)
	switch {
	case rv.CanInt():
		i, err := strconv.ParseInt(t, 10, 64)
		return err == nil && i == rv.Int()
	case rv.CanUint():
		i, err := strconv.ParseUint(t, 10, 64)
		return err == nil && i == rv.Uint()
	case rv.CanFloat():
		bits := 64
		if rv.Kind() == reflect.Float32 {
			bits = 32
		}
		f, err := strconv.ParseFloat(t, bits)
		return err == nil && f == rv.Float()
	}
	return true
}

func (p *c10) Run(raw json.RawMessage) eng.Result {
	var c c10Case
	decode(raw, &c)
	switch c.Part {
	case "conv":
		return c10RunConv(c)
	case "oneof":
		return c10RunOneOf(c)
	case "schema":
		return c10RunSchema(c)
	case "jsontext":
		return c10RunJSONText(c)
	case "xmltext":
		return c10RunXMLText(c)
	}
	panic("bad part")
}

type sigSet struct {
	res  *eng.Result
	seen map[string]bool
}

func (s *sigSet) add(sig, what string) {
	if s.seen == nil {
		s.seen = map[string]bool{}
	}
	if !s.seen[sig] {
		s.seen[sig] = true
		s.res.Add(sig, what)
	}
}

func elemOf(v val.Value, i int) (interface{}, string, bool) {
	if l, ok := v.(val.Listable); ok {
		if i >= l.Len() {
			return nil, "", false
		}
		it := l.Item(i)
		return it.Value(), it.String(), true
	}
	return nil, "", false
}

func c10RunConv(c c10Case) eng.Result {
	var res eng.Result
	ss := &sigSet{res: &res}
	srcs := c10Sources(c.Kind)
	f := fmtOf(c.Target, c.List)
	ocs := map[string]bool{}
	one := func(input interface{}, elems []srcVal, shape string) {
		var v val.Value
		var err error
		fr, msg, pan := eng.Recover(func() { v, err = val.Conv(f, input) })
		res.Evals++
		_ = shape
		site := fmt.Sprintf("C10/conv/%s%s/%s", c.Target, map[bool]string{true: "-list", false: ""}[c.List], kindGroup(c.Kind))
		for _, e := range elems {
			if e.num != nil || e.txt != nil || e.boo != nil {
				res.Nontriv++
			}
		}
		if pan {
			ss.add(site+"/panic:"+fr, fmt.Sprintf("Conv(%s, %s) panics: %s", f, elems[0].lbl, msg))
			return
		}
		if err != nil {
			ocs["error"] = true
			return
		}
		if v == nil {
			ss.add(site+"/nil-without-error", fmt.Sprintf("Conv(%s, %s) returned (nil, nil)", f, elems[0].lbl))
			return
		}
		ocs["ok"] = true
		if v.Format() != f && !(c.Target == "empty") && !(c.Target == "binary" && c.List) {
			ss.add(site+"/wrong-format", fmt.Sprintf("Conv(%s, %s) returned format %s", f, elems[0].lbl, v.Format()))
			return
		}
		if c.Target == "empty" {
			return
		}
		if !c.List {
			if sym, what := checkScalar(c.Target, elems[0], v.Value(), v.String()); sym != "" {
				ss.add(site+"/"+valueClass(c.Target, elems[0])+"/"+sym, fmt.Sprintf("Conv(%s, %T %s): %s", f, elems[0].v, elems[0].lbl, what))
			}
			return
		}
		l, ok := v.(val.Listable)
		if !ok {
			if c.Target == "binary" {
				return
			}
			ss.add(site+"/not-listable", fmt.Sprintf("Conv(%s, …) result %T is not a list", f, v))
			return
		}
		if l.Len() != len(elems) {
			ss.add(site+"/wrong-length", fmt.Sprintf("Conv(%s, %d elements) has %d elements", f, len(elems), l.Len()))
			return
		}
		for i, e := range elems {
			it := l.Item(i)
			if sym, what := checkScalar(c.Target, e, it.Value(), it.String()); sym != "" {
				ss.add(site+"/"+valueClass(c.Target, e)+"/"+sym, fmt.Sprintf("Conv(%s, %s element %d %s): %s", f, shape, i, e.lbl, what))
			}
		}
	}
	small := srcVal{v: int(1), num: big.NewRat(1, 1), lbl: "1"}
	for _, s := range srcs {
		if !c.List {
			one(s.v, []srcVal{s}, "")
			continue
		}
		// single value given where a list is wanted
		one(s.v, []srcVal{s}, "/single")
		// typed slice of 1 and 2 elements
		rt := reflect.TypeOf(s.v)
		sl := reflect.MakeSlice(reflect.SliceOf(rt), 0, 2)
		sl1 := reflect.Append(sl, reflect.ValueOf(s.v))
		one(sl1.Interface(), []srcVal{s}, "/typed-slice")
		sl2 := reflect.Append(sl1, reflect.ValueOf(srcs[0].v))
		one(sl2.Interface(), []srcVal{s, srcs[0]}, "/typed-slice")
		// []interface{} mixed with a small int
		one([]interface{}{small.v, s.v}, []srcVal{small, s}, "/iface-slice")
	}
	if !c.List && c.Target == "binary" && c.Kind == "uint8" {
		for _, b := range [][]byte{{}, {0}, {1, 2, 3}, {255, 254, 0, 10}} {
			one(b, []srcVal{{v: b, lbl: fmt.Sprint(b)}}, "/bytes")
		}
	}
	for k := range ocs {
		res.Outcomes = append(res.Outcomes, c.Target+":"+k)
	}
	return res
}

func c10RunOneOf(c c10Case) eng.Result {
	var res eng.Result
	ss := &sigSet{res: &res}
	fs := []val.Format{fmtOf(c.Target, false), fmtOf(c.Second, false)}
	names := []string{c.Target, c.Second}
	for _, k := range []string{"int", "int64", "uint64", "float64", "string", "bool"} {
		for _, s := range c10Sources(k) {
			var v val.Value
			var f val.Format
			var err error
			fr, msg, pan := eng.Recover(func() { v, f, err = val.ConvOneOf(fs, s.v) })
			res.Evals++
			site := fmt.Sprintf("C10/oneof/%s", kindGroup(k))
			if pan {
				ss.add(site+"/panic:"+fr, fmt.Sprintf("ConvOneOf(%v, %s) panics: %s", names, s.lbl, msg))
				continue
			}
			if err != nil {
				continue
			}
			res.Nontriv++
			if v == nil {
				ss.add(site+"/nil-without-error", fmt.Sprintf("ConvOneOf(%v, %s) returned nil value without error", names, s.lbl))
				continue
			}
			idx := -1
			for i, cand := range fs {
				if cand == f {
					idx = i
				}
			}
			if idx < 0 || v.Format() != f {
				ss.add(site+"/wrong-format", fmt.Sprintf("ConvOneOf(%v, %s) reports format %s, value format %s", names, s.lbl, f, v.Format()))
				continue
			}
			if sym, what := checkScalar(names[idx], s, v.Value(), v.String()); sym != "" {
				ss.add("C10/oneof/"+names[idx]+"/"+kindGroup(k)+"/"+valueClass(names[idx], s)+"/"+sym, fmt.Sprintf("ConvOneOf(%v, %T %s) chose %s: %s", names, s.v, s.lbl, names[idx], what))
			}
		}
	}
	return res
}
