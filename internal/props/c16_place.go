package props

import (
	"fmt"
	"github.com/freeconf/yang/meta"
	"net/url"
	"strings"

	"github.com/freeconf/yang/node"
	"github.com/freeconf/yang/val"
	"verif/internal/eng"
	"verif/internal/model"
	"verif/internal/store"
)

// C16 part "place": where the `when` stands and what its path looks like.
//
// One int32 operand, literal 10, all six operators, operand in {unset, 9, 10, 11}.
// Placements: when on a container / leaf / leaf-list / list inside a container
// and inside a list entry, on a choice, a case, a uses (leaf and container
// members), an augment (leaf and container members); path shapes: child,
// parent step, two parent steps, descending path, own-prefix-qualified name.
// Context node (RFC 7950 7.21.5, with the library's tested convention that a
// leaf's `when` is evaluated at its parent): the node itself for containers
// and list entries, the parent for leaves and leaf-lists, the closest ancestor
// data node for uses / choice / case, the target node for augment.
//
// Oracle: the guarded node is visible to a full read, and written by an
// upsert, exactly when the comparison holds; every unguarded node of the tree
// is unaffected.

type c16Place struct {
	name    string
	guarded string // path of the guarded node, segments separated by "/" ("l=k" for list entries)
	operand string // path of the operand leaf
	extra   string // path of an unguarded witness that must stay visible
}

// %s = operator+literal
const c16PlaceModule = `module wp { namespace "urn:wp"; prefix wp; revision 0;
  leaf z { type int32; }
  leaf keep { type string; }
  container c { leaf cz { type int32; } leaf keep { type string; }
    container inner { when "../cz%[1]s"; leaf q { type string; } }
    container deep { container deeper { when "../../cz%[1]s"; leaf q { type string; } } }
    leaf-list ll { when "cz%[1]s"; type string; }
    leaf lf { when "cz%[1]s"; type string; }
    leaf lfp { when "../cz%[1]s"; type string; }
    list li { when "../cz%[1]s"; key k; leaf k { type string; } leaf v { type string; } }
    choice ch { when "cz%[1]s"; case a { leaf a1 { type string; } } case b { leaf b1 { type string; } } }
    choice ch2 { case x { when "cz%[1]s"; leaf x1 { type string; } container xc { leaf q { type string; } } } case y { leaf y1 { type string; } } }
  }
  list l { key k; leaf k { type string; } leaf z { type int32; } leaf keep { type string; }
    container sub { when "../z%[1]s"; leaf q { type string; } }
    leaf y { when "z%[1]s"; type string; }
    container self { when "sz%[1]s"; leaf sz { type int32; } leaf q { type string; } }
  }
  container d { when "e/ez%[1]s"; container e { leaf ez { type int32; } } leaf q { type string; } }
  container p { when "wp:pz%[1]s"; leaf pz { type int32; } leaf q { type string; } }
  container u { leaf uz { type int32; } leaf keep { type string; } uses g { when "uz%[1]s"; } }
  grouping g { leaf gu { type string; } container gc { leaf q { type string; } } list gl { key k; leaf k { type string; } } }
  container t { leaf tz { type int32; } leaf keep { type string; } }
  augment "/t" { when "tz%[1]s"; leaf au { type string; } container ac { leaf q { type string; } } }
}`

var c16Places = []c16Place{
	{"container/parent-step", "c/inner", "c/cz", "c/keep"},
	{"container/two-parent-steps", "c/deep/deeper", "c/cz", "c/keep"},
	{"leaf-list/sibling", "c/ll", "c/cz", "c/keep"},
	{"leaf/sibling", "c/lf", "c/cz", "c/keep"},
	{"leaf/rfc-style-sibling", "c/lfp", "c/cz", "c/keep"},
	{"list/parent-step", "c/li", "c/cz", "c/keep"},
	{"choice/ancestor-context", "c/a1", "c/cz", "c/keep"},
	{"case/ancestor-context/leaf", "c/x1", "c/cz", "c/keep"},
	{"case/ancestor-context/container", "c/xc", "c/cz", "c/keep"},
	{"in-list-entry/container/parent-step", "l=a/sub", "l=a/z", "l=a/keep"},
	{"in-list-entry/leaf/sibling", "l=a/y", "l=a/z", "l=a/keep"},
	{"in-list-entry/container/child", "l=a/self", "l=a/self/sz", "l=a/keep"},
	{"container/descending-path", "d", "d/e/ez", "keep"},
	{"container/prefixed-name", "p", "p/pz", "keep"},
	{"uses/leaf-member", "u/gu", "u/uz", "u/keep"},
	{"uses/container-member", "u/gc", "u/uz", "u/keep"},
	{"uses/list-member", "u/gl", "u/uz", "u/keep"},
	{"augment/leaf-member", "t/au", "t/tz", "t/keep"},
	{"augment/container-member", "t/ac", "t/tz", "t/keep"},
}

// c16Put sets a node at path in t: leaves get v, containers / lists a minimal content.
func c16Put(m *model.Tree, path string, leaf val.Value, kind string) {
	segs := strings.Split(path, "/")
	cur := m
	for i, s := range segs {
		last := i == len(segs)-1
		if j := strings.Index(s, "="); j >= 0 {
			id, key := s[:j], s[j+1:]
			l, ok := cur.Lists[id]
			if !ok {
				l = &model.List{}
				cur.Lists[id] = l
			}
			var e *model.Tree
			for _, x := range l.Entries {
				if keyText(x.Leaves["k"].Canon) == key {
					e = x
				}
			}
			if e == nil {
				e = model.NewTree()
				e.Leaves["k"] = model.L(val.String(key))
				l.Entries = append(l.Entries, e)
			}
			cur = e
			continue
		}
		if !last {
			c, ok := cur.Conts[s]
			if !ok {
				c = model.NewTree()
				cur.Conts[s] = c
			}
			cur = c
			continue
		}
		switch kind {
		case "leaf":
			cur.Leaves[s] = model.L(leaf)
		case "leaf-list":
			cur.Leaves[s] = model.L(val.StringList{"a", "b"})
		case "container":
			c, ok := cur.Conts[s]
			if !ok {
				c = model.NewTree()
				cur.Conts[s] = c
			}
			c.Leaves["q"] = model.L(val.String("qq"))
		case "list":
			e := model.NewTree()
			e.Leaves["k"] = model.L(val.String("a"))
			if s == "li" {
				e.Leaves["v"] = model.L(val.String("vv"))
			}
			cur.Lists[s] = &model.List{Entries: []*model.Tree{e}}
		}
	}
}

func c16Has(t *model.Tree, path string) bool {
	segs := strings.Split(path, "/")
	cur := t
	for i, s := range segs {
		last := i == len(segs)-1
		if j := strings.Index(s, "="); j >= 0 {
			l, ok := cur.Lists[s[:j]]
			if !ok {
				return false
			}
			var e *model.Tree
			for _, x := range l.Entries {
				if keyText(x.Leaves["k"].Canon) == s[j+1:] {
					e = x
				}
			}
			if e == nil {
				return false
			}
			cur = e
			continue
		}
		if last {
			_, a := cur.Leaves[s]
			cc, b := cur.Conts[s]
			l, c := cur.Lists[s]
			// an empty non-presence container carries no data
			return a || (b && cc.Size() > 0) || (c && len(l.Entries) > 0)
		}
		c, ok := cur.Conts[s]
		if !ok {
			return false
		}
		cur = c
	}
	return false
}

func c16GuardKind(p c16Place) string {
	switch {
	case strings.HasSuffix(p.guarded, "/ll"):
		return "leaf-list"
	case strings.HasSuffix(p.guarded, "/li"), strings.HasSuffix(p.guarded, "/gl"):
		return "list"
	case strings.HasSuffix(p.guarded, "/lf"), strings.HasSuffix(p.guarded, "/lfp"), strings.HasSuffix(p.guarded, "/a1"), strings.HasSuffix(p.guarded, "/x1"),
		strings.HasSuffix(p.guarded, "/y"), strings.HasSuffix(p.guarded, "/gu"), strings.HasSuffix(p.guarded, "/au"):
		return "leaf"
	}
	return "container"
}

func c16RunPlace(op string) eng.Result {
	var res eng.Result
	ss := &sigSet{res: &res}
	opName := map[string]string{"=": "eq", "!=": "ne", "<": "lt", "<=": "le", ">": "gt", ">=": "ge"}[op]
	text := fmt.Sprintf(c16PlaceModule, op+"10")
	m := model.LoadText(text)
	lit := val.Int32(10)
	for _, p := range c16Places {
		kind := c16GuardKind(p)
		for _, ov := range []interface{}{nil, 9, 10, 11} {
			var operand val.Value
			class := "unset"
			if ov != nil {
				operand = val.Int32(ov.(int))
				class = map[int]string{9: "below", 10: "equal", 11: "above"}[ov.(int)]
			}
			truth := c16Truth("int32", op, operand, lit)
			build := func(withGuarded bool) *model.Tree {
				t := model.NewTree()
				if operand != nil {
					c16Put(t, p.operand, operand, "leaf")
				}
				c16Put(t, p.extra, val.String("kk"), "leaf")
				if withGuarded {
					c16Put(t, p.guarded, val.String("gg"), kind)
				}
				return t
			}
			site := fmt.Sprintf("C16/place/%s/%s/%s", p.name, opName, class)
			desc := fmt.Sprintf("when at %s with operand %s %v, expression %s10", p.guarded, p.operand, ov, op)
			// read
			{
				t := build(true)
				got := model.NewTree()
				var err error
				fr, msg, pan := eng.Recover(func() {
					err = node.NewBrowser(m, store.NewRef(t).Node()).Root().UpsertInto(store.ContainerNode(got))
				})
				res.Evals++
				res.Nontriv++
				switch {
				case pan:
					ss.add(site+"/read/panic:"+fr, desc+": "+msg)
				case err != nil:
					ss.add(site+"/read/error-aborts-read", desc+": "+err.Error())
				case c16Has(got, p.guarded) != truth:
					ss.add(site+fmt.Sprintf("/read/visible-%v-want-%v", c16Has(got, p.guarded), truth), desc+fmt.Sprintf("; read gives %s", got))
				case !c16Has(got, p.extra):
					ss.add(site+"/read/other-node-hidden", desc+fmt.Sprintf("; %s missing from %s", p.extra, got))
				}
			}
			// edit: target holds operand and witness, source adds the guarded node
			{
				ts := store.NewRef(build(false))
				src := build(true)
				var err error
				fr, msg, pan := eng.Recover(func() {
					err = node.NewBrowser(m, ts.Node()).Root().UpsertFrom(store.ContainerNode(src))
				})
				res.Evals++
				res.Nontriv++
				switch {
				case pan:
					ss.add(site+"/edit/panic:"+fr, desc+": "+msg)
				case err != nil && !truth:
					// writing a node whose when is false may be refused with an error, as long as it is not written
					if c16Has(ts.T, p.guarded) {
						ss.add(site+"/edit/written-despite-error", desc+": "+err.Error())
					}
				case err != nil:
					ss.add(site+"/edit/error-aborts-edit", desc+": "+err.Error())
				case c16Has(ts.T, p.guarded) != truth && kind == "list" && !truth:
					// one signature per placement: independent of operator and operand
					ss.add(fmt.Sprintf("C16/place/%s/edit/list-entries-written-although-when-is-false", p.name), desc+fmt.Sprintf("; target now %s", ts.T))
				case c16Has(ts.T, p.guarded) != truth:
					ss.add(site+fmt.Sprintf("/edit/written-%v-want-%v", c16Has(ts.T, p.guarded), truth), desc+fmt.Sprintf("; target now %s", ts.T))
				case !c16Has(ts.T, p.extra):
					ss.add(site+"/edit/other-node-lost", desc)
				}
			}
		}
	}
	if op == "=" {
		c16BothWhens(&res, ss)
		c16NestedUsesWhens(&res, ss)
		c16WhenOnWhen(&res, ss)
		c16Compound(&res, ss)
		c16WhenAndWhere(&res, ss)
	}
	res.Outcomes = []string{"place" + op}
	return res
}

// c16BothWhens: a node that states a when of its own and gets another one from the uses or the
// augment that adds it is there only when both hold (RFC 7950 7.21.5).
func c16BothWhens(res *eng.Result, ss *sigSet) {
	// the members' own conditions disagree with each other for some operand values
	text := `module wb { namespace "urn:wb"; prefix wb; revision 0;
  container u { leaf uz { type int32; } leaf keep { type string; }
    uses g { when "uz>5"; } }
  grouping g { leaf gu { when "uz<20"; type string; } container gc { when "../uz<15"; leaf q { type string; } } leaf g3 { when "uz<8"; type string; } leaf g4 { type string; } }
  container t { leaf tz { type int32; } choice tch { leaf other { type string; } } }
  augment "/t/tch" { when "tz>5"; case ca { when "tz<20"; leaf cl { type string; } } case cb { when "tz<8"; leaf cm { type string; } } leaf sh { when "../tz<15"; type string; } }
  augment "/t" { when "tz>5"; leaf au { when "tz<20"; type string; } container ac { when "../tz<15"; leaf q { type string; } } leaf a3 { when "tz<8"; type string; } leaf a4 { type string; } }
}`
	m := model.LoadText(text)
	upper := map[string]int{"u/gu": 20, "u/gc": 15, "u/g3": 8, "u/g4": 1 << 30, "t/au": 20, "t/ac": 15, "t/a3": 8, "t/a4": 1 << 30, "t/cl": 20, "t/cm": 8, "t/sh": 15}
	for _, p := range []c16Place{
		{"uses/leaf-member-with-own-when", "u/gu", "u/uz", "u/keep"},
		{"uses/container-member-with-own-when", "u/gc", "u/uz", "u/keep"},
		{"uses/last-leaf-member-with-own-when", "u/g3", "u/uz", "u/keep"},
		{"uses/member-without-own-when", "u/g4", "u/uz", "u/keep"},
		{"augment/leaf-member-with-own-when", "t/au", "t/tz", "t/tz"},
		{"augment/container-member-with-own-when", "t/ac", "t/tz", "t/tz"},
		{"augment/last-leaf-member-with-own-when", "t/a3", "t/tz", "t/tz"},
		{"augment/member-without-own-when", "t/a4", "t/tz", "t/tz"},
		{"augment-of-choice/case-with-own-when", "t/cl", "t/tz", "t/tz"},
		{"augment-of-choice/last-case-with-own-when", "t/cm", "t/tz", "t/tz"},
		{"augment-of-choice/shorthand-leaf-with-own-when", "t/sh", "t/tz", "t/tz"},
	} {
		for _, ov := range []int{3, 6, 10, 17, 25} {
			truth := ov > 5 && ov < upper[p.guarded]
			class := map[int]string{3: "outer-false", 6: "all-true", 10: "one-sibling-false", 17: "two-siblings-false", 25: "all-own-false"}[ov]
			t := model.NewTree()
			c16Put(t, p.operand, val.Int32(ov), "leaf")
			kind := "leaf"
			if strings.HasSuffix(p.guarded, "c") {
				kind = "container"
			}
			c16Put(t, p.guarded, val.String("gg"), kind)
			got := model.NewTree()
			var err error
			fr, msg, pan := eng.Recover(func() {
				err = node.NewBrowser(m, store.NewRef(t).Node()).Root().UpsertInto(store.ContainerNode(got))
			})
			res.Evals++
			res.Nontriv++
			site := fmt.Sprintf("C16/place/%s/%s", p.name, class)
			desc := fmt.Sprintf("own when and handed-down when at %s, operand %d", p.guarded, ov)
			switch {
			case pan:
				ss.add(site+"/read/panic:"+fr, desc+": "+msg)
			case err != nil:
				ss.add(site+"/read/error-aborts-read", desc+": "+err.Error())
			case c16Has(got, p.guarded) != truth:
				ss.add(site+fmt.Sprintf("/read/visible-%v-want-%v", c16Has(got, p.guarded), truth), desc+fmt.Sprintf("; read gives %s", got))
			}
		}
	}
}

// c16NestedUsesWhens: a uses with a when inside a grouping that is used with a when, around a leaf
// with a when of its own: the leaf is there exactly when all three hold.
func c16NestedUsesWhens(res *eng.Result, ss *sigSet) {
	m := model.LoadText(`module wn { namespace "urn:wn"; prefix wn; revision 0;
  grouping gi { leaf gn { when "uz<20"; type string; } leaf gp { type string; } }
  grouping go { uses gi { when "uz>5"; } leaf gq { type string; } }
  container u { leaf uz { type int32; } uses go { when "uz!=10"; } }
}`)
	for _, leaf := range []string{"gn", "gp", "gq"} {
		for _, ov := range []int{3, 6, 10, 17, 25} {
			truth := map[string]bool{"gn": ov != 10 && ov > 5 && ov < 20, "gp": ov != 10 && ov > 5, "gq": ov != 10}[leaf]
			t := model.NewTree()
			c16Put(t, "u/uz", val.Int32(ov), "leaf")
			c16Put(t, "u/"+leaf, val.String("gg"), "leaf")
			got := model.NewTree()
			var err error
			fr, msg, pan := eng.Recover(func() {
				err = node.NewBrowser(m, store.NewRef(t).Node()).Root().UpsertInto(store.ContainerNode(got))
			})
			res.Evals++
			res.Nontriv++
			site := fmt.Sprintf("C16/place/nested-uses/%s/operand-%d", map[string]string{"gn": "three-whens", "gp": "two-handed-down-whens", "gq": "outer-when-only"}[leaf], ov)
			desc := fmt.Sprintf("leaf %s, operand %d", leaf, ov)
			switch {
			case pan:
				ss.add(site+"/read/panic:"+fr, desc+": "+msg)
			case err != nil:
				ss.add(site+"/read/error-aborts-read", desc+": "+err.Error())
			case c16Has(got, "u/"+leaf) != truth:
				ss.add(site+fmt.Sprintf("/read/visible-%v-want-%v", c16Has(got, "u/"+leaf), truth), desc+fmt.Sprintf("; read gives %s", got))
			}
		}
	}
}

// c16WhenOnWhen: a when that names a leaf which has a when of its own, and leaves with a when reached
// one by one (GetValue, Find + SetValue): a leaf hidden by its when is no operand (the expression over it
// is false), and reading a single leaf gives what the read of the whole tree shows for it.
func c16WhenOnWhen(res *eng.Result, ss *sigSet) {
	m := model.LoadText(`module ww { namespace "urn:ww"; prefix ww; revision 0;
  leaf z { type int32; }
  leaf y { when "../z>10"; type string; }
  leaf x { when "../y='yes'"; type string; }
  container c { leaf cz { type int32; } leaf cy { when "../cz>10"; type string; } leaf cx { when "../cy='yes'"; type string; } }
}`)
	for _, zv := range []int{5, 15} {
		for _, yv := range []string{"yes", "no"} {
			for _, where := range []string{"", "c/"} {
				pre := map[string]string{"": "", "c/": "c"}[where]
				t := model.NewTree()
				c16Put(t, where+pre+"z", val.Int32(zv), "leaf")
				c16Put(t, where+pre+"y", val.String(yv), "leaf")
				c16Put(t, where+pre+"x", val.String("xx"), "leaf")
				want := map[string]string{pre + "z": fmt.Sprint(zv)}
				if zv > 10 {
					want[pre+"y"] = yv
					if yv == "yes" {
						want[pre+"x"] = "xx"
					}
				}
				b := node.NewBrowser(m, store.NewRef(t).Node())
				site := fmt.Sprintf("C16/place/when-on-when/%s", map[string]string{"": "module-level", "c/": "in-container"}[where])
				desc := fmt.Sprintf("z=%d y=%s", zv, yv)
				// the whole tree
				got := model.NewTree()
				var err error
				fr, msg, pan := eng.Recover(func() { err = b.Root().UpsertInto(store.ContainerNode(got)) })
				res.Evals++
				res.Nontriv++
				switch {
				case pan:
					ss.add(site+"/read/panic:"+fr, desc+": "+msg)
				case err != nil:
					ss.add(site+"/read/error-aborts-read", desc+": "+err.Error())
				default:
					for _, l := range []string{"z", "y", "x"} {
						_, wanted := want[pre+l]
						if c16Has(got, where+pre+l) != wanted {
							ss.add(site+fmt.Sprintf("/read/%s-visible-%v-want-%v", l, !wanted, wanted), desc+fmt.Sprintf("; read gives %s", got))
						}
					}
				}
				// leaf by leaf
				for _, l := range []string{"z", "y", "x"} {
					var v val.Value
					var gerr error
					fr, msg, pan := eng.Recover(func() { v, gerr = b.Root().GetValue(where + pre + l) })
					res.Evals++
					res.Nontriv++
					gotText := ""
					if v != nil {
						gotText = model.Lex(v)
					}
					switch {
					case pan:
						ss.add(site+"/get-value/panic:"+fr, desc+" "+l+": "+msg)
					case gerr != nil:
						ss.add(site+"/get-value/error", fmt.Sprintf("%s GetValue(%s): %v", desc, where+pre+l, gerr))
					case gotText != want[pre+l]:
						ss.add(site+"/get-value/wrong-value", fmt.Sprintf("%s GetValue(%s) = %q want %q", desc, where+pre+l, gotText, want[pre+l]))
					}
				}
			}
		}
	}
}

// c16Compound: expressions that combine comparisons (XPath and / or), or carry anything after a
// comparison, either evaluate to what they mean or are refused with an error; they are never
// silently cut down to their first comparison.
func c16Compound(res *eng.Result, ss *sigSet) {
	type ex struct {
		name, text string
		truth      func(z int) bool
		valid      bool // an XPath 1.0 expression with a meaning
	}
	exprs := []ex{
		{"and", "z>10 and z<12", func(z int) bool { return z > 10 && z < 12 }, true},
		{"or", "z>100 or z<20", func(z int) bool { return z > 100 || z < 20 }, true},
		{"and-second-false", "z>0 and z<0", func(z int) bool { return false }, true},
		{"or-second-true", "z<0 or z>0", func(z int) bool { return z != 0 }, true},
		{"two-comparisons-no-operator", "z>10 z<12", nil, false},
		{"trailing-name", "z>10 garbage", nil, false},
		{"segment-after-comparison", "z>10/keep", nil, false},
		{"segment-after-leaf", "z/keep", nil, false},
	}
	for _, e := range exprs {
		text := fmt.Sprintf(`module wc { namespace "urn:wc"; prefix wc; revision 0;
  leaf z { type int32; } leaf keep { type string; } leaf g { when "%s"; type string; }
  list l { key k; leaf k { type string; } leaf z { type int32; } leaf keep { type string; } }
}`, e.text)
		m, lerr, fr, msg := c11Load(text, nil, nil)
		site := "C16/compound/" + e.name
		if fr != "" {
			ss.add(site+"/load/panic:"+fr, e.text+": "+msg)
			continue
		}
		zs := []int{-5, 0, 5, 11, 15, 50, 150}
		if lerr == nil {
			// when on a leaf
			for _, z := range zs {
				t := model.NewTree()
				t.Leaves["z"] = model.L(val.Int32(z))
				t.Leaves["g"] = model.L(val.String("gg"))
				got := model.NewTree()
				var err error
				fr, msg, pan := eng.Recover(func() {
					err = node.NewBrowser(m, store.NewRef(t).Node()).Root().UpsertInto(store.ContainerNode(got))
				})
				res.Evals++
				res.Nontriv++
				_, visible := got.Leaves["g"]
				switch {
				case pan:
					ss.add(site+"/when/panic:"+fr, fmt.Sprintf("when %q, z=%d: %s", e.text, z, msg))
				case err != nil:
					// refused: acceptable for every expression of this part
				case !e.valid:
					ss.add(site+"/when/evaluated-without-error", fmt.Sprintf("when %q, z=%d: g visible=%v, no error", e.text, z, visible))
				case visible != e.truth(z):
					ss.add(site+fmt.Sprintf("/when/visible-%v-want-%v", visible, e.truth(z)), fmt.Sprintf("when %q, z=%d", e.text, z))
				}
			}
		}
		// where on a list (the module is loaded without the when to have one)
		mw := model.LoadText(`module wc { namespace "urn:wc"; prefix wc; revision 0;
  leaf z { type int32; } leaf keep { type string; }
  list l { key k; leaf k { type string; } leaf z { type int32; } leaf keep { type string; } }
}`)
		t := model.NewTree()
		l := &model.List{}
		var want []string
		for _, z := range zs {
			en := model.NewTree()
			en.Leaves["k"] = model.L(val.String(fmt.Sprint("k", z)))
			en.Leaves["z"] = model.L(val.Int32(z))
			l.Entries = append(l.Entries, en)
			if e.valid && e.truth(z) {
				want = append(want, fmt.Sprint("k", z))
			}
		}
		t.Lists["l"] = l
		gotl := &model.List{}
		var err error
		fr, msg, pan := eng.Recover(func() {
			var sel *node.Selection
			sel, err = node.NewBrowser(mw, store.NewRef(t).Node()).Root().Find("l?where=" + url.QueryEscape(e.text))
			if err == nil && sel != nil {
				err = sel.UpsertInto(store.ListNode(gotl, model.DefAt(mw, "l").(*meta.List)))
			}
		})
		res.Evals++
		res.Nontriv++
		var kept []string
		for _, en := range gotl.Entries {
			kept = append(kept, keyText(en.Leaves["k"].Canon))
		}
		switch {
		case pan:
			ss.add(site+"/where/panic:"+fr, fmt.Sprintf("where %q: %s", e.text, msg))
		case err != nil:
		case !e.valid:
			ss.add(site+"/where/evaluated-without-error", fmt.Sprintf("where %q kept %v, no error", e.text, kept))
		case strings.Join(kept, ",") != strings.Join(want, ","):
			ss.add(site+"/where/wrong-entries", fmt.Sprintf("where %q kept %v want %v", e.text, kept, want))
		}
	}
}

// c16WhenAndWhere: a when on a list (and on a list nested in its entries) together with a where
// parameter: an entry is read exactly when both hold.
func c16WhenAndWhere(res *eng.Result, ss *sigSet) {
	m := model.LoadText(`module ww { namespace "urn:ww"; prefix ww; revision 0;
  list l { key k; when "z<10"; leaf k { type string; } leaf z { type int32; } leaf tag { type string; }
    list n { key j; when "y<10"; leaf j { type string; } leaf y { type int32; } } } }`)
	t := model.NewTree()
	l := &model.List{}
	type row struct {
		z   int
		tag string
	}
	rows := []row{{5, "x"}, {5, "y"}, {15, "x"}, {15, "y"}, {9, "x"}, {10, "x"}}
	for i, r := range rows {
		e := model.NewTree()
		e.Leaves["k"] = model.L(val.String(fmt.Sprint("k", i)))
		e.Leaves["z"] = model.L(val.Int32(r.z))
		e.Leaves["tag"] = model.L(val.String(r.tag))
		n := &model.List{}
		for j, y := range []int{3, 30} {
			ne := model.NewTree()
			ne.Leaves["j"] = model.L(val.String(fmt.Sprint("j", j)))
			ne.Leaves["y"] = model.L(val.Int32(y))
			n.Entries = append(n.Entries, ne)
		}
		e.Lists["n"] = n
		l.Entries = append(l.Entries, e)
	}
	t.Lists["l"] = l
	for _, where := range []string{"", "tag='x'", "tag='y'", "z>7", "tag!='x'"} {
		var want []string
		for i, r := range rows {
			ok := r.z < 10
			switch where {
			case "tag='x'":
				ok = ok && r.tag == "x"
			case "tag='y'":
				ok = ok && r.tag == "y"
			case "z>7":
				ok = ok && r.z > 7
			case "tag!='x'":
				ok = ok && r.tag != "x"
			}
			if ok {
				want = append(want, fmt.Sprint("k", i, ":j0"))
			}
		}
		gotl := &model.List{}
		var err error
		fr, msg, pan := eng.Recover(func() {
			path := "l"
			if where != "" {
				path += "?where=" + url.QueryEscape(where)
			}
			var sel *node.Selection
			if sel, err = node.NewBrowser(m, store.NewRef(t).Node()).Root().Find(path); err == nil && sel != nil {
				err = sel.UpsertInto(store.ListNode(gotl, model.DefAt(m, "l").(*meta.List)))
			}
		})
		res.Evals++
		res.Nontriv++
		var got []string
		for _, e := range gotl.Entries {
			var js []string
			if n := e.Lists["n"]; n != nil {
				for _, ne := range n.Entries {
					js = append(js, keyText(ne.Leaves["j"].Canon))
				}
			}
			got = append(got, keyText(e.Leaves["k"].Canon)+":"+strings.Join(js, "+"))
		}
		site := "C16/list-when-and-where/" + map[bool]string{true: "no-where", false: "with-where"}[where == ""]
		switch {
		case pan:
			ss.add(site+"/panic:"+fr, fmt.Sprintf("where %q: %s", where, msg))
		case err != nil:
			ss.add(site+"/error-aborts-read", fmt.Sprintf("where %q: %v", where, err))
		case strings.Join(got, ",") != strings.Join(want, ","):
			ss.add(site+"/wrong-entries", fmt.Sprintf("where %q read %v want %v (entry:nested entries)", where, got, want))
		}
	}
}
