package props

import (
	"encoding/json"
	"fmt"
	"net/url"
	"strings"

	"github.com/freeconf/yang/meta"
	"github.com/freeconf/yang/node"
	"verif/internal/eng"
	"verif/internal/model"
	"verif/internal/store"
)

// C07 — query parameters return exactly the defined projection of the full read.

type c07 struct{ base }

func init() {
	model.Schemas["query"] = `module query { namespace "urn:q"; prefix q; revision 0;
  leaf t { type string; }
  leaf st { config false; type string; }
  container c {
    leaf a { type string; }
    leaf b { type int32; default 7; }
    leaf s { config false; type int32; }
    container d { leaf x { type string; } leaf y { type int32; default 5; }
      container e { leaf z { type string; } leaf z2 { type string; } } }
    container o { config false; leaf p { type string; } }
  }
  list l { key k; leaf k { type string; } leaf v { type int32; default 3; } leaf w { config false; type string; }
    container m { leaf z { type string; } }
    list n { key j; leaf j { type int32; } leaf u { type string; } }
  }
  list r { config false; key k; leaf k { type string; } leaf q { type string; } }
}`
	// a grouping that uses itself through a container and a list (the library expands it lazily)
	model.Schemas["recur"] = `module recur { namespace "urn:recur"; prefix r; revision 0;
  grouping g { leaf v { type string; } container a { uses g; } list k { key n; leaf n { type string; } uses g; } }
  container r { uses g; }
}`
	eng.Register(&c07{base{id: "C07", level: "model_checking",
		rule: "for every data tree of the family (all trees to the size bound plus full trees with lists of 4 entries and nested lists of 3) and every target selection present (root, containers, lists, entries), every value of every parameter (content, depth 1..depth+2 and invalid, every fields / fc.xfields expression over the schema paths below the target: single, multi-segment, alternatives, grouped, unknown, malformed; with-defaults; every fc.range window 0<=s<=e<=n+1, open end, malformed, on top-level and nested lists; fc.max-node-count 0..containers+1 and invalid) and every pair of parameters is applied through Constrain and through Find(path?query); the read is captured in a reference store and compared with the projection computed by the reference model from the unconstrained tree; the source store must be unchanged. states = distinct (tree,target), transitions = constrained reads. Non-trivial = distinct (tree,target,query) whose projection differs from the unconstrained read or that is invalid"}})
}

type c07Case struct {
	Part   string `json:"part"`
	Tree   string `json:"tree"` // name of a fixed tree or "gen"
	B      int    `json:"B,omitempty"`
	Param  string `json:"param"`
	Via    string `json:"via"`
	Target string `json:"target,omitempty"`
	Query  string `json:"query,omitempty"`
	Doc    string `json:"doc,omitempty"`
}

var c07Trees = map[string]string{
	"recur": `{"r":{"v":"0","a":{"v":"1","a":{"v":"2","a":{"v":"3","a":{"v":"4"}},"k":[{"n":"x","v":"k3","a":{"v":"k4"}}]}},"k":[{"n":"y","v":"k1","a":{"v":"k2","a":{"v":"k3"}}}]}}`,
	"full": `{"t":"a","st":"b","c":{"a":"a","b":7,"s":1,"d":{"x":"a","y":5,"e":{"z":"a","z2":"b"}},"o":{"p":"a"}},
	  "l":[{"k":"a","v":3,"w":"a","m":{"z":"a"},"n":[{"j":1,"u":"a"},{"j":2,"u":"b"},{"j":3,"u":"c"}]},{"k":"b","v":1},{"k":"c","v":2,"n":[{"j":1,"u":"a"}]},{"k":"d","w":"b"}],
	  "r":[{"k":"a","q":"a"},{"k":"b","q":"b"}]}`,
	"mid": `{"c":{"b":1,"d":{"y":5}},"l":[{"k":"a","v":3,"n":[{"j":1,"u":"a"},{"j":2,"u":"b"}]},{"k":"b","m":{"z":"b"}}]}`,
}

func (p *c07) Bounds(tier string) map[string]interface{} {
	return map[string]interface{}{"generated_tree_size_bound": c07B(tier), "fixed_trees": []string{"full", "mid"}, "params": c07Params, "via": []string{"constrain", "find"}, "pairs": "all unordered pairs of parameters with 2-3 representative values each"}
}

func c07B(tier string) int {
	if tier == "thorough" {
		return 4
	}
	return 3
}

var c07Params = []string{"content", "depth", "fields", "fc.xfields", "with-defaults", "fc.range", "fc.max-node-count", "pairs"}

func (p *c07) Cases(tier string, emit func(interface{})) {
	for _, tr := range []string{"full", "mid", "gen"} {
		for _, prm := range c07Params {
			for _, via := range []string{"constrain", "find"} {
				if tr == "gen" && tier != "thorough" && (via == "find" || prm == "pairs" || prm == "fc.range") {
					continue
				}
				emit(c07Case{Part: "sweep", Tree: tr, B: c07B(tier), Param: prm, Via: via})
			}
		}
	}
	emit(c07Case{Part: "when"})
	emit(c07Case{Part: "trim-lexical"})
	for _, tr := range []string{"full", "mid"} {
		emit(c07Case{Part: "sweep", Tree: tr, B: c07B(tier), Param: "pairs", Via: "steps"})
		for _, prm := range c07Params {
			emit(c07Case{Part: "sweep", Tree: tr, B: c07B(tier), Param: prm, Via: "twice"})
		}
	}
	for _, prm := range []string{"depth", "fields", "fc.xfields"} {
		emit(c07Case{Part: "sweep", Tree: "recur", Param: prm, Via: "constrain"})
		emit(c07Case{Part: "sweep", Tree: "recur", Param: prm, Via: "find"})
	}
}

// relPaths lists every relative schema path below defs (list entries do not add a segment).
func relPaths(defs []meta.Definition, prefix []string, maxLen int, out *[][]string) {
	if len(prefix) >= maxLen {
		return
	}
	for _, d := range model.FlatDefs(defs) {
		p := append(append([]string{}, prefix...), d.Ident())
		*out = append(*out, p)
		if h, ok := d.(meta.HasDataDefinitions); ok {
			relPaths(h.DataDefinitions(), p, maxLen, out)
		}
	}
}

type fieldExpr struct {
	text  string
	q     [][]string
	shape string
	bad   bool // unknown names / malformed: either error or empty accepted, never panic
	// invalid: not an expression at all, must be an error
	invalid bool
}

func fieldExprs(defs []meta.Definition) []fieldExpr {
	var paths [][]string
	relPaths(defs, nil, 4, &paths)
	var out []fieldExpr
	j := func(p []string) string { return strings.Join(p, "/") }
	for _, p := range paths {
		shape := "single-segment"
		if len(p) > 1 {
			shape = "multi-segment"
		}
		out = append(out, fieldExpr{text: j(p), q: [][]string{p}, shape: shape})
	}
	// a path that goes on below a leaf names nothing
	belowLeaf := 0
	for _, p := range paths {
		if _, isLeaf := defAtRel(defs, p).(meta.Leafable); isLeaf && belowLeaf < 3 {
			belowLeaf++
			out = append(out, fieldExpr{text: j(p) + "/zz", q: [][]string{append(append([]string{}, p...), "zz")}, shape: "below-a-leaf"})
		}
	}
	// alternatives: pairs of paths
	for i := 0; i < len(paths) && i < 8; i++ {
		for k := i + 1; k < len(paths) && k < 8; k++ {
			out = append(out, fieldExpr{text: j(paths[i]) + ";" + j(paths[k]), q: [][]string{paths[i], paths[k]}, shape: "alternatives"})
		}
	}
	// a group at the start of the expression: (path1;path2), and two groups in a row a(b;c)(d;e) is left out (not RESTCONF)
	for i := 0; i < len(paths) && i < 5; i++ {
		for k := i + 1; k < len(paths) && k < 5; k++ {
			out = append(out, fieldExpr{text: "(" + j(paths[i]) + ";" + j(paths[k]) + ")", q: [][]string{paths[i], paths[k]}, shape: "leading-group"})
		}
	}
	// grouping: parent(child1;child2)
	byParent := map[string][][]string{}
	for _, p := range paths {
		if len(p) > 1 {
			byParent[j(p[:len(p)-1])] = append(byParent[j(p[:len(p)-1])], p)
		}
	}
	for _, p := range paths {
		kids := byParent[j(p)]
		if len(kids) >= 2 {
			out = append(out, fieldExpr{text: j(p) + "(" + kids[0][len(kids[0])-1] + ";" + kids[1][len(kids[1])-1] + ")", q: [][]string{kids[0], kids[1]}, shape: "grouped"})
			// nested path inside the group
			for _, k2 := range byParent[j(kids[len(kids)-1])] {
				last := kids[len(kids)-1]
				out = append(out, fieldExpr{text: j(p) + "(" + kids[0][len(kids[0])-1] + ";" + last[len(last)-1] + "/" + k2[len(k2)-1] + ")", q: [][]string{kids[0], k2}, shape: "grouped-nested"})
				break
			}
		}
	}
	for _, bad := range []string{"zz", "zz/yy", "a;;b", ";", "/", "a//b", "((a))"} {
		out = append(out, fieldExpr{text: bad, shape: "unknown-or-malformed", bad: true})
	}
	// parentheses that do not pair up and groups of nothing are not expressions
	for _, bad := range []string{"(", ")", "a(", "a(b", "a)zzz", "a(b;c))", "a)", "a()", "()", "a(b;c", "a(b))("} {
		out = append(out, fieldExpr{text: bad, shape: "unbalanced-or-empty-group", invalid: true})
	}
	return out
}

type c07Query struct {
	text    string
	params  model.Params
	invalid bool   // must be an error
	lenient bool   // error or any subset accepted, but no panic
	shape   string // for signatures
	maxNode int    // fc.max-node-count value, -1 none
	rangeW  bool
	parts   []string // component queries of a pair
}

func c07Queries(param string, m *meta.Module, defs []meta.Definition, t *model.Tree, schemaDepth int) []c07Query {
	var qs []c07Query
	add := func(q c07Query) {
		if q.maxNode == 0 && !strings.Contains(q.text, "max-node-count") {
			q.maxNode = -1
		}
		qs = append(qs, q)
	}
	switch param {
	case "content":
		for _, v := range []string{"config", "nonconfig", "all"} {
			add(c07Query{text: "content=" + v, params: model.Params{Content: v}, shape: "content=" + v})
		}
		add(c07Query{text: "content=bogus", invalid: true, shape: "content=invalid"})
		// a parameter given twice: one of the two would win silently
		add(c07Query{text: "content=config&content=nonconfig", invalid: true, shape: "parameter-given-twice"})
		add(c07Query{text: "content=config&content=config", invalid: true, shape: "parameter-given-twice"})
		add(c07Query{text: "depth=1&depth=2", invalid: true, shape: "parameter-given-twice"})
		add(c07Query{text: "with-defaults=trim&with-defaults=report-all", invalid: true, shape: "parameter-given-twice"})
		add(c07Query{text: "fields=zz&fields=yy", invalid: true, shape: "parameter-given-twice"})
		add(c07Query{text: "fc.xfields=zz&fc.xfields=yy", invalid: true, shape: "parameter-given-twice"})
		add(c07Query{text: "fc.max-node-count=1&fc.max-node-count=1000", invalid: true, shape: "parameter-given-twice"})
		add(c07Query{text: "content=", invalid: true, shape: "content=empty"})
	case "depth":
		for d := 1; d <= schemaDepth+2; d++ {
			add(c07Query{text: fmt.Sprintf("depth=%d", d), params: model.Params{Depth: d}, shape: "depth=N"})
		}
		add(c07Query{text: "depth=0", invalid: true, shape: "depth=0"})
		add(c07Query{text: "depth=-1", invalid: true, shape: "depth=negative"})
		add(c07Query{text: "depth=abc", invalid: true, shape: "depth=non-numeric"})
		add(c07Query{text: "depth=", invalid: true, shape: "depth=empty"})
		add(c07Query{text: "depth=1.5", invalid: true, shape: "depth=non-numeric"})
	case "fields", "fc.xfields":
		for _, fe := range fieldExprs(defs) {
			q := c07Query{text: param + "=" + url.QueryEscape(fe.text), shape: param + "=" + fe.shape, lenient: fe.bad, invalid: fe.invalid}
			if param == "fields" {
				q.params.Fields = fe.q
				if fe.q == nil {
					q.params.Fields = [][]string{}
				}
			} else {
				q.params.XFields = fe.q
			}
			add(q)
			if strings.ContainsAny(fe.text, ";()") && !strings.ContainsAny(fe.text, "%&#+ ") {
				// the same expression as it is written in a URL by hand: ';' and parentheses unescaped
				raw := q
				raw.text = param + "=" + fe.text
				raw.shape += "/unescaped"
				add(raw)
			}
		}
	case "with-defaults":
		add(c07Query{text: "with-defaults=trim", params: model.Params{TrimDefaults: true}, shape: "with-defaults=trim"})
		add(c07Query{text: "with-defaults=report-all", shape: "with-defaults=report-all"})
		add(c07Query{text: "with-defaults=bogus", invalid: true, shape: "with-defaults=invalid"})
	case "fc.range":
		var paths [][]string
		relPaths(defs, nil, 3, &paths)
		for _, p := range paths {
			if _, isList := defAtRel(defs, p).(*meta.List); !isList {
				continue
			}
			n := 4
			for s := 0; s <= n+1; s++ {
				for e := s; e <= n+1; e++ {
					add(c07Query{text: fmt.Sprintf("fc.range=%s!%d-%d", url.QueryEscape(strings.Join(p, "/")), s, e), params: model.Params{Range: &model.Window{List: p, Start: s, End: e}}, shape: fmt.Sprintf("fc.range=%s-list!s-e", map[bool]string{true: "top", false: "nested"}[len(p) == 1]), rangeW: true})
				}
				add(c07Query{text: fmt.Sprintf("fc.range=%s!%d-", url.QueryEscape(strings.Join(p, "/")), s), params: model.Params{Range: &model.Window{List: p, Start: s, End: -1}}, shape: fmt.Sprintf("fc.range=%s-list!s-open", map[bool]string{true: "top", false: "nested"}[len(p) == 1]), rangeW: true})
			}
		}
		for _, bad := range []string{"l", "l!", "l!x-y", "l!1-x", "!1-2", "l!-1", "l!1-2-3", "l!2-1", "l!1-2-", "l!1--2", "l!1-2x", "l!1 -2"} {
			add(c07Query{text: "fc.range=" + url.QueryEscape(bad), invalid: bad != "l!2-1" && bad != "!1-2", lenient: bad == "l!2-1" || bad == "!1-2", shape: "fc.range=malformed"})
		}
	case "fc.max-node-count":
		containers, _ := model.CountNodes(defs, t)
		for n := 0; n <= containers+1; n++ {
			add(c07Query{text: fmt.Sprintf("fc.max-node-count=%d", n), maxNode: n, shape: "fc.max-node-count=N"})
		}
		add(c07Query{text: "fc.max-node-count=x", invalid: true, shape: "fc.max-node-count=non-numeric"})
		add(c07Query{text: "fc.max-node-count=-1", invalid: true, shape: "fc.max-node-count=negative"})
	case "pairs":
		reps := map[string][]c07Query{}
		for _, prm := range []string{"content", "depth", "fields", "fc.xfields", "with-defaults", "fc.range"} {
			all := c07Queries(prm, m, defs, t, schemaDepth)
			var pick []c07Query
			for _, q := range all {
				if q.invalid || q.lenient {
					continue
				}
				pick = append(pick, q)
			}
			if len(pick) > 3 {
				pick = []c07Query{pick[0], pick[len(pick)/2], pick[len(pick)-1]}
			}
			reps[prm] = pick
		}
		names := []string{"content", "depth", "fields", "fc.xfields", "with-defaults", "fc.range"}
		for i, a := range names {
			for _, b := range names[i+1:] {
				for _, qa := range reps[a] {
					for _, qb := range reps[b] {
						pr := qa.params
						o := qb.params
						if o.Depth != 0 {
							pr.Depth = o.Depth
						}
						if o.Content != "" {
							pr.Content = o.Content
						}
						if o.Fields != nil {
							pr.Fields = o.Fields
						}
						if o.XFields != nil {
							pr.XFields = o.XFields
						}
						if o.TrimDefaults {
							pr.TrimDefaults = true
						}
						if o.Range != nil {
							pr.Range = o.Range
						}
						add(c07Query{text: qa.text + "&" + qb.text, params: pr, shape: "pair:" + a + "+" + b, rangeW: qa.rangeW || qb.rangeW, parts: []string{qa.text, qb.text}})
					}
				}
			}
		}
	}
	return qs
}

func defAtRel(defs []meta.Definition, p []string) meta.Definition {
	var cur meta.Definition
	for _, seg := range p {
		cur = nil
		for _, d := range model.FlatDefs(defs) {
			if d.Ident() == seg {
				cur = d
			}
		}
		if cur == nil {
			return nil
		}
		if h, ok := cur.(meta.HasDataDefinitions); ok {
			defs = h.DataDefinitions()
		}
	}
	return cur
}

func schemaDepth(defs []meta.Definition) int { return schemaDepthTo(defs, 6) }

// schemaDepthTo: depth of the schema below defs, at most limit (schemas may be recursive)
func schemaDepthTo(defs []meta.Definition, limit int) int {
	if limit == 0 {
		return 0
	}
	d := 0
	for _, x := range model.FlatDefs(defs) {
		n := 1
		if h, ok := x.(meta.HasDataDefinitions); ok {
			n += schemaDepthTo(h.DataDefinitions(), limit-1)
		}
		if n > d {
			d = n
		}
	}
	return d
}

// c07Read performs the constrained read into a fresh reference store.
func c07Read(env *dataEnv, target, query, via string) (got *model.Tree, gotList *model.List, err error, panicFrame, panicMsg string) {
	m := env.m
	ep := entryPoint{target}
	fr, msg, pan := eng.Recover(func() {
		var sel *node.Selection
		root := env.b.Root()
		if via == "find" && target != "" {
			sel, err = root.Find(target + "?" + query)
		} else {
			sel = root
			if target != "" {
				sel, err = root.Find(target)
			}
			if err == nil && sel != nil {
				if via == "steps" {
					// the parameters reach the selection one Constrain at a time
					for _, part := range strings.Split(query, "&") {
						if err == nil && sel != nil {
							sel, err = sel.Constrain(part)
						}
					}
				} else {
					sel, err = sel.Constrain(query)
				}
			}
		}
		if err != nil || sel == nil {
			if err == nil {
				err = fmt.Errorf("harness: target %q not found", target)
			}
			return
		}
		if via == "twice" {
			// the constrained selection is read once before the read that is looked at
			if ep.kind(m) == "list" {
				_ = sel.UpsertInto(store.ListNode(&model.List{}, ep.def(m).(*meta.List)))
			} else {
				_ = sel.UpsertInto(store.ContainerNode(model.NewTree()))
			}
		}
		if ep.kind(m) == "list" {
			gotList = &model.List{}
			err = sel.UpsertInto(store.ListNode(gotList, ep.def(m).(*meta.List)))
			return
		}
		got = model.NewTree()
		err = sel.UpsertInto(store.ContainerNode(got))
	})
	if pan {
		return nil, nil, nil, fr, msg
	}
	return
}

func (p *c07) Run(raw json.RawMessage) eng.Result {
	var c c07Case
	decode(raw, &c)
	var res eng.Result
	ss := &sigSet{res: &res}
	if c.Part == "trim-lexical" {
		var res eng.Result
		ss := &sigSet{res: &res}
		c07TrimLexical(&res, ss)
		res.Outcomes = []string{"trim-lexical"}
		return res
	}
	if c.Part == "when" {
		c07WhenUnderParams(&res, ss)
		return res
	}
	m := model.SharedSchema("query")
	if c.Tree == "recur" {
		m = model.SharedSchema("recur")
	}
	var trees []*model.Tree
	switch {
	case c.Part == "one":
		t, err := model.FromJSON(m.DataDefinitions(), []byte(c.Doc))
		if err != nil {
			panic(err)
		}
		trees = []*model.Tree{t}
	case c.Tree == "gen":
		a := model.DefaultAlpha()
		trees = model.GenTrees(m.DataDefinitions(), c.B, a)
	default:
		t, err := model.FromJSON(m.DataDefinitions(), []byte(c07Trees[c.Tree]))
		if err != nil {
			panic(err)
		}
		trees = []*model.Tree{t}
	}
	ocs := map[string]bool{}
	for _, t := range trees {
		targets := []string{""}
		startsOf(m.DataDefinitions(), t, "", &targets)
		if c.Part == "one" {
			targets = []string{c.Target}
		}
		for _, target := range targets {
			ep := entryPoint{target}
			kind := ep.kind(m)
			var defs []meta.Definition
			tt, tl := ep.locate(m, t)
			sub := tt
			var listMeta *meta.List
			if kind == "list" {
				// relative paths and levels below a list selection start at the entries' children
				listMeta = ep.def(m).(*meta.List)
				defs = listMeta.DataDefinitions()
				sub = model.NewTree()
				sub.Lists[listMeta.Ident()] = tl
			} else {
				defs = ep.defs(m)
			}
			project := func(pr model.Params) *model.Tree {
				if listMeta == nil {
					return pr.Project(defs, sub, 1, nil)
				}
				out := model.NewTree()
				nl := &model.List{}
				for _, e := range tl.Entries {
					ne := pr.Project(defs, e, 1, nil)
					for _, km := range listMeta.KeyMeta() {
						if lf, ok := e.Leaves[km.Ident()]; ok {
							ne.Leaves[km.Ident()] = lf
						}
					}
					nl.Entries = append(nl.Entries, ne)
				}
				out.Lists[listMeta.Ident()] = nl
				return out
			}
			cmpDefs := defs
			if listMeta != nil {
				cmpDefs = []meta.Definition{listMeta}
			}
			countSub := sub
			if listMeta != nil && len(tl.Entries) > 0 {
				countSub = model.NewTree()
				for i, e := range tl.Entries {
					countSub.Conts[fmt.Sprintf("#%d", i)] = e
				}
			}
			_ = countSub
			res.States++
			var qs []c07Query
			if c.Part == "one" {
				for _, prm := range c07Params {
					for _, q := range c07Queries(prm, m, defs, sub, schemaDepth(defs)) {
						if q.text == c.Query {
							qs = append(qs, q)
						}
					}
				}
				if len(qs) > 1 {
					qs = qs[:1]
				}
			} else {
				qs = c07Queries(c.Param, m, defs, sub, schemaDepth(defs))
			}
			// range windows: one convention (inclusive or exclusive end) must explain every window of the run
			type rr struct {
				q        c07Query
				got      *model.Tree
				okIncl   bool
				okExcl   bool
				whatIncl string
			}
			var ranges []rr
			singleOK := map[string]bool{}
			single := func(text string) bool {
				if ok, done := singleOK[text]; done {
					return ok
				}
				ok := true
				for _, prm := range []string{"content", "depth", "fields", "fc.xfields", "with-defaults", "fc.range"} {
					for _, sq := range c07Queries(prm, m, defs, sub, schemaDepth(defs)) {
						if sq.text != text {
							continue
						}
						env := newEnv(m.Ident(), "ref")
						env.populate(t)
						got, gotList, err, pfr, _ := c07Read(env, target, sq.text, c.Via)
						if pfr != "" || err != nil {
							ok = false
							break
						}
						if kind == "list" && gotList != nil {
							got = model.NewTree()
							got.Lists[ep.def(m).Ident()] = gotList
						}
						o := model.CanonOpts{EmptyContAbsent: true}
						pe := sq.params
						pi := sq.params
						if pi.Range != nil {
							w := *pi.Range
							w.Inclusive = true
							pi.Range = &w
						}
						g1, g2 := got.Clone(), got.Clone()
						w1, w2 := project(pe), project(pi)
						model.StripDefaults(cmpDefs, w1, g1)
						model.StripDefaults(cmpDefs, w2, g2)
						k1, _ := model.Diff(cmpDefs, w1, g1, o, "")
						k2, _ := model.Diff(cmpDefs, w2, g2, o, "")
						if k1 != "" && k2 != "" {
							ok = false
						}
					}
				}
				singleOK[text] = ok
				return ok
			}
			for _, q := range qs {
				if len(q.parts) == 2 && (!single(q.parts[0]) || !single(q.parts[1])) {
					continue // the pair adds nothing over the failing single parameter
				}
				env := newEnv(m.Ident(), "ref")
				if err := env.populate(t); err != nil {
					panic(err)
				}
				before := env.snap().Canon(m.DataDefinitions(), model.CanonOpts{})
				got, gotList, err, pfr, pmsg := c07Read(env, target, q.text, c.Via)
				res.Evals++
				res.Transitions++
				site := fmt.Sprintf("C07/%s/%s", kind, q.shape)
				if q.maxNode >= 0 {
					site = "C07/" + q.shape
				}
				report := func(sym, what string) {
					sig := site + "/" + sym
					if ss.seen == nil {
						ss.seen = map[string]bool{}
					}
					if ss.seen[sig] {
						return
					}
					ss.seen[sig] = true
					rc := c07Case{Part: "one", Via: c.Via, Target: target, Query: q.text}
					if c.Tree == "recur" {
						rc.Tree = "recur" // selects the schema
					}
					tj, _ := json.Marshal(t.ToJSONObj(m.DataDefinitions()))
					rc.Doc = string(tj)
					res.AddCase(sig, fmt.Sprintf("%s on %q of %s: %s", q.text, target, t, what), rc)
				}
				if pfr != "" {
					report("panic:"+pfr, pmsg)
					continue
				}
				if after := env.snap().Canon(m.DataDefinitions(), model.CanonOpts{}); after != before {
					report("data-modified-by-read", after)
				}
				if kind == "list" && gotList != nil {
					got = model.NewTree()
					got.Lists[ep.def(m).Ident()] = gotList
				}
				if q.invalid {
					res.Nontriv++
					ocs["invalid:"+fmt.Sprint(err != nil)] = true
					if err == nil {
						report("no-error-for-invalid-value", fmt.Sprintf("returned %s", got))
					}
					continue
				}
				if q.lenient {
					res.Nontriv++
					continue // only "no panic, data unmodified" is required
				}
				if q.maxNode >= 0 {
					containers, le := model.CountNodes(cmpDefs, sub)
					res.Nontriv++
					switch {
					case containers > q.maxNode && err == nil:
						report("limit-not-enforced", fmt.Sprintf("%d containers read without error", containers))
					case containers+le <= q.maxNode && err != nil:
						report("error-below-limit", err.Error())
					}
					continue
				}
				if err != nil {
					report("error-on-valid", err.Error())
					continue
				}
				o := model.CanonOpts{EmptyContAbsent: q.params.Content == "nonconfig" || q.params.Fields != nil || q.params.XFields != nil}
				unfiltered := project(model.Params{})
				if q.params.Range != nil {
					pi := q.params
					w := *pi.Range
					w.Inclusive = true
					pi.Range = &w
					wantI := project(pi)
					wantE := project(q.params)
					gI, gE := got.Clone(), got.Clone()
					model.StripDefaults(cmpDefs, wantI, gI)
					model.StripDefaults(cmpDefs, wantE, gE)
					kdI, whI := model.Diff(cmpDefs, wantI, gI, o, target)
					kdE, _ := model.Diff(cmpDefs, wantE, gE, o, target)
					if wantI.Canon(cmpDefs, o) != unfiltered.Canon(cmpDefs, o) || wantE.Canon(cmpDefs, o) != unfiltered.Canon(cmpDefs, o) {
						res.Nontriv++
					}
					if strings.Contains(q.shape, "pair:") {
						if kdI != "" && kdE != "" {
							report("wrong-projection/"+kdE, whI)
						}
						continue
					}
					ranges = append(ranges, rr{q, got, kdI == "", kdE == "", whI})
					continue
				}
				want := project(q.params)
				if want.Canon(cmpDefs, o) != unfiltered.Canon(cmpDefs, o) {
					res.Nontriv++
				}
				ocs[q.shape] = true
				if !q.params.TrimDefaults {
					model.StripDefaults(cmpDefs, want, got)
				}
				if kd, wh := model.Diff(cmpDefs, want, got, o, target); kd != "" {
					report("wrong-projection/"+kd, fmt.Sprintf("%s; want %s got %s", wh, want, got))
				}
			}
			if len(ranges) > 0 {
				byShape := map[string][]rr{}
				for _, r := range ranges {
					byShape[r.q.shape] = append(byShape[r.q.shape], r)
				}
				for shape, rs := range byShape {
					allI, allE := true, true
					var firstBadI, firstBadE *rr
					for i := range rs {
						if !rs[i].okIncl {
							allI = false
							if firstBadI == nil {
								firstBadI = &rs[i]
							}
						}
						if !rs[i].okExcl {
							allE = false
							if firstBadE == nil {
								firstBadE = &rs[i]
							}
						}
					}
					if !allI && !allE {
						bad := firstBadE
						sig := fmt.Sprintf("C07/%s/%s/no-single-window-convention", kind, shape)
						if !ss.seen[sig] {
							if ss.seen == nil {
								ss.seen = map[string]bool{}
							}
							ss.seen[sig] = true
							res.Add(sig, fmt.Sprintf("on %q of %s: neither an inclusive nor an exclusive end row explains all windows; e.g. %s returned %s (and %s contradicts the other convention)", target, t, bad.q.text, bad.got, firstBadI.q.text))
						}
					}
				}
			}
		}
	}
	for k := range ocs {
		res.Outcomes = append(res.Outcomes, k)
	}
	if res.Evals == 0 {
		res.Evals = 1
	}
	return res
}

// c07WhenUnderParams: a query parameter filters what is returned, not what the when expressions of the
// schema see. Nodes whose when refers to a leaf at its default value, or to a non-config leaf, are in
// the constrained read exactly when they are in the unconstrained one (unless the parameter itself
// excludes them).
func c07WhenUnderParams(res *eng.Result, ss *sigSet) {
	m := model.LoadText(`module qw { namespace "urn:qw"; prefix qw; revision 0;
  leaf mode { type string; default "auto"; } leaf state { config false; type string; } leaf plain { type string; }
  container w { when "../mode = 'auto'"; leaf x { type string; } }
  container v { when "../state = 'on'"; leaf y { type string; } }
  container u { when "../plain = 'p'"; leaf z { type string; } }
  list l { key k; when "../mode = 'auto'"; leaf k { type string; } leaf q { type string; } } }`)
	for _, doc := range []string{
		`{"state":"on","plain":"p","w":{"x":"1"},"v":{"y":"2"},"u":{"z":"3"},"l":[{"k":"a","q":"4"}]}`,
		`{"mode":"auto","state":"on","plain":"p","w":{"x":"1"},"v":{"y":"2"},"u":{"z":"3"},"l":[{"k":"a","q":"4"}]}`,
		`{"mode":"manual","state":"off","plain":"x","w":{"x":"1"},"v":{"y":"2"},"u":{"z":"3"},"l":[{"k":"a","q":"4"}]}`,
	} {
		t, err := model.FromJSON(m.DataDefinitions(), []byte(doc))
		if err != nil {
			panic(err)
		}
		read := func(query string) (map[string]bool, error) {
			got := store.NewRef(nil)
			sel := node.NewBrowser(m, store.NewRef(t.Clone()).Node()).Root()
			if query != "" {
				var err error
				if sel, err = sel.Constrain(query); err != nil {
					return nil, err
				}
			}
			if err := sel.UpsertInto(got.Node()); err != nil {
				return nil, err
			}
			seen := map[string]bool{}
			for id := range got.T.Conts {
				seen[id] = true
			}
			for id := range got.T.Lists {
				seen[id] = true
			}
			return seen, nil
		}
		full, err := read("")
		if err != nil {
			panic("harness: unconstrained read: " + err.Error())
		}
		for _, q := range []string{"with-defaults=trim", "content=config", "depth=5", "fields=w;v;u;l", "fc.xfields=plain", "fc.max-node-count=100", "with-defaults=trim&content=config"} {
			res.Evals++
			res.Nontriv++
			got, err := read(q)
			site := "C07/when-under-parameter/" + strings.SplitN(strings.SplitN(q, "&", 2)[0], "=", 2)[0]
			if strings.Contains(q, "&") {
				site += "+content"
			}
			if err != nil {
				ss.add(site+"/error", fmt.Sprintf("%s on %s: %v", q, doc, err))
				continue
			}
			for _, id := range []string{"w", "v", "u", "l"} {
				if got[id] != full[id] {
					ss.add(site+fmt.Sprintf("/node-present-%v-unconstrained-%v", got[id], full[id]), fmt.Sprintf("%s on %s: %s", q, doc, id))
				}
			}
		}
	}
}

// c07TrimLexical: with-defaults=trim compares values, not their spelling. Defaults written in a
// non-canonical way (+5, 010, 1.50, 2.0) and leaves of every type set to the default, to another
// value, or not at all: the trimmed read shows exactly the leaves whose value differs from the default.
func c07TrimLexical(res *eng.Result, ss *sigSet) {
	type lf struct{ name, yang, dflt, equal, other string }
	leaves := []lf{
		{"dec", "decimal64 { fraction-digits 2; }", "1.5", "1.5", "2.25"},
		{"dec2", "decimal64 { fraction-digits 2; }", "2.50", "2.5", "2.51"},
		{"dec3", "decimal64 { fraction-digits 1; }", "3", "3.0", "3.1"},
		{"i", "int32", "+5", "5", "6"},
		{"i2", "int32", "010", "10", "8"},
		{"u", "uint8", "007", "7", "70"},
		{"i64", "int64", "-0", "0", "1"},
		{"b", "boolean", "true", "true", "false"},
		{"s", "string", "x", "\"x\"", "\"y\""},
		{"e", "enumeration { enum one; enum two; }", "two", "\"two\"", "\"one\""},
		{"plain", "int32", "5", "5", "55"},
	}
	var sb strings.Builder
	sb.WriteString(`module tl { namespace "urn:tl"; prefix tl; revision 0; `)
	for _, l := range leaves {
		ty := l.yang
		if !strings.HasSuffix(ty, "}") {
			ty += ";"
		}
		fmt.Fprintf(&sb, `leaf %s { type %s default "%s"; } `, l.name, ty, l.dflt)
	}
	sb.WriteString(`container c { `)
	for _, l := range leaves {
		ty := l.yang
		if !strings.HasSuffix(ty, "}") {
			ty += ";"
		}
		fmt.Fprintf(&sb, `leaf %s { type %s default "%s"; } `, l.name, ty, l.dflt)
	}
	sb.WriteString(`} }`)
	m, lerr, fr, msg := c11Load(sb.String(), nil, nil)
	if lerr != nil || fr != "" {
		ss.add("C07/trim-lexical/module-does-not-load", fmt.Sprint(lerr, fr, msg))
		return
	}
	for _, l := range leaves {
		for _, state := range []string{"equal", "other", "unset"} {
			for _, where := range []string{"", "c"} {
				doc := "{}"
				val := map[string]string{"equal": l.equal, "other": l.other}[state]
				if state != "unset" {
					doc = fmt.Sprintf(`{"%s":%s}`, l.name, val)
				}
				if where == "c" {
					doc = `{"c":` + doc + `}`
				}
				t, err := model.FromJSON(m.DataDefinitions(), []byte(doc))
				if err != nil {
					panic(fmt.Sprintf("harness: %s: %v", doc, err))
				}
				for _, query := range []string{"with-defaults=trim", "with-defaults=trim&depth=5"} {
					got := model.NewTree()
					var rerr error
					fr, msg, pan := eng.Recover(func() {
						sel, err := node.NewBrowser(m, store.NewRef(t).Node()).Root().Constrain(query)
						if err != nil {
							rerr = err
							return
						}
						rerr = sel.UpsertInto(store.ContainerNode(got))
					})
					res.Evals++
					res.Nontriv++
					site := fmt.Sprintf("C07/trim-lexical/%s/%s", strings.Fields(l.yang)[0], state)
					desc := fmt.Sprintf("default %q, data %s, %s", l.dflt, doc, query)
					holder := got
					if where == "c" {
						holder = got.Conts["c"]
					}
					shown := false
					if holder != nil {
						_, shown = holder.Leaves[l.name]
					}
					switch {
					case pan:
						ss.add(site+"/panic:"+fr, desc+": "+msg)
					case rerr != nil:
						ss.add(site+"/error", desc+": "+rerr.Error())
					case shown != (state == "other"):
						ss.add(site+fmt.Sprintf("/shown-%v-want-%v", shown, state == "other"), desc+fmt.Sprintf("; read gives %s", got))
					}
				}
			}
		}
	}
}
