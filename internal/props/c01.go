package props

import (
	"encoding/json"
	"fmt"
	"strings"

	"github.com/freeconf/yang/meta"
	"verif/internal/eng"
	"verif/internal/model"
)

// C01 — compiled schema equals the RFC 7950 expansion of uses/augment/refine/include.

type c01 struct{ base }

func init() {
	eng.Register(&c01{base{id: "C01", level: "model_checking",
		rule: "every normal-form schema tree (ordered trees over container, list, leaf, leaf-list, choice with shorthand and explicit cases, action, notification; depth <= 3; N data nodes) x every node decorated with each applicable property x every meaning-preserving refactoring at every applicable position (children extracted into a grouping at module / sibling / ancestor scope, before or after the use, nested grouping, grouping in a submodule or imported module, property stated by refine, last child(ren) contributed by module-level or uses-level augments in textual order, top-level nodes moved to a submodule, one grouping used twice with different refines, when/if-feature on the uses) - thorough: ordered pairs of refactorings. The refactored module set is compiled by the real resolver/compiler and its canonical accessor dump must equal the dump of the inline normal form (state = normal form, transition = refactoring + load + comparison); copies of one grouping must be distinct objects with correct parent links. Non-trivial = distinct (normal form, decoration, refactoring, position)"}})
}

type snode struct {
	Kind  string   `json:"k"` // container list leaf leaf-list choice case action notification
	Name  string   `json:"n"`
	Props []string `json:"p,omitempty"` // raw property statements
	Kids  []*snode `json:"c,omitempty"`
}

func (n *snode) clone() *snode {
	c := &snode{Kind: n.Kind, Name: n.Name, Props: append([]string{}, n.Props...)}
	for _, k := range n.Kids {
		c.Kids = append(c.Kids, k.clone())
	}
	return c
}

func (n *snode) render() string {
	var sb strings.Builder
	switch n.Kind {
	case "leaf":
		sb.WriteString("leaf " + n.Name + " { type string; ")
	case "leaf-list":
		sb.WriteString("leaf-list " + n.Name + " { type string; ")
	case "list":
		sb.WriteString("list " + n.Name + " { key k; leaf k { type string; } ")
	case "action":
		sb.WriteString("action " + n.Name + " { input { leaf i { type string; } } ")
	case "notification":
		sb.WriteString("notification " + n.Name + " { ")
	default:
		sb.WriteString(n.Kind + " " + n.Name + " { ")
	}
	for _, p := range n.Props {
		sb.WriteString(p + " ")
	}
	for _, k := range n.Kids {
		sb.WriteString(k.render())
	}
	sb.WriteString("} ")
	return sb.String()
}

func renderAll(ns []*snode) string {
	var sb strings.Builder
	for _, n := range ns {
		sb.WriteString(n.render())
	}
	return sb.String()
}

// ---------------------------------------------------------------- normal-form enumeration

var c01Kinds = []string{"leaf", "container", "list", "leaf-list", "choice"}

// forests enumerates all ordered forests with exactly n nodes, depth <= d, under a parent of kind pk.
func forests(n, d int, pk string, counter *int) [][]*snode {
	if n == 0 {
		return [][]*snode{nil}
	}
	if d == 0 {
		return nil
	}
	var out [][]*snode
	// first tree takes s nodes (1..n), the rest of the forest n-s
	for s := 1; s <= n; s++ {
		for _, first := range trees(s, d, pk, counter) {
			for _, rest := range forests(n-s, d, pk, counter) {
				f := []*snode{first}
				for _, r := range rest {
					f = append(f, r.clone())
				}
				out = append(out, f)
			}
		}
	}
	return out
}

func trees(n, d int, pk string, counter *int) []*snode {
	var out []*snode
	for _, k := range c01Kinds {
		if pk == "choice" && (k == "choice" || k == "list" || k == "leaf-list") {
			continue // keep shorthand cases simple: leaf or container members
		}
		switch k {
		case "leaf", "leaf-list":
			if n == 1 {
				out = append(out, &snode{Kind: k})
			}
		default:
			for _, kids := range forests(n-1, d-1, k, counter) {
				if k == "choice" && len(kids) == 0 {
					continue
				}
				t := &snode{Kind: k}
				for _, kid := range kids {
					t.Kids = append(t.Kids, kid.clone())
				}
				out = append(out, t)
			}
		}
	}
	return out
}

func nameAll(ns []*snode, prefix string) {
	for i, n := range ns {
		n.Name = fmt.Sprintf("%s%c", prefix, 'a'+i)
		nameAll(n.Kids, n.Name)
	}
}

// applicable property statements per kind
func c01PropsFor(kind string, parentKind string) []string {
	switch kind {
	case "leaf":
		ps := []string{`description "d";`, `default "dv";`, `config false;`, `when "../x";`, `must "m";`}
		if parentKind != "choice" {
			ps = append(ps, `mandatory true;`)
		}
		return ps
	case "leaf-list":
		return []string{`description "d";`, `min-elements 1;`, `max-elements 4;`, `config false;`, `ordered-by user;`}
	case "container":
		return []string{`description "d";`, `presence "p";`, `config false;`, `when "../x";`, `must "m";`}
	case "list":
		return []string{`description "d";`, `min-elements 1;`, `max-elements 4;`, `config false;`}
	case "choice":
		return []string{`description "d";`, `mandatory true;`}
	}
	return nil
}

// refinable: which of those a refine statement may state
func refinable(p string) bool {
	for _, pre := range []string{"description", "default", "config", "mandatory", "min-elements", "max-elements", "must"} {
		if strings.HasPrefix(p, pre) {
			return true
		}
	}
	return false
}

type c01Case struct {
	N    int `json:"N"`
	From int `json:"from"`
	To   int `json:"to"`
	// replay
	NF   []*snode `json:"nf,omitempty"`
	Refs []string `json:"refs,omitempty"`
}

func c01N(tier string) int {
	if tier == "thorough" {
		return 4
	}
	return 3
}

func (p *c01) Bounds(tier string) map[string]interface{} {
	return map[string]interface{}{"N": c01N(tier), "depth": 3, "kinds": c01Kinds, "refactorings": c01RefNames, "pairs_of_refactorings": tier == "thorough"}
}

var c01NFCache = map[int][][]*snode{}

func c01NFs(n int) [][]*snode {
	if f, ok := c01NFCache[n]; ok {
		return f
	}
	var all [][]*snode
	for k := 1; k <= n; k++ {
		cnt := 0
		for _, f := range forests(k, 3, "module", &cnt) {
			var c []*snode
			for _, t := range f {
				c = append(c, t.clone())
			}
			nameAll(c, "n")
			all = append(all, c)
		}
	}
	c01NFCache[n] = all
	return all
}

func (p *c01) Cases(tier string, emit func(interface{})) {
	n := c01N(tier)
	total := len(c01NFs(n))
	batch := 40
	for from := 0; from < total; from += batch {
		to := from + batch
		if to > total {
			to = total
		}
		emit(c01Case{N: n, From: from, To: to})
	}
	emit(c01Case{N: -1}) // hand-written interaction scenarios
}

// ---------------------------------------------------------------- refactorings

var c01RefNames = []string{"group-module-before", "group-module-after", "group-sibling", "group-ancestor", "group-nested", "group-submodule", "group-imported", "refine", "augment-module-last", "augment-module-last2", "augment-uses-last", "submodule-top", "uses-when-true", "uses-if-feature-on", "twice-with-refines",
	"shadow-local-before", "shadow-local-after", "shadow-imported-before", "shadow-imported-after",
	"augment-module-uses", "augment-module-uses2", "augment-uses-uses", "augment-uses-uses2"}

type modset struct {
	main string
	mods map[string]string
	// inlineExtra: fixed top-level text the refactoring adds besides the forest (position: before/after
	// the forest); the inline form it is compared with gets the expanded equivalent in the same place.
	inlineExtra string
	extraAfter  bool
	// featuresOff: loaded with these features off (nil: every feature on)
	featuresOff []string
}

const c01Hdr = `module nf { yang-version 1.1; namespace "urn:nf"; prefix nf; `

func nfText(nf []*snode) modset {
	return modset{main: c01Hdr + "revision 0; feature fon; leaf x { type string; } " + renderAll(nf) + "}"}
}

// path of a node inside the forest
type npath []int

func nodeAt(nf []*snode, p npath) *snode {
	cur := nf
	var n *snode
	for _, i := range p {
		n = cur[i]
		cur = n.Kids
	}
	return n
}

func allPaths(nf []*snode, prefix npath, out *[]npath) {
	for i, n := range nf {
		p := append(append(npath{}, prefix...), i)
		*out = append(*out, p)
		allPaths(n.Kids, p, out)
	}
}

func cloneForest(nf []*snode) []*snode {
	var c []*snode
	for _, n := range nf {
		c = append(c, n.clone())
	}
	return c
}

func schemaPathOf(nf []*snode, p npath) string {
	var segs []string
	cur := nf
	for _, i := range p {
		n := cur[i]
		segs = append(segs, n.Name)
		if n.Kind == "choice" {
			// shorthand members sit in an implicit case of their own name
		}
		cur = n.Kids
	}
	// insert implicit case names for members of a choice
	var out []string
	cur = nf
	for d, i := range p {
		n := cur[i]
		out = append(out, segs[d])
		if n.Kind == "choice" && d+1 < len(p) {
			out = append(out, n.Kids[p[d+1]].Name)
		}
		cur = n.Kids
	}
	return "/" + strings.Join(out, "/")
}

// applyRef builds the refactored module set for refactoring name at position p; ok=false if not applicable.
func applyRef(nf []*snode, name string, p npath) (ms modset, ok bool) {
	x := nodeAt(nf, p)
	hasKids := (x.Kind == "container" || x.Kind == "list") && len(x.Kids) > 0
	extract := func(usesStmt string) ([]*snode, string) {
		c := cloneForest(nf)
		t := nodeAt(c, p)
		body := renderAll(t.Kids)
		t.Kids = nil
		t.Props = append(t.Props, usesStmt)
		return c, body
	}
	front := c01Hdr + "revision 0; feature fon; leaf x { type string; } "
	switch name {
	case "group-module-before", "group-module-after", "uses-when-true", "uses-if-feature-on":
		if !hasKids {
			return ms, false
		}
		uses := "uses g;"
		if name == "uses-if-feature-on" {
			uses = "uses g { if-feature fon; }"
		}
		if name == "uses-when-true" {
			return ms, false // a when on the uses is pushed onto every copied child: not meaning-preserving for the dump
		}
		c, body := extract(uses)
		g := "grouping g { " + body + "} "
		if name == "group-module-after" {
			return modset{main: front + renderAll(c) + g + "}"}, true
		}
		return modset{main: front + g + renderAll(c) + "}"}, true
	case "group-sibling":
		// the grouping is declared in X's parent (next to X)
		if !hasKids || len(p) < 2 {
			return ms, false
		}
		parent := nodeAt(nf, p[:len(p)-1])
		if parent.Kind == "choice" {
			return ms, false
		}
		c, body := extract("uses g;")
		pc := nodeAt(c, p[:len(p)-1])
		pc.Props = append(pc.Props, "grouping g { "+body+"}")
		return modset{main: front + renderAll(c) + "}"}, true
	case "shadow-local-before", "shadow-local-after":
		// two groupings of the same name in different scopes: X's children come from a grouping g
		// declared next to X, while a module-level grouping g (other content) is used at the top.
		if !hasKids || len(p) < 2 {
			return ms, false
		}
		if nodeAt(nf, p[:len(p)-1]).Kind == "choice" {
			return ms, false
		}
		c, body := extract("uses g;")
		pc := nodeAt(c, p[:len(p)-1])
		pc.Props = append(pc.Props, "grouping g { "+body+"}")
		extra := "grouping g { leaf shadow { type string; } } container zsh { uses g; } "
		inl := "container zsh { leaf shadow { type string; } } "
		if name == "shadow-local-after" {
			return modset{main: front + renderAll(c) + extra + "}", inlineExtra: inl, extraAfter: true}, true
		}
		return modset{main: front + extra + renderAll(c) + "}", inlineExtra: inl}, true
	case "shadow-imported-before", "shadow-imported-after":
		// the imported grouping g uses its own module's grouping h; the importing module has a
		// different grouping h of its own and uses it too.
		if !hasKids || strings.Contains(renderAll(x.Kids), "when ") {
			return ms, false
		}
		c, body := extract("uses i:g;")
		extra := "grouping h { leaf shadow { type string; } } container zsh { uses h; } "
		inl := "container zsh { leaf shadow { type string; } } "
		mods := map[string]string{"nfimp": `module nfimp { namespace "urn:nfimp"; prefix nfimp; revision 0; grouping g { uses h; } grouping h { ` + body + "} }"}
		hdr := c01Hdr + "import nfimp { prefix i; } revision 0; feature fon; leaf x { type string; } "
		if name == "shadow-imported-after" {
			return modset{main: hdr + renderAll(c) + extra + "}", mods: mods, inlineExtra: inl, extraAfter: true}, true
		}
		return modset{main: hdr + extra + renderAll(c) + "}", mods: mods, inlineExtra: inl}, true
	case "group-ancestor":
		if !hasKids || len(p) < 3 {
			return ms, false
		}
		anc := nodeAt(nf, p[:1])
		if anc.Kind == "choice" {
			return ms, false
		}
		c, body := extract("uses g;")
		ac := nodeAt(c, p[:1])
		ac.Props = append(ac.Props, "grouping g { "+body+"}")
		return modset{main: front + renderAll(c) + "}"}, true
	case "group-nested":
		if !hasKids {
			return ms, false
		}
		c, body := extract("uses g1;")
		return modset{main: front + "grouping g1 { uses g2; } grouping g2 { " + body + "} " + renderAll(c) + "}"}, true
	case "group-submodule":
		if !hasKids {
			return ms, false
		}
		c, body := extract("uses g;")
		return modset{main: c01Hdr + "include nfsub; revision 0; feature fon; leaf x { type string; } " + renderAll(c) + "}",
			mods: map[string]string{"nfsub": "submodule nfsub { belongs-to nf { prefix nf; } grouping g { " + body + "} }"}}, true
	case "group-imported":
		if !hasKids || strings.Contains(renderAll(x.Kids), "when ") {
			return ms, false
		}
		c, body := extract("uses i:g;")
		return modset{main: c01Hdr + "import nfimp { prefix i; } revision 0; feature fon; leaf x { type string; } " + renderAll(c) + "}",
			mods: map[string]string{"nfimp": `module nfimp { namespace "urn:nfimp"; prefix nfimp; revision 0; grouping g { ` + body + "} }"}}, true
	case "refine":
		// a refinable property of a child (or grandchild) of X is stated by a refine on the uses
		if !hasKids {
			return ms, false
		}
		var target npath
		var prop string
		var find func(kids []*snode, rel npath)
		find = func(kids []*snode, rel npath) {
			for i, k := range kids {
				for _, pr := range k.Props {
					if refinable(pr) && prop == "" {
						target, prop = append(append(npath{}, rel...), i), pr
					}
				}
				if k.Kind != "choice" {
					find(k.Kids, append(append(npath{}, rel...), i))
				}
			}
		}
		find(x.Kids, nil)
		if prop == "" {
			return ms, false
		}
		c := cloneForest(nf)
		t := nodeAt(c, p)
		tn := nodeAt(t.Kids, target)
		var kept []string
		for _, pr := range tn.Props {
			if pr != prop {
				kept = append(kept, pr)
			}
		}
		tn.Props = kept
		var relNames []string
		cur := t.Kids
		for _, i := range target {
			relNames = append(relNames, cur[i].Name)
			cur = cur[i].Kids
		}
		body := renderAll(t.Kids)
		t.Kids = nil
		t.Props = append(t.Props, fmt.Sprintf("uses g { refine %s { %s } }", strings.Join(relNames, "/"), prop))
		return modset{main: front + "grouping g { " + body + "} " + renderAll(c) + "}"}, true
	case "augment-module-last", "augment-module-last2":
		// the last child (or last two, as two augments in order) of X comes from module-level augments
		if x.Kind != "container" && x.Kind != "list" && x.Kind != "choice" {
			return ms, false
		}
		k := 1
		if name == "augment-module-last2" {
			k = 2
		}
		if len(x.Kids) < k {
			return ms, false
		}
		c := cloneForest(nf)
		t := nodeAt(c, p)
		moved := t.Kids[len(t.Kids)-k:]
		t.Kids = t.Kids[:len(t.Kids)-k]
		if x.Kind == "choice" && len(t.Kids) == 0 {
			return ms, false
		}
		var augs string
		tp := schemaPathOf(nf, p)
		for _, mv := range moved {
			if strings.Contains(mv.render(), "when ") {
				return ms, false
			}
			augs += fmt.Sprintf(`augment "%s" { %s} `, tp, mv.render())
		}
		return modset{main: front + renderAll(c) + augs + "}"}, true
	case "augment-module-uses", "augment-module-uses2":
		// the last child (or last two) of X come from ONE module-level augment whose body is a uses
		if x.Kind != "container" && x.Kind != "list" && x.Kind != "choice" {
			return ms, false
		}
		k := 1
		if name == "augment-module-uses2" {
			k = 2
		}
		if len(x.Kids) < k {
			return ms, false
		}
		c := cloneForest(nf)
		t := nodeAt(c, p)
		moved := t.Kids[len(t.Kids)-k:]
		t.Kids = t.Kids[:len(t.Kids)-k]
		if x.Kind == "choice" && len(t.Kids) == 0 {
			return ms, false
		}
		body := renderAll(moved)
		if strings.Contains(body, "when ") {
			return ms, false
		}
		return modset{main: front + "grouping ga { " + body + "} " + renderAll(c) + fmt.Sprintf(`augment "%s" { uses ga; } `, schemaPathOf(nf, p)) + "}"}, true
	case "augment-uses-uses", "augment-uses-uses2":
		// X's children come from a grouping; the last child (or two) of X's first child is added by
		// an augment on the uses whose body is itself a uses
		if !hasKids {
			return ms, false
		}
		first := x.Kids[0]
		if first.Kind != "container" && first.Kind != "list" && first.Kind != "choice" {
			return ms, false
		}
		k := 1
		if name == "augment-uses-uses2" {
			k = 2
		}
		if len(first.Kids) < k || (first.Kind == "choice" && len(first.Kids) == k) {
			return ms, false
		}
		c := cloneForest(nf)
		t := nodeAt(c, p)
		f := t.Kids[0]
		moved := f.Kids[len(f.Kids)-k:]
		f.Kids = f.Kids[:len(f.Kids)-k]
		mbody := renderAll(moved)
		if strings.Contains(mbody, "when ") {
			return ms, false
		}
		body := renderAll(t.Kids)
		t.Kids = nil
		t.Props = append(t.Props, fmt.Sprintf("uses g { augment %s { uses ga; } }", f.Name))
		return modset{main: front + "grouping ga { " + mbody + "} grouping g { " + body + "} " + renderAll(c) + "}"}, true
	case "augment-uses-last":
		if !hasKids {
			return ms, false
		}
		first := x.Kids[0]
		if first.Kind != "container" && first.Kind != "list" && first.Kind != "choice" {
			return ms, false
		}
		if first.Kind == "choice" && len(first.Kids) < 2 {
			return ms, false
		}
		// X's children come from a grouping; the last child of X's first child is added by an augment on the uses
		if len(first.Kids) == 0 {
			return ms, false
		}
		c := cloneForest(nf)
		t := nodeAt(c, p)
		f := t.Kids[0]
		mv := f.Kids[len(f.Kids)-1]
		if strings.Contains(mv.render(), "when ") {
			return ms, false
		}
		f.Kids = f.Kids[:len(f.Kids)-1]
		body := renderAll(t.Kids)
		t.Kids = nil
		t.Props = append(t.Props, fmt.Sprintf("uses g { augment %s { %s} }", f.Name, mv.render()))
		return modset{main: front + "grouping g { " + body + "} " + renderAll(c) + "}"}, true
	case "submodule-top":
		if len(p) != 1 {
			return ms, false
		}
		// top-level node p moves to a submodule (order of own vs submodule nodes is compared order-insensitively)
		c := cloneForest(nf)
		mv := c[p[0]]
		c = append(c[:p[0]:p[0]], c[p[0]+1:]...)
		if strings.Contains(mv.render(), "when ") {
			return ms, false
		}
		return modset{main: c01Hdr + "include nfsub; revision 0; feature fon; leaf x { type string; } " + renderAll(c) + "}",
			mods: map[string]string{"nfsub": "submodule nfsub { belongs-to nf { prefix nf; } " + mv.render() + "}"}}, true
	}
	return ms, false
}

func c01Dump(ms modset) (model.Dump, error, string, string) {
	var fs meta.FeatureSet
	if ms.featuresOff != nil {
		fs = meta.FeaturesOff(ms.featuresOff)
	}
	m, err, fr, msg := c11Load(ms.main, fs, ms.mods)
	if fr != "" || err != nil {
		return nil, err, fr, msg
	}
	return model.DumpModule(m, model.FullDump()), nil, "", ""
}

func topInsensitive(d model.Dump) model.Dump {
	var out model.Dump
	for _, l := range d {
		if strings.HasPrefix(l, ": children=") {
			parts := strings.Split(strings.TrimPrefix(l, ": children="), ",")
			sortStrings(parts)
			l = ": children=" + strings.Join(parts, ",")
		}
		out = append(out, l)
	}
	return out
}

func sortStrings(s []string) {
	for i := 1; i < len(s); i++ {
		for j := i; j > 0 && s[j] < s[j-1]; j-- {
			s[j], s[j-1] = s[j-1], s[j]
		}
	}
}

func (p *c01) Run(raw json.RawMessage) eng.Result {
	var c c01Case
	decode(raw, &c)
	var res eng.Result
	ss := &sigSet{res: &res}
	if c.N == -1 {
		c01Scenarios(&res, ss)
		return res
	}
	nfs := c01NFs(c.N)
	check := func(nf []*snode, decoration string) {
		base := nfText(nf)
		want, err, fr, msg := c01Dump(base)
		res.States++
		if fr != "" || err != nil {
			// the inline form itself does not load: not a well-formed module set of the family (e.g. when on a key), skip
			if fr != "" {
				ss.add("C01/normal-form/panic:"+fr, msg+" :: "+base.main)
			}
			return
		}
		var paths []npath
		allPaths(nf, nil, &paths)
		for _, rn := range c01RefNames {
			for _, pth := range paths {
				ms, ok := applyRef(nf, rn, pth)
				if !ok {
					continue
				}
				got, err, fr, msg := c01Dump(ms)
				res.Evals++
				res.Transitions++
				res.Nontriv++
				x := nodeAt(nf, pth)
				site := fmt.Sprintf("C01/%s/at-%s", rn, x.Kind)
				if decoration != "" {
					site += "/with-" + strings.Fields(decoration)[0]
				}
				switch {
				case fr != "":
					ss.add(site+"/panic:"+fr, msg+" :: "+ms.main)
					continue
				case err != nil:
					ss.add(site+"/load-error", err.Error()+" :: "+ms.main+fmt.Sprint(ms.mods))
					continue
				}
				w, g := want, got
				if ms.inlineExtra != "" {
					inl := modset{main: c01Hdr + "revision 0; feature fon; leaf x { type string; } " + ms.inlineExtra + renderAll(nf) + "}"}
					if ms.extraAfter {
						inl = modset{main: c01Hdr + "revision 0; feature fon; leaf x { type string; } " + renderAll(nf) + ms.inlineExtra + "}"}
					}
					w2, err, fr, msg := c01Dump(inl)
					if err != nil || fr != "" {
						panic("harness: inline form with extra does not load: " + fmt.Sprint(err, fr, msg) + " :: " + inl.main)
					}
					w = w2
				}
				if rn == "submodule-top" {
					w, g = topInsensitive(want), topInsensitive(got)
				}
				onlyW, onlyG := model.DiffDumps(w, g)
				if len(onlyW)+len(onlyG) > 0 {
					first := ""
					if len(onlyW) > 0 {
						first = "inline has " + onlyW[0]
					}
					if len(onlyG) > 0 {
						first += " / refactored has " + onlyG[0]
					}
					ss.add(site+"/"+c01DiffClass(onlyW, onlyG), first+" :: "+ms.main+fmt.Sprint(ms.mods))
				}
			}
		}
	}
	for i := c.From; i < c.To && i < len(nfs); i++ {
		nf := nfs[i]
		check(nf, "")
		// decorate one node at a time with each applicable property
		var paths []npath
		allPaths(nf, nil, &paths)
		for _, pth := range paths {
			n := nodeAt(nf, pth)
			pk := "module"
			if len(pth) > 1 {
				pk = nodeAt(nf, pth[:len(pth)-1]).Kind
			}
			for _, pr := range c01PropsFor(n.Kind, pk) {
				d := cloneForest(nf)
				dn := nodeAt(d, pth)
				dn.Props = append(dn.Props, pr)
				check(d, pr)
			}
		}
	}
	res.Outcomes = []string{fmt.Sprintf("N=%d", c.N)}
	if res.Evals == 0 {
		res.Evals = 1
	}
	return res
}

func c01DiffClass(onlyW, onlyG []string) string {
	prop := func(l string) string {
		i := strings.Index(l, ": ")
		r := l[i+2:]
		if j := strings.Index(r, "="); j >= 0 {
			r = r[:j]
		}
		if k := strings.Index(r, "["); k >= 0 {
			r = r[:k]
		}
		return r
	}
	if len(onlyW) > 0 {
		return "differs-in-" + prop(onlyW[0])
	}
	return "differs-in-" + prop(onlyG[0])
}

// hand-written interaction scenarios: pairs (inline, factored) that must compile to the same tree
func c01Scenarios(res *eng.Result, ss *sigSet) {
	type sc struct {
		name             string
		inline, factored modset
	}
	h := c01Hdr + "revision 0; leaf x { type string; } "
	m := func(s string) modset { return modset{main: h + s + "}"} }
	scs := []sc{
		{"grouping-used-twice-different-refines",
			m(`container a { leaf l { type string; description "one"; default "1"; } container c { leaf m { type string; } } } container b { leaf l { type string; description "two"; mandatory true; } container c { leaf m { type string; config false; } } }`),
			m(`grouping g { leaf l { type string; } container c { leaf m { type string; } } } container a { uses g { refine l { description "one"; default "1"; } } } container b { uses g { refine l { description "two"; mandatory true; } refine c/m { config false; } } }`)},
		{"grouping-used-three-times-augmented-differently",
			m(`container a { leaf l { type string; } leaf a1 { type string; } } container b { leaf l { type string; } leaf b1 { type string; } } container c { leaf l { type string; } }`),
			m(`grouping g { leaf l { type string; } } container a { uses g; } container b { uses g; } container c { uses g; } augment "/a" { leaf a1 { type string; } } augment "/b" { leaf b1 { type string; } }`)},
		{"augment-into-grouping-expanded-container",
			m(`container a { container inner { leaf l { type string; } leaf added { type string; } } }`),
			m(`grouping g { container inner { leaf l { type string; } } } container a { uses g; } augment "/a/inner" { leaf added { type string; } }`)},
		{"augment-into-augment-added-container-in-order",
			m(`container a { container first { leaf deep { type string; } } leaf second { type string; } }`),
			m(`container a { } augment "/a" { container first { } } augment "/a/first" { leaf deep { type string; } } augment "/a" { leaf second { type string; } }`)},
		{"augment-choice-with-shorthand-becomes-case",
			m(`choice ch { leaf s1 { type string; } case c2 { leaf s2 { type string; } } container s3 { leaf y { type string; } } }`),
			m(`choice ch { leaf s1 { type string; } } augment "/ch" { case c2 { leaf s2 { type string; } } } augment "/ch" { container s3 { leaf y { type string; } } }`)},
		{"augment-into-case",
			m(`choice ch { case c1 { leaf a { type string; } leaf b { type string; } } }`),
			m(`choice ch { case c1 { leaf a { type string; } } } augment "/ch/c1" { leaf b { type string; } }`)},
		{"augment-rpc-input-and-output",
			m(`rpc r { input { leaf i { type string; } leaf i2 { type string; } } output { leaf o { type string; } leaf o2 { type string; } } }`),
			m(`rpc r { input { leaf i { type string; } } output { leaf o { type string; } } } augment "/r/input" { leaf i2 { type string; } } augment "/r/output" { leaf o2 { type string; } }`)},
		{"augment-notification",
			m(`notification n { leaf a { type string; } leaf b { type string; } }`),
			m(`notification n { leaf a { type string; } } augment "/n" { leaf b { type string; } }`)},
		{"grouping-with-action-and-notification",
			m(`container a { leaf l { type string; } action act { input { leaf i { type string; } } } notification nn { leaf e { type string; } } }`),
			m(`grouping g { leaf l { type string; } action act { input { leaf i { type string; } } } notification nn { leaf e { type string; } } } container a { uses g; }`)},
		{"grouping-uses-imported-grouping",
			m(`container a { leaf own { type string; } leaf far { type string; } }`),
			modset{main: c01Hdr + `import nfimp { prefix i; } revision 0; leaf x { type string; } grouping g { leaf own { type string; } uses i:rg; } container a { uses g; } }`,
				mods: map[string]string{"nfimp": `module nfimp { namespace "urn:nfimp"; prefix nfimp; revision 0; grouping rg { leaf far { type string; } } }`}}},
		{"config-inherited-through-grouping",
			m(`container a { config false; container b { leaf l { type string; } list li { key k; leaf k { type string; } } } }`),
			m(`grouping g { container b { leaf l { type string; } list li { key k; leaf k { type string; } } } } container a { config false; uses g; }`)},
		{"config-differs-per-use",
			m(`container a { config false; leaf l { type string; } } container b { leaf l { type string; } }`),
			m(`grouping g { leaf l { type string; } } container a { config false; uses g; } container b { uses g; }`)},
		{"refine-nested-path-and-min-max",
			m(`container a { container c { leaf-list ll { type string; min-elements 2; max-elements 5; } } list li { key k; leaf k { type string; } max-elements 3; } }`),
			m(`grouping g { container c { leaf-list ll { type string; } } list li { key k; leaf k { type string; } } } container a { uses g { refine c/ll { min-elements 2; max-elements 5; } refine li { max-elements 3; } } }`)},
		{"refine-must-and-presence",
			m(`container a { container c { presence "p"; must "m1"; leaf l { type string; } } }`),
			m(`grouping g { container c { leaf l { type string; } } } container a { uses g { refine c { presence "p"; must "m1"; } } }`)},
		{"submodule-includes-submodule",
			m(`container main1 { leaf l { type string; } } container s1 { leaf l { type string; } } container s2 { leaf l { type string; } }`),
			modset{main: c01Hdr + `include s1m; revision 0; leaf x { type string; } container main1 { leaf l { type string; } } }`,
				mods: map[string]string{"s1m": `submodule s1m { belongs-to nf { prefix nf; } include s2m; container s1 { leaf l { type string; } } }`, "s2m": `submodule s2m { belongs-to nf { prefix nf; } container s2 { leaf l { type string; } } }`}}},
		{"submodule-of-submodule-uses-its-own-grouping-and-typedef",
			m(`container main1 { leaf l { type string; } } container s1 { leaf a { type string; } } container s2 { leaf b { type string; } leaf t { type int32 { range "1..9"; } } }`),
			modset{main: c01Hdr + `include s1m; revision 0; leaf x { type string; } container main1 { leaf l { type string; } } }`,
				mods: map[string]string{"s1m": `submodule s1m { belongs-to nf { prefix nf; } include s2m; grouping g1 { leaf a { type string; } } container s1 { uses g1; } }`, "s2m": `submodule s2m { belongs-to nf { prefix nf; } typedef t2 { type int32 { range "1..9"; } } grouping g2 { leaf b { type string; } } container s2 { uses g2; leaf t { type t2; } } }`}}},
		{"submodule-grouping-used-in-main-with-typedef",
			m(`container a { leaf l { type string { length "1..5"; } default "d"; } }`),
			modset{main: c01Hdr + `include s1m; revision 0; leaf x { type string; } container a { uses sg; } }`,
				mods: map[string]string{"s1m": `submodule s1m { belongs-to nf { prefix nf; } typedef st { type string { length "1..5"; } default "d"; } grouping sg { leaf l { type st; } } }`}}},
		{"uses-inside-choice-case",
			m(`choice ch { case c1 { leaf a { type string; } leaf b { type string; } } case c2 { leaf c { type string; } } }`),
			m(`grouping g { leaf a { type string; } leaf b { type string; } } choice ch { case c1 { uses g; } case c2 { leaf c { type string; } } }`)},
		{"uses-at-module-level-between-siblings",
			m(`leaf before { type string; } leaf g1 { type string; } leaf g2 { type string; } leaf after { type string; }`),
			m(`grouping g { leaf g1 { type string; } leaf g2 { type string; } } leaf before { type string; } uses g; leaf after { type string; }`)},
		{"when-on-child-kept-when-uses-has-when",
			m(`container a { leaf l { type string; when "../x"; } }`),
			m(`grouping g { leaf l { type string; when "../x"; } } container a { uses g; }`)},
		{"augment-choice-with-uses-body",
			m(`choice ch { leaf s1 { type string; } leaf u1 { type string; } container u2 { leaf y { type string; } } }`),
			m(`grouping ga { leaf u1 { type string; } container u2 { leaf y { type string; } } } choice ch { leaf s1 { type string; } } augment "/ch" { uses ga; }`)},
		{"augment-choice-with-uses-and-case",
			m(`choice ch { leaf s1 { type string; } leaf u1 { type string; } leaf u2 { type string; } case c3 { leaf s3 { type string; } } }`),
			m(`grouping ga { leaf u1 { type string; } leaf u2 { type string; } } choice ch { leaf s1 { type string; } } augment "/ch" { uses ga; case c3 { leaf s3 { type string; } } }`)},
		{"uses-augment-choice-with-uses-body",
			m(`container a { choice ch { leaf s1 { type string; } leaf u1 { type string; } container u2 { leaf y { type string; } } } }`),
			m(`grouping ga { leaf u1 { type string; } container u2 { leaf y { type string; } } } grouping g { choice ch { leaf s1 { type string; } } } container a { uses g { augment ch { uses ga; } } }`)},
		{"uses-augment-choice-with-case-and-shorthand",
			m(`container a { choice ch { leaf s1 { type string; } case c2 { leaf s2 { type string; } } leaf s3 { type string; } } }`),
			m(`grouping g { choice ch { leaf s1 { type string; } } } container a { uses g { augment ch { case c2 { leaf s2 { type string; } } leaf s3 { type string; } } } }`)},
		{"uses-augment-container-with-uses-body",
			m(`container a { container c { leaf s1 { type string; } leaf u1 { type string; } leaf u2 { type string; } } }`),
			m(`grouping ga { leaf u1 { type string; } leaf u2 { type string; } } grouping g { container c { leaf s1 { type string; } } } container a { uses g { augment c { uses ga; } } }`)},
		{"uses-augment-into-case",
			m(`container a { choice ch { case c1 { leaf s1 { type string; } leaf u1 { type string; } } } }`),
			m(`grouping ga { leaf u1 { type string; } } grouping g { choice ch { case c1 { leaf s1 { type string; } } } } container a { uses g { augment ch/c1 { uses ga; } } }`)},
		{"augment-case-with-uses-body",
			m(`choice ch { case c1 { leaf s1 { type string; } leaf u1 { type string; } leaf u2 { type string; } } }`),
			m(`grouping ga { leaf u1 { type string; } leaf u2 { type string; } } choice ch { case c1 { leaf s1 { type string; } } } augment "/ch/c1" { uses ga; }`)},
		{"augment-with-action-and-notification",
			m(`container a { leaf l { type string; } action act { input { leaf i { type string; } } } notification nn { leaf e { type string; } } }`),
			m(`container a { leaf l { type string; } } augment "/a" { action act { input { leaf i { type string; } } } notification nn { leaf e { type string; } } }`)},
		{"uses-augment-with-action-and-notification",
			m(`container a { container c { leaf l { type string; } action act { input { leaf i { type string; } } } notification nn { leaf e { type string; } } } }`),
			m(`grouping g { container c { leaf l { type string; } } } container a { uses g { augment c { action act { input { leaf i { type string; } } } notification nn { leaf e { type string; } } } } }`)},
		// with a feature off: what the feature guards is gone, everything next to it is as written inline
		{"feature-off/first-child-of-uses-augment",
			modset{main: h + `feature foff; container a { container c { leaf s1 { type string; } leaf after { type string; } action act { input { leaf i { type string; } } } notification nn { leaf e { type string; } } } } }`, featuresOff: []string{"foff"}},
			modset{main: h + `feature foff; grouping g { container c { leaf s1 { type string; } } } container a { uses g { augment c { leaf gone { if-feature foff; type string; } leaf after { type string; } action act { input { leaf i { type string; } } } notification nn { leaf e { type string; } } } } } }`, featuresOff: []string{"foff"}}},
		{"feature-off/first-child-of-augment",
			modset{main: h + `feature foff; container a { leaf s1 { type string; } leaf after { type string; } action act { input { leaf i { type string; } } } }` + "}", featuresOff: []string{"foff"}},
			modset{main: h + `feature foff; container a { leaf s1 { type string; } } augment "/a" { leaf gone { if-feature foff; type string; } leaf after { type string; } action act { input { leaf i { type string; } } } } }`, featuresOff: []string{"foff"}}},
		{"feature-off/first-node-of-grouping",
			modset{main: h + `feature foff; container a { leaf after { type string; } container c { leaf l { type string; } } } }`, featuresOff: []string{"foff"}},
			modset{main: h + `feature foff; grouping g { leaf gone { if-feature foff; type string; } leaf after { type string; } container c { leaf gone2 { if-feature foff; type string; } leaf l { type string; } } } container a { uses g; } }`, featuresOff: []string{"foff"}}},
		{"feature-off/case-among-cases",
			modset{main: h + `feature foff; choice ch { case k1 { leaf a { type string; } } case k3 { leaf c { type string; } } } }`, featuresOff: []string{"foff"}},
			modset{main: h + `feature foff; choice ch { case k1 { leaf a { type string; } } case k2 { if-feature foff; leaf b { type string; } } case k3 { leaf c { type string; } } } }`, featuresOff: []string{"foff"}}},
		{"recursive-grouping-terminates-like-inline-depth",
			m(`container a { leaf l { type string; } }`),
			m(`grouping g { leaf l { type string; } } container a { uses g; }`)},
	}
	// refine matrix: one grouping used three times, exactly one use refines a property that the
	// grouping itself states or leaves out; the other copies (and the grouping) must keep theirs
	type rprop struct {
		name, kind, target, v0, v1 string // target: refine path; v0: stated in the grouping; v1: refined to
		additive                   bool   // must: the refine adds to what the grouping states
	}
	rprops := []rprop{
		{"config-container", "container", "s", "config false;", "config true;", false},
		{"config-leaf", "leaf", "l", "config false;", "config true;", false},
		{"config-nested-leaf", "nested-leaf", "s/l", "config false;", "config true;", false},
		{"mandatory", "leaf", "l", "mandatory false;", "mandatory true;", false},
		{"default", "leaf", "l", `default "1";`, `default "2";`, false},
		{"description", "leaf", "l", `description "d0";`, `description "d1";`, false},
		{"presence", "container", "s", `presence "p0";`, `presence "p1";`, false},
		{"min-elements", "leaf-list", "ll", "min-elements 1;", "min-elements 2;", false},
		{"max-elements", "leaf-list", "ll", "max-elements 5;", "max-elements 6;", false},
		{"max-elements-list", "list", "li", "max-elements 5;", "max-elements 6;", false},
		{"must", "leaf", "l", `must "a";`, `must "b";`, true},
		// the other direction of every two-valued property, and the unbounded forms
		{"config-leaf-on-to-off", "leaf", "l", "config true;", "config false;", false},
		{"mandatory-on-to-off", "leaf", "l", "mandatory true;", "mandatory false;", false},
		{"min-elements-to-zero", "leaf-list", "ll", "min-elements 2;", "min-elements 0;", false},
		{"max-elements-to-unbounded", "leaf-list", "ll", "max-elements 5;", "max-elements unbounded;", false},
		{"max-elements-from-unbounded", "leaf-list", "ll", "max-elements unbounded;", "max-elements 7;", false},
		{"max-elements-list-to-unbounded", "list", "li", "max-elements 5;", "max-elements unbounded;", false},
		{"max-elements-list-from-unbounded", "list", "li", "max-elements unbounded;", "max-elements 7;", false},
		{"default-to-empty", "leaf", "l", `default "1";`, `default "";`, false},
		// leaves typed by a typedef that brings units and a default: every copy keeps what the
		// typedef gives and it does not state itself
		{"default-over-typedef", "tdu-leaf", "l", `default "1";`, `default "2";`, false},
		{"description-on-typedef-leaf", "tdu-leaf", "l", `description "d0";`, `description "d1";`, false},
		{"default-over-typedef-own-units", "tdu-leaf-own-units", "l", `default "1";`, `default "2";`, false},
		{"description-on-typedef-leaf-own-units", "tdu-leaf-own-units", "l", `description "d0";`, `description "d1";`, false},
		{"description-on-typedef-leaf-own-default", "tdu-leaf-own-default", "l", `description "d0";`, `description "d1";`, false},
		{"config-on-typedef-leaf-list", "tdu-leaf-list", "ll", "config true;", "config false;", false},
		{"default-over-units-only-typedef", "tu-leaf", "l", `default "1";`, `default "2";`, false},
		{"description-on-default-only-typedef-leaf", "td-leaf", "l", `description "d0";`, `description "d1";`, false},
	}
	tdefs := `typedef tdu { type string; units "tu"; default "td"; } typedef tu { type int32; units "only-units"; } typedef td { type string; default "only-default"; } `
	body := func(p rprop, stmt string) string {
		switch p.kind {
		case "container":
			return "container s { " + stmt + " leaf l { type string; } } leaf o { type string; }"
		case "leaf":
			return "leaf l { type string; " + stmt + " } leaf o { type string; }"
		case "nested-leaf":
			return "container s { leaf l { type string; " + stmt + " } leaf o { type string; } }"
		case "leaf-list":
			return "leaf-list ll { type string; " + stmt + " } leaf o { type string; }"
		case "list":
			return "list li { key k; " + stmt + " leaf k { type string; } } leaf o { type string; }"
		case "tdu-leaf":
			return "leaf l { type tdu; " + stmt + " } leaf o { type tdu; }"
		case "tdu-leaf-own-units":
			return "leaf l { type tdu; units \"lu\"; " + stmt + " } leaf o { type tdu; }"
		case "tdu-leaf-own-default":
			return "leaf l { type tdu; default \"ld\"; " + stmt + " } leaf o { type tdu; }"
		case "tdu-leaf-list":
			return "leaf-list ll { type tu; " + stmt + " } leaf o { type tu; units \"ou\"; }"
		case "tu-leaf":
			return "leaf l { type tu; " + stmt + " } leaf o { type tu; }"
		case "td-leaf":
			return "leaf l { type td; " + stmt + " } leaf o { type td; units \"ou\"; }"
		}
		panic(p.kind)
	}
	for _, p := range rprops {
		for _, stated := range []bool{true, false} {
			for k := 0; k < 3; k++ {
				v0 := ""
				if stated {
					v0 = p.v0
				}
				var inl, fac strings.Builder
				if strings.Contains(p.kind, "-leaf") && strings.HasPrefix(p.kind, "t") {
					inl.WriteString(tdefs)
					fac.WriteString(tdefs)
				}
				fac.WriteString("grouping g { " + body(p, v0) + " } ")
				for u := 0; u < 3; u++ {
					name := string(rune('a' + u))
					if u == k {
						stmt := p.v1
						if p.additive {
							stmt = v0 + " " + p.v1
						}
						inl.WriteString("container " + name + " { " + body(p, stmt) + " } ")
						fac.WriteString("container " + name + " { uses g { refine " + p.target + " { " + p.v1 + " } } } ")
					} else {
						inl.WriteString("container " + name + " { " + body(p, v0) + " } ")
						fac.WriteString("container " + name + " { uses g; } ")
					}
				}
				st := "unstated"
				if stated {
					st = "stated"
				}
				scs = append(scs, sc{fmt.Sprintf("refine-matrix/%s/%s-in-grouping/use-%d-of-3", p.name, st, k+1), m(inl.String()), m(fac.String())})
			}
		}
	}
	// the name of a grouping is not the name of a node
	scs = append(scs,
		sc{"grouping-named-like-a-sibling-leaf", m(`container c { leaf params { type string; } leaf z { type string; } }`), m(`grouping params { leaf z { type string; } } container c { leaf params { type string; } uses params; }`)},
		sc{"grouping-named-like-a-later-sibling-leaf", m(`container c { leaf z { type string; } leaf params { type string; } }`), m(`grouping params { leaf z { type string; } } container c { uses params; leaf params { type string; } }`)},
		sc{"grouping-named-like-a-leaf-of-another-case", m(`choice ch { case p { leaf z { type string; } } case q { leaf g { type string; } } }`), m(`grouping g { leaf z { type string; } } choice ch { case p { uses g; } case q { leaf g { type string; } } }`)},
		sc{"grouping-named-like-its-own-leaf", m(`container c { leaf g { type string; } }`), m(`grouping g { leaf g { type string; } } container c { uses g; }`)},
		sc{"grouping-named-like-the-container-using-it", m(`container g { leaf z { type string; } }`), m(`grouping g { leaf z { type string; } } container g { uses g; }`)},
		sc{"two-scoped-groupings-of-one-name", m(`container a { leaf p { type string; } } container b { leaf q { type string; } }`), m(`container a { grouping g { leaf p { type string; } } uses g; } container b { grouping g { leaf q { type string; } } uses g; }`)},
	)
	scs = append(scs,
		sc{"uses-augment-uses-the-same-grouping", m(`container u { container c { leaf l { type string; } container c { leaf l { type string; } } } }`), m(`grouping g { container c { leaf l { type string; } } } container u { uses g { augment "c" { uses g; } } }`)},
		sc{"uses-augment-uses-the-same-grouping-twice", m(`container u { container c { leaf l { type string; } container c { leaf l { type string; } } } container d { container c { leaf l { type string; } } } }`), m(`grouping g { container c { leaf l { type string; } } } container u { uses g { augment "c" { uses g; } } container d { uses g; } }`)},
		sc{"two-uses-augments-of-one-target", m(`container u { container c { leaf l { type string; } leaf y { type string; } leaf z { type string; } } }`), m(`grouping g { container c { leaf l { type string; } } } container u { uses g { augment "c" { leaf y { type string; } } augment "c" { leaf z { type string; } } } }`)},
		sc{"refine-target-added-by-inner-uses-of-same-grouping", m(`container u { container c { leaf l { type string; description "outer"; } container c { leaf l { type string; } } } }`), m(`grouping g { container c { leaf l { type string; } } } container u { uses g { refine c/l { description "outer"; } augment "c" { uses g; } } }`)},
	)
	// many augments of one module: each adds its nodes in the order the augments are written, whatever
	// the depth of their targets
	for _, n := range []int{3, 12, 13, 17, 33} {
		var inl, fac strings.Builder
		inl.WriteString("container c { container d { container e { leaf ee { type string; } } leaf dd { type string; } } ")
		fac.WriteString(`container c { container d { container e { } } } augment "/c/d/e" { leaf ee { type string; } } augment "/c/d" { leaf dd { type string; } } `)
		for i := 0; i < n; i++ {
			fmt.Fprintf(&inl, "leaf a%d { type string; } ", i)
			fmt.Fprintf(&fac, `augment "/c" { leaf a%d { type string; } } `, i)
		}
		inl.WriteString("}")
		scs = append(scs, sc{fmt.Sprintf("augments-in-textual-order/%d-augments-of-one-target-after-deeper-ones", n), m(inl.String()), m(fac.String())})
	}
	// what is not YANG written out is not YANG through a grouping or an augment either
	for _, rj := range []sc{
		{"same-leaf-in-two-cases", m(`choice ch { case p { leaf z { type string; } } case q { leaf z { type string; } } }`), m(`grouping g { leaf z { type string; } } choice ch { case p { uses g; } case q { uses g; } }`)},
		{"same-leaf-in-two-cases-two-groupings", m(`choice ch { case p { leaf z { type string; } } case q { leaf z { type string; } } }`), m(`grouping g1 { leaf z { type string; } } grouping g2 { leaf z { type string; } } choice ch { case p { uses g1; } case q { uses g2; } }`)},
		{"same-leaf-in-one-case-only-through-grouping", m(`choice ch { case p { leaf z { type string; } } case q { leaf z { type string; } } }`), m(`grouping g { leaf z { type string; } } choice ch { case p { leaf z { type string; } } case q { uses g; } }`)},
		{"leaf-beside-choice-and-inside-its-case", m(`container c { leaf z { type string; } choice ch { case p { leaf z { type string; } } } }`), m(`grouping g { leaf z { type string; } } container c { leaf z { type string; } choice ch { case p { uses g; } } }`)},
		{"leaf-inside-nested-choice-and-outer-case", m(`choice ch { case p { leaf z { type string; } } case q { choice in { case r { leaf z { type string; } } } } }`), m(`grouping g { leaf z { type string; } } choice ch { case p { leaf z { type string; } } case q { choice in { case r { uses g; } } } }`)},
		{"same-leaf-twice-in-container", m(`container c { leaf z { type string; } leaf z { type string; } }`), m(`grouping g1 { leaf z { type string; } } grouping g2 { leaf z { type string; } } container c { uses g1; uses g2; }`)},
		{"augment-adds-leaf-of-another-case", m(`choice ch { case p { leaf z { type string; } } case q { leaf z { type string; } } }`), m(`choice ch { case p { leaf z { type string; } } } augment "/ch" { case q { leaf z { type string; } } }`)},
		{"augment-adds-existing-leaf", m(`container c { leaf z { type string; } leaf z { type string; } }`), m(`container c { leaf z { type string; } } augment "/c" { leaf z { type string; } }`)},
		{"augment-adds-leaf-into-case-existing-beside-choice", m(`container c { leaf z { type string; } choice ch { case p { leaf z { type string; } } } }`), m(`container c { leaf z { type string; } choice ch { case p { leaf y { type string; } } } } augment "/c/ch/p" { leaf z { type string; } }`)},
	} {
		res.Evals++
		res.Nontriv++
		if _, err, fr, msg := c01Dump(rj.inline); fr != "" {
			ss.add("C01/reject/"+rj.name+"/panic:"+fr, msg)
		} else if err == nil {
			ss.add("C01/reject/"+rj.name+"/written-out-form-loads", "two nodes of one name in one parent")
		}
		if _, err, fr, msg := c01Dump(rj.factored); fr != "" {
			ss.add("C01/reject/"+rj.name+"/panic:"+fr, msg)
		} else if err == nil {
			ss.add("C01/reject/"+rj.name+"/factored-form-loads", "the written-out form is refused (two nodes of one name in one parent), the factored form is taken")
		}
	}
	for _, s := range scs {
		want, err, fr, msg := c01Dump(s.inline)
		res.States++
		if fr != "" || err != nil {
			ss.add("C01/scenario/"+s.name+"/inline-does-not-load", fmt.Sprint(err, fr, msg))
			continue
		}
		got, err, fr, msg := c01Dump(s.factored)
		res.Evals++
		res.Transitions++
		res.Nontriv++
		switch {
		case fr != "":
			ss.add("C01/scenario/"+s.name+"/panic:"+fr, msg)
		case err != nil:
			ss.add("C01/scenario/"+s.name+"/load-error", err.Error())
		default:
			w, g := want, got
			if strings.HasPrefix(s.name, "submodule") {
				w, g = topInsensitive(w), topInsensitive(g)
			}
			onlyW, onlyG := model.DiffDumps(w, g)
			if len(onlyW)+len(onlyG) > 0 {
				ss.add("C01/scenario/"+s.name+"/"+c01DiffClass(onlyW, onlyG), fmt.Sprintf("inline only %v; factored only %v", trunc3(onlyW), trunc3(onlyG)))
			}
		}
	}
	// independence of copies: definitions at different paths are different objects
	ind := m(`grouping g { container c { leaf l { type string; } } } container a { uses g; } container b { uses g; }`)
	if mm, err, fr, _ := c11Load(ind.main, nil, nil); err == nil && fr == "" {
		_, a := c11ProbePath(mm, "a/c/l")
		_, b := c11ProbePath(mm, "b/c/l")
		if a == b {
			ss.add("C01/independence/shared-definition", "a/c/l and b/c/l are the same object")
		}
		_, ac := c11ProbePath(mm, "a/c")
		if a != nil && a.Parent() != meta.Meta(ac) {
			ss.add("C01/independence/parent-link", "a/c/l does not point to a/c")
		}
	}
	res.Evals++
	res.Outcomes = []string{"scenarios"}
}

func trunc3(s []string) []string {
	if len(s) > 3 {
		return s[:3]
	}
	return s
}
