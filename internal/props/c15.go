package props

import (
	"bufio"
	"bytes"
	"encoding/base64"
	"encoding/json"
	"errors"
	"fmt"
	"io"
	"math/big"
	"sort"
	"strconv"
	"strings"

	"github.com/freeconf/yang/meta"
	"github.com/freeconf/yang/node"
	"github.com/freeconf/yang/nodeutil"
	"github.com/freeconf/yang/val"
	"verif/internal/eng"
	"verif/internal/model"
	"verif/internal/store"
)

// C15 — the JSON writer always emits well-formed, correctly named and typed JSON.

type c15 struct{ base }

func init() {
	eng.Register(&c15{base{id: "C15", level: "model_checking",
		rule: "trees and per-type value alphabets of C04 x 8 writer configurations (Pretty x EnumAsIds x QualifyNamespace) x every start selection present in the tree (root, each container, list, list entry) x entry functions; output decoded by encoding/json (UseNumber, exactly one value then EOF) and compared member by member with the tree (names, qualification, container/list/leaf-list shapes, typed values); pretty and compact must decode equal; stream faults: an io.Writer failing at every byte position k of the output must make the API return an error. states = distinct (tree,start) pairs, transitions = writer executions. Non-trivial = distinct (tree, start, config) with non-empty content"}})
}

type c15Case struct {
	Part   string          `json:"part"`
	Schema string          `json:"schema"`
	Leaf   string          `json:"leaf,omitempty"`
	B      int             `json:"B,omitempty"`
	Tree   json.RawMessage `json:"tree,omitempty"`
	Start  string          `json:"start,omitempty"`
	Cfg    string          `json:"cfg,omitempty"`
	Func   string          `json:"func,omitempty"`
	K      int             `json:"k,omitempty"`
}

var c15Cfgs = []string{"compact", "pretty", "enumids", "qualified", "pretty+enumids", "pretty+qualified", "enumids+qualified", "pretty+enumids+qualified"}

func (p *c15) Bounds(tier string) map[string]interface{} {
	return map[string]interface{}{"tree_size_bound": c04B(tier), "configs": c15Cfgs, "schemas": []string{"types", "base", "keys", "choice"},
		"stream_faults": "every byte position of the output of each fault tree, with and without short writes", "entry_functions": []string{"WriteJSON", "WritePrettyJSON", "JSONWtr.JSON", "NewJSONWtr.Node+UpsertInto", "NewJSONWtr.Node+InsertInto", "Node+UpsertInto into the caller's bufio.Writer of 16/512/4096/65536 bytes, flushed by the caller"}}
}

func (p *c15) Cases(tier string, emit func(interface{})) {
	for _, lf := range typesLeaves() {
		emit(c15Case{Part: "values", Schema: "types", Leaf: lf})
	}
	for _, sc := range []string{"base", "keys", "choice", "multi"} {
		emit(c15Case{Part: "trees", Schema: sc, B: c04B(tier)})
	}
	emit(c15Case{Part: "lists", Schema: "base"})
	emit(c15Case{Part: "funcs", Schema: "base"})
	emit(c15Case{Part: "binarylist", Schema: "types"})
	emit(c15Case{Part: "anydata-selection", Schema: "types"})
	emit(c15Case{Part: "faults", Schema: "base"})
	emit(c15Case{Part: "faults", Schema: "types"})
	emit(c15Case{Part: "deep", Schema: "deep"})
}

// startsOf lists Find paths of every container, list and list entry present in t.
func startsOf(defs []meta.Definition, t *model.Tree, prefix string, out *[]string) {
	for _, d := range model.FlatDefs(defs) {
		id := d.Ident()
		p := id
		if prefix != "" {
			p = prefix + "/" + id
		}
		switch x := d.(type) {
		case *meta.List:
			l, ok := t.Lists[id]
			if !ok {
				continue
			}
			*out = append(*out, p)
			for _, e := range l.Entries {
				var ks []string
				for _, km := range x.KeyMeta() {
					ks = append(ks, keyText(e.Leaves[km.Ident()].Canon))
				}
				ep := p + "=" + strings.Join(ks, ",")
				*out = append(*out, ep)
				startsOf(x.DataDefinitions(), e, ep, out)
			}
		case meta.HasDataDefinitions:
			if c, ok := t.Conts[id]; ok {
				*out = append(*out, p)
				startsOf(x.DataDefinitions(), c, p, out)
			}
		}
	}
}

type jsonCmp struct {
	enumIds   bool
	qualified bool
	module    string
	rootStart bool
	modOf     func(ident string) string
}

// modAt: module of the node a Find-style path ends at ("" for the root).
func (jc jsonCmp) modAt(path string) string {
	if path == "" {
		return ""
	}
	segs := strings.Split(path, "/")
	last := segs[len(segs)-1]
	if i := strings.Index(last, "="); i >= 0 {
		last = last[:i]
	}
	return jc.mod(last)
}

func numEq(n json.Number, want string) bool {
	a, ok1 := new(big.Rat).SetString(n.String())
	b, ok2 := new(big.Rat).SetString(want)
	return ok1 && ok2 && a.Cmp(b) == 0
}

// cmpScalar compares one decoded JSON value with a stored scalar.
func (jc jsonCmp) cmpScalar(v val.Value, got interface{}) string {
	str := func(want string) string {
		s, ok := got.(string)
		if !ok {
			return fmt.Sprintf("not-a-string:%T", got)
		}
		if s != want {
			return "different-text"
		}
		return ""
	}
	num := func(want string, allowString bool) string {
		switch g := got.(type) {
		case json.Number:
			if !numEq(g, want) {
				return "different-number"
			}
			return ""
		case string:
			if allowString {
				if g != want {
					return "different-number"
				}
				return ""
			}
		}
		return fmt.Sprintf("not-a-number:%T", got)
	}
	switch x := v.(type) {
	case val.String:
		return str(string(x))
	case val.Bool:
		b, ok := got.(bool)
		if !ok {
			return fmt.Sprintf("not-a-boolean:%T", got)
		}
		if b != bool(x) {
			return "different-truth-value"
		}
		return ""
	case val.Enum:
		if jc.enumIds {
			return num(fmt.Sprint(x.Id), false)
		}
		return str(x.Label)
	case val.IdentRef:
		s, ok := got.(string)
		if !ok {
			return fmt.Sprintf("not-a-string:%T", got)
		}
		if s != x.Label && s != jc.module+":"+x.Label {
			return "different-text"
		}
		return ""
	case val.Bits:
		return str(strings.Join(x.Labels, " "))
	case val.Binary:
		return str(string(x))
	case val.Decimal64:
		return num(model.CanonVal(x), true)
	case val.Int64, val.UInt64:
		return num(model.CanonVal(v), true)
	case val.NotEmptyType:
		a, ok := got.([]interface{})
		if !ok || len(a) != 1 || a[0] != nil {
			return "empty-not-[null]"
		}
		return ""
	case val.Any:
		// the decoded JSON (json.Number leaves) against the content, both in canonical JSON
		if model.CanonAny(got) != model.CanonAny(x.Thing) {
			return "different-anydata-content"
		}
		return ""
	}
	if v.Format().IsNumeric() {
		return num(model.CanonVal(v), false)
	}
	return "unsupported-by-harness:" + v.Format().String()
}

func (jc jsonCmp) cmpLeaf(v val.Value, got interface{}) string {
	if v.Format().IsList() {
		l, ok := v.(val.Listable)
		if !ok {
			return "unsupported-by-harness"
		}
		arr, ok := got.([]interface{})
		if !ok {
			return fmt.Sprintf("leaf-list-not-an-array:%T", got)
		}
		if len(arr) != l.Len() {
			return "leaf-list-length"
		}
		for i := 0; i < l.Len(); i++ {
			if s := jc.cmpScalar(l.Item(i), arr[i]); s != "" {
				return "element/" + s
			}
		}
		return ""
	}
	return jc.cmpScalar(v, got)
}

// mod is the harness' own answer to "which module defines this node".
func (jc jsonCmp) mod(ident string) string {
	if jc.modOf != nil {
		return jc.modOf(ident)
	}
	return jc.module
}

// member finds the member for ident, honouring the qualification rule (RFC 7951 section 4:
// qualified at the top level and wherever the module differs from the parent's).
// top says this object is the top level of the schema (module children); parentMod is the
// module of the node the object stands for.
func (jc jsonCmp) member(obj map[string]interface{}, ident string, top bool, parentMod string, used map[string]bool) (interface{}, bool, string) {
	thisMod := jc.mod(ident)
	want := jc.qualified && (top || (parentMod != "" && thisMod != parentMod))
	var vq, vp interface{}
	okq, okp, qmod := false, false, ""
	for k, v := range obj {
		if k == ident {
			vp, okp = v, true
		} else if strings.HasSuffix(k, ":"+ident) {
			if okq {
				return nil, false, "member-twice"
			}
			vq, okq, qmod = v, true, strings.TrimSuffix(k, ":"+ident)
		}
	}
	switch {
	case okq && okp:
		return nil, false, "member-twice"
	case !okq && !okp:
		return nil, false, ""
	}
	if okq {
		used[qmod+":"+ident] = true
		switch {
		case !jc.qualified:
			return vq, true, "qualified-although-off"
		case qmod != thisMod:
			return vq, true, "qualified-with-wrong-module"
		case !want && jc.rootStart:
			return vq, true, "qualified-below-top-level"
		}
		return vq, true, ""
	}
	used[ident] = true
	if want && top {
		return vp, true, "unqualified-top-level"
	}
	if want {
		return vp, true, "unqualified-at-module-change"
	}
	return vp, true, ""
}

// cmpObject compares a decoded JSON object with the content of t.
func (jc jsonCmp) cmpObject(defs []meta.Definition, t *model.Tree, obj map[string]interface{}, top bool, parentMod string, path string) (string, string) {
	used := map[string]bool{}
	for _, d := range model.FlatDefs(defs) {
		id := d.Ident()
		p := path + "/" + id
		got, present, nameSym := jc.member(obj, id, top, parentMod, used)
		if nameSym != "" {
			return "name/" + nameSym, p
		}
		switch x := d.(type) {
		case *meta.List:
			l, ok := t.Lists[id]
			if !ok || len(l.Entries) == 0 {
				if present {
					if arr, isArr := got.([]interface{}); isArr && len(arr) == 0 && ok {
						continue
					}
					return "list-extra", p
				}
				continue
			}
			if !present {
				return "list-missing", p
			}
			arr, isArr := got.([]interface{})
			if !isArr {
				return fmt.Sprintf("list-not-an-array:%T", got), p
			}
			if len(arr) != len(l.Entries) {
				return "list-length", fmt.Sprintf("%s: %d entries written, %d stored", p, len(arr), len(l.Entries))
			}
			for i, e := range l.Entries {
				eo, isObj := arr[i].(map[string]interface{})
				if !isObj {
					return fmt.Sprintf("entry-not-an-object:%T", arr[i]), p
				}
				if s, w := jc.cmpObject(x.DataDefinitions(), e, eo, false, jc.mod(id), fmt.Sprintf("%s[%d]", p, i)); s != "" {
					return "entry/" + s, w
				}
			}
		case meta.HasDataDefinitions:
			c, ok := t.Conts[id]
			if !ok {
				if present {
					return "container-extra", p
				}
				continue
			}
			if !present {
				return "container-missing", p
			}
			co, isObj := got.(map[string]interface{})
			if !isObj {
				return fmt.Sprintf("container-not-an-object:%T", got), p
			}
			if s, w := jc.cmpObject(x.DataDefinitions(), c, co, false, jc.mod(id), p); s != "" {
				return "container/" + s, w
			}
		case meta.Leafable:
			lf, ok := t.Leaves[id]
			if !ok {
				if present {
					if x.HasDefault() {
						if dv := model.DefaultVal(x); dv != nil && jc.cmpLeaf(dv, got) == "" {
							continue
						}
					}
					return "leaf-extra", p
				}
				continue
			}
			if !present {
				return "leaf-missing", p
			}
			if s := jc.cmpLeaf(lf.V, got); s != "" {
				return "leaf:" + x.Type().Format().String() + "/" + s, fmt.Sprintf("%s: stored %s, written %v", p, lf.Canon, got)
			}
		}
	}
	var extra []string
	for k := range obj {
		if !used[k] {
			extra = append(extra, k)
		}
	}
	if len(extra) > 0 {
		sort.Strings(extra)
		return "unknown-member", path + ": " + strings.Join(extra, ",")
	}
	return "", ""
}

// decodeOne decodes text as exactly one JSON value followed by EOF.
func decodeOne(text string) (interface{}, string) {
	d := json.NewDecoder(strings.NewReader(text))
	d.UseNumber()
	var v interface{}
	if err := d.Decode(&v); err != nil {
		return nil, "malformed"
	}
	var more interface{}
	if err := d.Decode(&more); err != io.EOF {
		return nil, "trailing-content"
	}
	return v, ""
}

func c15Write(sel *node.Selection, cfg string, fn string) (text string, err error) {
	w := jsonWtr(cfg)
	switch fn {
	case "", "JSONWtr.JSON":
		return w.JSON(sel)
	case "WriteJSON":
		return nodeutil.WriteJSON(sel)
	case "WritePrettyJSON":
		return nodeutil.WritePrettyJSON(sel)
	case "Node+UpsertInto/bufio16", "Node+UpsertInto/bufio512", "Node+UpsertInto/bufio4096", "Node+UpsertInto/bufio65536":
		// the caller hands a buffered writer of its own and flushes it afterwards
		var buf bytes.Buffer
		size, _ := strconv.Atoi(fn[len("Node+UpsertInto/bufio"):])
		bw := bufio.NewWriterSize(&buf, size)
		w.Out = bw
		if err = sel.UpsertInto(w.Node()); err == nil {
			err = bw.Flush()
		}
		return buf.String(), err
	case "Node+UpsertInto/second-document":
		// one writer object writes two documents, the second one is looked at
		var first, second bytes.Buffer
		w.Out = &first
		if err = sel.UpsertInto(w.Node()); err != nil {
			return "", err
		}
		w.Out = &second
		err = sel.UpsertInto(w.Node())
		return second.String(), err
	case "Node+UpsertInto", "Node+InsertInto":
		var buf bytes.Buffer
		w.Out = &buf
		if fn == "Node+UpsertInto" {
			err = sel.UpsertInto(w.Node())
		} else {
			err = sel.InsertInto(w.Node())
		}
		return buf.String(), err
	}
	panic(fn)
}

// c15CheckStart writes the selection at start under cfg and compares.
func c15CheckStart(m *meta.Module, env *dataEnv, t *model.Tree, start, cfg, fn string) (sig, what, text string) {
	ep := entryPoint{start}
	kind := ep.kind(m)
	site := fmt.Sprintf("C15/%s", kind)
	var err error
	var sel *node.Selection
	fr, msg, pan := eng.Recover(func() {
		sel = env.b.Root()
		if start != "" {
			sel, err = sel.Find(start)
		}
		if err == nil && sel != nil {
			text, err = c15Write(sel, cfg, fn)
		}
	})
	if pan {
		return site + "/panic:" + fr, msg, ""
	}
	if sel == nil && err == nil {
		return "", "", ""
	}
	if err != nil {
		return site + "/error", err.Error(), ""
	}
	v, sym := decodeOne(text)
	if sym != "" {
		return site + "/" + sym, text, text
	}
	obj, ok := v.(map[string]interface{})
	if !ok {
		return site + "/top-level-not-an-object", text, text
	}
	jc := jsonCmp{enumIds: strings.Contains(cfg, "enumids") && fn != "WriteJSON" && fn != "WritePrettyJSON",
		qualified: strings.Contains(cfg, "qualified") && fn != "WriteJSON" && fn != "WritePrettyJSON", module: m.Ident(), rootStart: start == "", modOf: model.ModuleOf[m.Ident()]}
	var tt *model.Tree
	var tl *model.List
	if kind != "leaf" {
		tt, tl = ep.locate(m, t)
	}
	var s, w string
	switch kind {
	case "leaf":
		parent, _ := splitLast(start)
		pt, _ := entryPoint{parent}.locate(m, t)
		only := model.NewTree()
		ld := ep.def(m)
		if lf, ok := pt.Leaves[ld.Ident()]; ok {
			only.Leaves[ld.Ident()] = lf
		}
		s, w = jc.cmpObject([]meta.Definition{ld}, only, obj, false, jc.modAt(parent), start)
	case "list":
		lm := ep.def(m).(*meta.List)
		wrap := model.NewTree()
		wrap.Lists[lm.Ident()] = tl
		lparent, _ := splitLast(start)
		s, w = jc.cmpObject([]meta.Definition{lm}, wrap, obj, strings.Count(start, "/") == 0, jc.modAt(lparent), start)
	default:
		s, w = jc.cmpObject(ep.defs(m), tt, obj, start == "", jc.modAt(start), start)
	}
	if s != "" {
		return site + "/" + s, w + " text=" + text, text
	}
	return "", "", text
}

func c15Tree(c c15Case, m *meta.Module, t *model.Tree, what string, res *eng.Result, ss *sigSet, starts []string, cfgs []string, fn string) {
	env := newEnv(c.Schema, "ref")
	if err := env.populate(t); err != nil {
		panic(err)
	}
	for _, start := range starts {
		res.States++
		texts := map[string]string{}
		for _, cfg := range cfgs {
			res.Evals++
			res.Transitions++
			sig, w, text := c15CheckStart(m, env, t, start, cfg, fn)
			texts[cfg] = text
			if !t.Empty() {
				res.Nontriv++
			}
			if sig != "" {
				if cfg != "compact" && fn == "" {
					// configuration-specific only if compact is fine
					if s0, _, _ := c15CheckStart(m, env, t, start, "compact", fn); s0 == sig {
						continue
					}
					sig += "/cfg:" + cfg
				}
				if fn != "" {
					sig += "/fn:" + fn
				}
				c15Report(c, m, t, start, cfg, fn, sig, what+" start="+start+" cfg="+cfg+": "+w, res, ss)
			}
		}
		// pretty printing changes whitespace only
		for _, pair := range [][2]string{{"compact", "pretty"}, {"enumids", "pretty+enumids"}, {"qualified", "pretty+qualified"}} {
			a, b := texts[pair[0]], texts[pair[1]]
			if a == "" || b == "" {
				continue
			}
			va, sa := decodeOne(a)
			vb, sb := decodeOne(b)
			if sa != "" || sb != "" {
				continue
			}
			ja, _ := json.Marshal(va)
			jb, _ := json.Marshal(vb)
			if !bytes.Equal(ja, jb) {
				c15Report(c, m, t, start, pair[1], fn, "C15/"+entryPoint{start}.kind(m)+"/pretty-differs-from-compact", what+": "+a+" vs "+b, res, ss)
			}
		}
	}
}

func c15Report(c c15Case, m *meta.Module, t *model.Tree, start, cfg, fn, sig, what string, res *eng.Result, ss *sigSet) {
	if ss.seen == nil {
		ss.seen = map[string]bool{}
	}
	if ss.seen[sig] {
		return
	}
	ss.seen[sig] = true
	rc := c
	rc.Part, rc.Start, rc.Cfg, rc.Func = "one", start, cfg, fn
	tj, _ := json.Marshal(t.ToJSONObj(m.DataDefinitions()))
	rc.Tree = tj
	res.AddCase(sig, what, rc)
}

type failWriter struct {
	n     int // bytes accepted before failing
	short bool
	wrote int
}

var errStream = errors.New("verif: injected stream failure")

func (f *failWriter) Write(p []byte) (int, error) {
	if f.wrote+len(p) <= f.n {
		f.wrote += len(p)
		return len(p), nil
	}
	ok := f.n - f.wrote
	f.wrote = f.n
	if f.short {
		return ok, io.ErrShortWrite
	}
	return ok, errStream
}

func (p *c15) Run(raw json.RawMessage) eng.Result {
	var c c15Case
	decode(raw, &c)
	var res eng.Result
	ss := &sigSet{res: &res}
	if c.Part == "deep" {
		return c15Deep(c)
	}
	m := model.SharedSchema(c.Schema)
	switch c.Part {
	case "one":
		t, err := model.FromJSON(m.DataDefinitions(), c.Tree)
		if err != nil {
			panic(err)
		}
		if c.K > 0 || c.Func == "fault" {
			c15Fault(c, m, t, c.K, &res, ss)
		} else {
			c15Tree(c, m, t, "replay", &res, ss, []string{c.Start}, []string{c.Cfg}, c.Func)
		}
	case "values":
		lf := model.DefAt(m, "v").(meta.HasDataDefinitions).Definition(c.Leaf).(meta.Leafable)
		for _, v := range model.FullVals(lf) {
			t := typesBaseline(m)
			t.Conts["v"].Leaves[c.Leaf] = model.L(v)
			c15Tree(c, m, t, fmt.Sprintf("%s=%s", c.Leaf, model.CanonVal(v)), &res, ss, []string{"", "v", "v/" + c.Leaf, "ent=a/x"}, c15Cfgs, "")
		}
		res.Outcomes = []string{"values:" + c.Leaf}
	case "trees":
		a := model.DefaultAlpha()
		a.AllOrders = true
		a.EmptyLists = true
		for _, t := range model.GenTrees(m.DataDefinitions(), c.B, a) {
			starts := []string{""}
			startsOf(m.DataDefinitions(), t, "", &starts)
			c15Tree(c, m, t, "tree "+t.String(), &res, ss, starts, c15Cfgs, "")
		}
		res.Outcomes = []string{"trees:" + c.Schema}
	case "lists":
		for _, t := range longListTrees(m) {
			starts := []string{""}
			startsOf(m.DataDefinitions(), t, "", &starts)
			c15Tree(c, m, t, "tree "+t.String(), &res, ss, starts, c15Cfgs, "")
		}
		res.Outcomes = []string{"lists"}
	case "funcs":
		t, _ := model.FromJSON(m.DataDefinitions(), []byte(c18Inits["two"]))
		starts := []string{""}
		startsOf(m.DataDefinitions(), t, "", &starts)
		for _, fn := range []string{"WriteJSON", "WritePrettyJSON", "JSONWtr.JSON", "Node+UpsertInto", "Node+InsertInto", "Node+UpsertInto/bufio16", "Node+UpsertInto/bufio512", "Node+UpsertInto/bufio4096", "Node+UpsertInto/bufio65536", "Node+UpsertInto/second-document"} {
			c15Tree(c, m, t, "tree two", &res, ss, starts, []string{"compact", "pretty+enumids+qualified"}, fn)
		}
		res.Outcomes = []string{"funcs"}
	case "anydata-selection":
		c15AnySelection(&res, ss)
		res.Outcomes = []string{"anydata-selection"}
	case "binarylist":
		// the library's own list type for binary values, as a node may hand it to the writer
		for _, bl := range []val.BinaryList{{{1, 2, 3}}, {{255}, {}, {0, 16, 32, 48}}, {}} {
			var want []string
			for _, b := range bl {
				want = append(want, base64.StdEncoding.EncodeToString(b))
			}
			n := &nodeutil.Basic{OnField: func(node.FieldRequest, *node.ValueHandle) error { return nil }}
			n.OnChild = func(r node.ChildRequest) (node.Node, error) {
				if r.Meta.Ident() == "v" {
					return &nodeutil.Basic{OnField: func(fr node.FieldRequest, hnd *node.ValueHandle) error {
						if fr.Meta.Ident() == "lbin" {
							hnd.Val = bl
						}
						return nil
					}}, nil
				}
				return nil, nil
			}
			for _, cfg := range []string{"compact", "pretty"} {
				var text string
				var err error
				fr, msg, pan := eng.Recover(func() { text, err = jsonWtr(cfg).JSON(node.NewBrowser(m, n).Root()) })
				res.Evals++
				res.Nontriv++
				site := "C15/leaf:binary-list-value-type"
				if pan {
					ss.add(site+"/panic:"+fr, msg)
					continue
				}
				if err != nil {
					if !strings.Contains(err.Error(), "binary") {
						ss.add("C15/harness/binarylist", err.Error())
					}
					continue // refusing the value is fine, malformed output is not
				}
				v, sym := decodeOne(text)
				if sym != "" {
					ss.add(site+"/"+sym, text)
					continue
				}
				var got []string
				if obj, ok := v.(map[string]interface{}); ok {
					if vv, ok := obj["v"].(map[string]interface{}); ok {
						if arr, ok := vv["lbin"].([]interface{}); ok {
							for _, x := range arr {
								got = append(got, fmt.Sprint(x))
							}
						}
					}
				}
				if strings.Join(got, ",") != strings.Join(want, ",") {
					ss.add(site+"/different-content", fmt.Sprintf("wrote %s for %v", text, want))
				}
			}
		}
		res.Outcomes = []string{"binarylist"}
	case "faults":
		var docs []string
		if c.Schema == "base" {
			docs = []string{`{}`, `{"top":"a"}`, `{"c":{}}`, `{"c":{"a":"a","d":{"x":"b"}}}`, `{"l":[{"k":"a"}]}`, c18Inits["two"], c18Inits["three"]}
		} else {
			docs = []string{`{"v":{"s":"a\"b","i64":5,"e":"one","ls":["a","b"],"emp":[null]},"ent":[{"k":"a","x":1}],"last":"z"}`}
		}
		for _, d := range docs {
			t, err := model.FromJSON(m.DataDefinitions(), []byte(d))
			if err != nil {
				panic(err)
			}
			c15Fault(c, m, t, -1, &res, ss)
		}
		res.Outcomes = []string{"faults:" + c.Schema}
	}
	if res.Evals == 0 {
		res.Evals = 1
	}
	return res
}

// c15Fault makes the output stream fail at byte k (every k when k < 0).
func c15Fault(c c15Case, m *meta.Module, t *model.Tree, only int, res *eng.Result, ss *sigSet) {
	env := newEnv(c.Schema, "ref")
	if err := env.populate(t); err != nil {
		panic(err)
	}
	for _, cfg := range []string{"compact", "pretty"} {
		full, err := c15Write(env.b.Root(), cfg, "")
		if err != nil {
			continue
		}
		for k := 0; k < len(full); k++ {
			if only >= 0 && k != only {
				continue
			}
			variant := 0
			for _, short := range []bool{false, true, false, false} {
				fw := &failWriter{n: k, short: short}
				w := jsonWtr(cfg)
				w.Out = fw
				var werr error
				var bw *bufio.Writer
				fr, msg, pan := eng.Recover(func() {
					if bufSize := []int{0, 0, 16, 4096}[variant]; bufSize > 0 {
						// the failing stream sits behind the caller's own buffered writer
						bw = bufio.NewWriterSize(fw, bufSize)
						w.Out = bw
					}
					werr = env.b.Root().UpsertInto(w.Node())
					if werr == nil && bw != nil {
						werr = bw.Flush()
					}
				})
				variant++
				res.Evals++
				res.Transitions++
				res.Nontriv++
				sig := ""
				switch {
				case pan:
					sig = "C15/stream-fault/panic:" + fr
				case werr == nil:
					sig = "C15/stream-fault/error-lost"
					msg = fmt.Sprintf("stream failed after %d of %d bytes (short=%v) but the call returned nil", k, len(full), short)
				}
				if sig != "" && (ss.seen == nil || !ss.seen[sig]) {
					if ss.seen == nil {
						ss.seen = map[string]bool{}
					}
					ss.seen[sig] = true
					rc := c
					rc.Part, rc.Cfg, rc.Func, rc.K = "one", cfg, "fault", k
					tj, _ := json.Marshal(t.ToJSONObj(m.DataDefinitions()))
					rc.Tree = tj
					res.AddCase(sig, msg, rc)
				}
			}
		}
	}
}

// c15Deep: nesting depth sweep around the pretty printer's padding limit.
func c15Deep(c c15Case) eng.Result {
	var res eng.Result
	ss := &sigSet{res: &res}
	for depth := 1; depth <= 70; depth++ {
		var sb strings.Builder
		sb.WriteString(`module deep { namespace "urn:deep"; prefix d; revision 0; `)
		for i := 0; i < depth; i++ {
			fmt.Fprintf(&sb, "container c%d { ", i)
		}
		sb.WriteString("leaf x { type string; } ")
		sb.WriteString(strings.Repeat("} ", depth))
		sb.WriteString("}")
		m := model.LoadText(sb.String())
		doc := ""
		for i := 0; i < depth; i++ {
			doc += fmt.Sprintf(`{"c%d":`, i)
		}
		doc += `{"x":"a"}` + strings.Repeat("}", depth)
		t, err := model.FromJSON(m.DataDefinitions(), []byte(doc))
		if err != nil {
			panic(err)
		}
		st := store.NewRef(t)
		b := node.NewBrowser(m, st.Node())
		for _, cfg := range []string{"compact", "pretty"} {
			var text string
			var werr error
			fr, msg, pan := eng.Recover(func() { text, werr = c15Write(b.Root(), cfg, "") })
			res.Evals++
			res.Transitions++
			res.States++
			res.Nontriv++
			sig := ""
			switch {
			case pan:
				sig, msg = "C15/deep-nesting/"+cfg+"/panic:"+fr, fmt.Sprintf("depth %d: %s", depth, msg)
			case werr != nil:
				continue // an error is an allowed answer to excessive nesting
			default:
				if _, sym := decodeOne(text); sym != "" {
					sig, msg = "C15/deep-nesting/"+cfg+"/"+sym, fmt.Sprintf("depth %d", depth)
				}
			}
			if sig != "" {
				ss.add(sig, msg)
			}
		}
	}
	return res
}

// c15AnySelection: the value of an anydata is a selection into another tree (val.Any{Thing: node.Selection}):
// the nested document is written under the same configuration as the one around it.
func c15AnySelection(res *eng.Result, ss *sigSet) {
	inner := model.LoadText(`module inner { namespace "urn:i"; prefix i; revision 0; leaf e { type enumeration { enum zero; enum one { value 7; } } } container c { leaf x { type string; } leaf-list es { type enumeration { enum p; enum q { value 4; } } } } }`)
	outer := model.LoadText(`module outer { yang-version 1.1; namespace "urn:o"; prefix o; revision 0; anydata a; leaf after { type string; } }`)
	in, err := nodeutil.ReadJSON(`{"e":"one","c":{"x":"y","es":["q","p"]}}`)
	if err != nil {
		panic(err)
	}
	isel := node.NewBrowser(inner, in).Root()
	root := &nodeutil.Basic{OnField: func(r node.FieldRequest, hnd *node.ValueHandle) error {
		if r.Meta.Ident() == "a" {
			hnd.Val = val.Any{Thing: *isel}
		} else {
			hnd.Val = val.String("z")
		}
		return nil
	}}
	for bits := 0; bits < 8; bits++ {
		pretty, ids, qual := bits&1 != 0, bits&2 != 0, bits&4 != 0
		var buf bytes.Buffer
		w := &nodeutil.JSONWtr{Out: &buf, Pretty: pretty, EnumAsIds: ids, QualifyNamespace: qual}
		var werr error
		fr, msg, pan := eng.Recover(func() { werr = node.NewBrowser(outer, root).Root().UpsertInto(w.Node()) })
		res.Evals++
		res.Nontriv++
		site := fmt.Sprintf("C15/anydata-selection/pretty=%v,enumids=%v,qualified=%v", pretty, ids, qual)
		if pan {
			ss.add(site+"/panic:"+fr, msg)
			continue
		}
		if werr != nil {
			ss.add(site+"/error", werr.Error())
			continue
		}
		var doc map[string]interface{}
		dec := json.NewDecoder(bytes.NewReader(buf.Bytes()))
		dec.UseNumber()
		if err := dec.Decode(&doc); err != nil {
			ss.add(site+"/not-json", buf.String())
			continue
		}
		name := func(mod, id string) string {
			if qual {
				return mod + ":" + id
			}
			return id
		}
		wantE, wantEs := interface{}("one"), []interface{}{"q", "p"}
		if ids {
			wantE, wantEs = json.Number("7"), []interface{}{json.Number("4"), json.Number("0")}
		}
		want := map[string]interface{}{name("outer", "a"): map[string]interface{}{name("inner", "e"): wantE, name("inner", "c"): map[string]interface{}{"x": "y", "es": wantEs}}, name("outer", "after"): "z"}
		if model.CanonAny(doc) != model.CanonAny(want) {
			ss.add(site+"/nested-document-differs", fmt.Sprintf("wrote %s", buf.String()))
		}
	}
}
