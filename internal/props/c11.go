package props

import (
	"encoding/json"
	"fmt"
	"io"
	"strings"
	"sync"

	"github.com/freeconf/yang/meta"
	"github.com/freeconf/yang/parser"
	"verif/internal/eng"
	"verif/internal/model"
)

// C11 — if-feature and deviations shape the schema exactly as written.

type c11 struct{ base }

func init() {
	eng.Register(&c11{base{id: "C11", level: "exploration",
		rule: "(a) every token string up to length L over {a,b,c,and,or,not,(,)} is classified by a reference RFC 7950 7.20.2 parser; valid ones are evaluated by a reference evaluator under all 8 feature assignments and compared with the presence of a guarded leaf after a real load (L<=4: full loads; longer: IfFeature.Evaluate on the compiled expression), malformed ones must be load errors; white-space variants; 10 guardable statement kinds x all valid expressions of <= 3 tokens x 8 assignments x allow-list/deny-list configurations; prefixed names and feature-on-feature dependencies. (b) every deviation kind x property x target kind: the canonical dump of the deviated module must differ from the undeviated one in exactly the named property / node. Non-trivial = distinct (expression, assignment, placement) or (deviation) cell"}})
}

type c11Case struct {
	Part  string `json:"part"`
	Len   int    `json:"len,omitempty"`
	From  int    `json:"from,omitempty"`
	To    int    `json:"to,omitempty"`
	Place string `json:"place,omitempty"`
	Idx   int    `json:"idx,omitempty"`
}

var c11Tokens = []string{"a", "b", "c", "and", "or", "not", "(", ")"}

func c11L(tier string) int {
	if tier == "thorough" {
		return 7
	}
	return 5
}

// c11LValid: every VALID expression (generated from the RFC grammar) up to this many tokens.
func c11LValid(tier string) int {
	if tier == "thorough" {
		return 11
	}
	return 9
}

var c11ValidMemo = map[string][][]string{}
var c11ValidMu sync.Mutex

// c11Gen lists every token string of exactly n tokens derivable from the
// non-terminal nt ("E", "T", "F") of RFC 7950 7.20.2 over the names a,b,c.
func c11Gen(nt string, n int) [][]string {
	if n <= 0 {
		return nil
	}
	key := fmt.Sprint(nt, n)
	if v, ok := c11ValidMemo[key]; ok {
		return v
	}
	var out [][]string
	cat := func(parts ...[]string) []string {
		var r []string
		for _, p := range parts {
			r = append(r, p...)
		}
		return r
	}
	switch nt {
	case "F":
		if n == 1 {
			out = append(out, []string{"a"}, []string{"b"}, []string{"c"})
		}
		for _, f := range c11Gen("F", n-1) {
			out = append(out, cat([]string{"not"}, f))
		}
		for _, e := range c11Gen("E", n-2) {
			out = append(out, cat([]string{"("}, e, []string{")"}))
		}
	case "T":
		out = append(out, c11Gen("F", n)...)
		for k := 1; k < n-1; k++ {
			for _, f := range c11Gen("F", k) {
				for _, t := range c11Gen("T", n-1-k) {
					out = append(out, cat(f, []string{"and"}, t))
				}
			}
		}
	case "E":
		out = append(out, c11Gen("T", n)...)
		for k := 1; k < n-1; k++ {
			for _, t := range c11Gen("T", k) {
				for _, e := range c11Gen("E", n-1-k) {
					out = append(out, cat(t, []string{"or"}, e))
				}
			}
		}
	}
	c11ValidMemo[key] = out
	return out
}

func c11ValidExprs(n int) [][]string {
	c11ValidMu.Lock()
	defer c11ValidMu.Unlock()
	return c11Gen("E", n)
}

func (p *c11) Bounds(tier string) map[string]interface{} {
	return map[string]interface{}{"expression_length": c11L(tier), "valid_expression_length": c11LValid(tier), "full_load_length": 4, "alphabet": c11Tokens, "assignments": 8, "placements": c11Places, "deviations": len(c11Deviations())}
}

var c11Places = []string{"leaf", "container", "list", "leaf-list", "choice", "case", "uses", "augment", "uses-augment", "refine", "two-if-features", "anydata", "rpc", "notification",
	"case-in-augment", "leaf-in-augment-of-choice", "case-in-uses-augment", "case-in-grouping", "leaf-in-grouping", "action", "action-in-grouping", "notification-in-grouping", "leaf-in-submodule", "augment-in-submodule", "features-in-submodule", "both-in-submodule", "uses-in-augment", "uses-in-case", "choice-in-case", "action-in-augment", "notification-in-augment", "action-in-uses-augment", "notification-in-uses-augment", "action-in-submodule", "leaf-in-rpc-input", "leaf-in-notification", "leaf-in-action-output", "first-of-three-in-uses-augment", "first-of-three-in-augment", "first-of-three-in-grouping", "first-of-three-in-case", "refine-with-the-guard-of-its-target", "augment-of-guarded-target", "augment-below-guarded-target", "augment-of-guarded-choice", "augment-of-guarded-case", "augment-of-guarded-rpc-input", "augment-of-guarded-notification", "uses-augment-of-guarded-target", "deviation-of-guarded-target", "not-supported-of-node-below-guarded-target", "refine-of-guarded-node", "refine-below-guarded-node", "refine-of-guarded-node-of-inner-uses", "refine-of-guarded-case", "refine-container", "refine-case", "refine-leaf-in-case", "refine-one-of-two-uses", "leaf-in-case-found-by-name", "leaf-in-nested-case-found-by-name", "container-in-case-found-by-name"}

func (p *c11) Cases(tier string, emit func(interface{})) {
	L := c11L(tier)
	for l := 1; l <= L; l++ {
		n := 1
		for i := 0; i < l; i++ {
			n *= 8
		}
		batch := 4096
		for from := 0; from < n; from += batch {
			to := from + batch
			if to > n {
				to = n
			}
			emit(c11Case{Part: "expr", Len: l, From: from, To: to})
		}
	}
	// valid expressions beyond L, generated from the grammar itself
	for l := L + 1; l <= c11LValid(tier); l++ {
		n := len(c11ValidExprs(l))
		for from := 0; from < n; from += 2048 {
			to := from + 2048
			if to > n {
				to = n
			}
			emit(c11Case{Part: "valid", Len: l, From: from, To: to})
		}
	}
	emit(c11Case{Part: "space"})
	for _, pl := range c11Places {
		emit(c11Case{Part: "place", Place: pl})
	}
	emit(c11Case{Part: "names"})
	emit(c11Case{Part: "two-modules"})
	emit(c11Case{Part: "feature-graph"})
	emit(c11Case{Part: "deviation-copies"})
	for i := range c11Deviations() {
		emit(c11Case{Part: "deviation", Idx: i})
	}
}

// ---------------------------------------------------------------- reference grammar and evaluator

type c11Node struct {
	op   string // "id", "not", "and", "or"
	id   string
	l, r *c11Node
}

type c11Parser struct {
	toks []string
	pos  int
}

func (p *c11Parser) peek() string {
	if p.pos < len(p.toks) {
		return p.toks[p.pos]
	}
	return ""
}

// expr = term ["or" expr]
func (p *c11Parser) expr() *c11Node {
	t := p.term()
	if t == nil {
		return nil
	}
	if p.peek() == "or" {
		p.pos++
		r := p.expr()
		if r == nil {
			return nil
		}
		return &c11Node{op: "or", l: t, r: r}
	}
	return t
}

// term = factor ["and" term]
func (p *c11Parser) term() *c11Node {
	f := p.factor()
	if f == nil {
		return nil
	}
	if p.peek() == "and" {
		p.pos++
		r := p.term()
		if r == nil {
			return nil
		}
		return &c11Node{op: "and", l: f, r: r}
	}
	return f
}

// factor = "not" factor | "(" expr ")" | identifier
func (p *c11Parser) factor() *c11Node {
	switch t := p.peek(); t {
	case "not":
		p.pos++
		f := p.factor()
		if f == nil {
			return nil
		}
		return &c11Node{op: "not", l: f}
	case "(":
		p.pos++
		e := p.expr()
		if e == nil || p.peek() != ")" {
			return nil
		}
		p.pos++
		return e
	case "", ")", "and", "or":
		return nil
	default:
		p.pos++
		return &c11Node{op: "id", id: t}
	}
}

func c11Parse(toks []string) *c11Node {
	p := &c11Parser{toks: toks}
	e := p.expr()
	if e == nil || p.pos != len(toks) {
		return nil
	}
	return e
}

func (n *c11Node) eval(on map[string]bool) bool {
	switch n.op {
	case "id":
		return on[n.id]
	case "not":
		return !n.l.eval(on)
	case "and":
		return n.l.eval(on) && n.r.eval(on)
	}
	return n.l.eval(on) || n.r.eval(on)
}

func (n *c11Node) shape() string {
	switch n.op {
	case "id":
		return "x"
	case "not":
		return "not(" + n.l.shape() + ")"
	}
	return n.op + "(" + n.l.shape() + "," + n.r.shape() + ")"
}

func c11Word(l, idx int) []string {
	out := make([]string, l)
	for i := l - 1; i >= 0; i-- {
		out[i] = c11Tokens[idx%8]
		idx /= 8
	}
	return out
}

func c11Malformation(toks []string) string {
	open := 0
	for _, t := range toks {
		if t == "(" {
			open++
		}
		if t == ")" {
			open--
			if open < 0 {
				return "unbalanced-close"
			}
		}
	}
	if open > 0 {
		return "unbalanced-open"
	}
	last := toks[len(toks)-1]
	if last == "and" || last == "or" || last == "not" {
		return "trailing-operator"
	}
	if toks[0] == "and" || toks[0] == "or" {
		return "leading-operator"
	}
	for i := 0; i+1 < len(toks); i++ {
		a, b := toks[i], toks[i+1]
		ida := a == "a" || a == "b" || a == "c" || a == ")"
		idb := b == "a" || b == "b" || b == "c" || b == "(" || b == "not"
		if ida && idb {
			return "missing-operator"
		}
	}
	return "missing-operand"
}

func joinExpr(toks []string) string {
	// single spaces between tokens, none around parentheses is also legal but the canonical form uses spaces
	return strings.Join(toks, " ")
}

func c11Assignments() []map[string]bool {
	var out []map[string]bool
	for bits := 0; bits < 8; bits++ {
		out = append(out, map[string]bool{"a": bits&1 != 0, "b": bits&2 != 0, "c": bits&4 != 0})
	}
	return out
}

func onList(on map[string]bool) []string {
	var l []string
	for _, f := range []string{"a", "b", "c"} {
		if on[f] {
			l = append(l, f)
		}
	}
	return l
}

func offList(on map[string]bool) []string {
	var l []string
	for _, f := range []string{"a", "b", "c"} {
		if !on[f] {
			l = append(l, f)
		}
	}
	return l
}

func c11Load(text string, fs meta.FeatureSet, mods map[string]string) (m *meta.Module, err error, fr, msg string) {
	var op func(string, string) (io.Reader, error)
	if mods != nil {
		op = memOpener(mods)
	}
	fr, msg, pan := eng.Recover(func() {
		m, err = parser.LoadModuleFromStringWithOptions(op, text, parser.Options{Features: fs})
	})
	if !pan {
		fr, msg = "", ""
	}
	return
}

const c11Hdr = `module f { namespace "urn:f"; prefix f; revision 0; feature a; feature b; feature c; `

// guarded statement templates: %s = if-feature statement(s); presence is probed at the path
type c11Template struct {
	text, probe string
	// sub: body of a submodule "fsub" the module includes (%s = guard there instead of in text);
	// subFeatures: the features a, b, c are defined in the submodule rather than in the module.
	sub         string
	subFeatures bool
}

// c11Render builds the module (and submodule) text of a placement with the guard statement stmt.
func c11Render(tp c11Template, stmt string) (string, map[string]string) {
	if tp.sub == "" {
		return c11Hdr + strings.Replace(tp.text, "%s", stmt, -1), nil
	}
	feats := "feature a; feature b; feature c; "
	hdr := `module f { namespace "urn:f"; prefix f; include fsub; revision 0; `
	subHdr := `submodule fsub { belongs-to f { prefix f; } `
	if tp.subFeatures {
		subHdr += feats
	} else {
		hdr += feats
	}
	return hdr + strings.Replace(tp.text, "%s", stmt, 1), map[string]string{"fsub": subHdr + strings.Replace(tp.sub, "%s", stmt, 1) + "}"}
}

var c11Templates = map[string]c11Template{
	"leaf":                                       {text: `leaf x { %s type string; } leaf keep { type string; } }`, probe: "x"},
	"container":                                  {text: `container x { %s leaf y { type string; } } leaf keep { type string; } }`, probe: "x"},
	"list":                                       {text: `list x { %s key k; leaf k { type string; } } leaf keep { type string; } }`, probe: "x"},
	"leaf-list":                                  {text: `leaf-list x { %s type string; } leaf keep { type string; } }`, probe: "x"},
	"choice":                                     {text: `choice x { %s case k { leaf y { type string; } } } leaf keep { type string; } }`, probe: "x"},
	"case":                                       {text: `choice ch { case x { %s leaf y { type string; } } case k { leaf z { type string; } } } leaf keep { type string; } }`, probe: "ch/x"},
	"uses":                                       {text: `grouping g { leaf x { type string; } } container u { uses g { %s } leaf keep { type string; } } }`, probe: "u/x"},
	"augment":                                    {text: `container u { leaf keep { type string; } } augment "/u" { %s leaf x { type string; } } }`, probe: "u/x"},
	"uses-augment":                               {text: `grouping g { container gc { leaf keep { type string; } } } container u { uses g { augment gc { %s leaf x { type string; } } } } }`, probe: "u/gc/x"},
	"refine":                                     {text: `grouping g { leaf x { type string; } leaf keep { type string; } } container u { uses g { refine x { %s description "refined"; } refine keep { description "also"; } } } }`, probe: "refine"},
	"two-if-features":                            {text: `leaf x { %s type string; } leaf keep { type string; } }`, probe: "x"},
	"anydata":                                    {text: `anydata x { %s } leaf keep { type string; } }`, probe: "x"},
	"rpc":                                        {text: `rpc x { %s } leaf keep { type string; } }`, probe: "x"},
	"notification":                               {text: `notification x { %s } leaf keep { type string; } }`, probe: "x"},
	"case-in-augment":                            {text: `choice ch { case k { leaf z { type string; } } } leaf keep { type string; } augment "/ch" { case x { %s leaf y { type string; } } } }`, probe: "ch/x"},
	"leaf-in-augment-of-choice":                  {text: `choice ch { case k { leaf z { type string; } } } leaf keep { type string; } augment "/ch" { leaf x { %s type string; } } }`, probe: "ch/x"},
	"case-in-uses-augment":                       {text: `grouping g { choice ch { case k { leaf z { type string; } } } } container u { uses g { augment ch { case x { %s leaf y { type string; } } } } leaf keep { type string; } } }`, probe: "u/ch/x"},
	"case-in-grouping":                           {text: `grouping g { choice ch { case x { %s leaf y { type string; } } case k { leaf z { type string; } } } } container u { uses g; leaf keep { type string; } } }`, probe: "u/ch/x"},
	"leaf-in-grouping":                           {text: `grouping g { container gc { leaf x { %s type string; } leaf keep { type string; } } } container u { uses g; } }`, probe: "u/gc/x"},
	"action":                                     {text: `container u { action x { %s } leaf keep { type string; } } }`, probe: "u/x"},
	"action-in-grouping":                         {text: `grouping g { action x { %s } leaf keep { type string; } } container u { uses g; } }`, probe: "u/x"},
	"notification-in-grouping":                   {text: `grouping g { notification x { %s } leaf keep { type string; } } container u { uses g; } }`, probe: "u/x"},
	"leaf-in-submodule":                          {text: `leaf keep { type string; } }`, probe: "x", sub: `leaf x { %s type string; } `},
	"augment-in-submodule":                       {text: `container u { leaf keep { type string; } } }`, probe: "u/x", sub: `augment "/u" { %s leaf x { type string; } } `},
	"features-in-submodule":                      {text: `leaf x { %s type string; } leaf keep { type string; } }`, probe: "x", sub: `leaf subkeep { type string; } `, subFeatures: true},
	"both-in-submodule":                          {text: `leaf keep { type string; } }`, probe: "x", sub: `leaf x { %s type string; } `, subFeatures: true},
	"action-in-augment":                          {text: `container u { leaf keep { type string; } } augment "/u" { action x { %s } } }`, probe: "u/x"},
	"notification-in-augment":                    {text: `container u { leaf keep { type string; } } augment "/u" { notification x { %s } } }`, probe: "u/x"},
	"action-in-uses-augment":                     {text: `grouping g { container gc { leaf keep { type string; } } } container u { uses g { augment gc { action x { %s } } } } }`, probe: "u/gc/x"},
	"notification-in-uses-augment":               {text: `grouping g { container gc { leaf keep { type string; } } } container u { uses g { augment gc { notification x { %s } } } } }`, probe: "u/gc/x"},
	"action-in-submodule":                        {text: `leaf keep { type string; } }`, probe: "x", sub: `rpc x { %s } `},
	"leaf-in-rpc-input":                          {text: `rpc r { input { leaf x { %s type string; } leaf keep { type string; } } } }`, probe: "r/input/x"},
	"leaf-in-action-output":                      {text: `container u { action r { output { leaf x { %s type string; } leaf keep { type string; } } } } }`, probe: "u/r/output/x"},
	"leaf-in-notification":                       {text: `notification n { leaf x { %s type string; } leaf keep { type string; } } }`, probe: "n/x"},
	"first-of-three-in-uses-augment":             {text: `grouping g { container gc { leaf keep { type string; } } } container u { uses g { augment gc { leaf x { %s type string; } leaf after { type string; } action act { input { leaf i { type string; } } } notification note { leaf e { type string; } } } } } }`, probe: "u/gc/x"},
	"first-of-three-in-augment":                  {text: `container u { leaf keep { type string; } } augment "/u" { leaf x { %s type string; } leaf after { type string; } action act { input { leaf i { type string; } } } notification note { leaf e { type string; } } } }`, probe: "u/x"},
	"first-of-three-in-grouping":                 {text: `grouping g { leaf x { %s type string; } leaf after { type string; } leaf keep { type string; } action act { input { leaf i { type string; } } } } container u { uses g; } }`, probe: "u/x"},
	"first-of-three-in-case":                     {text: `container u { choice ch { case k { leaf x { %s type string; } leaf after { type string; } leaf keep { type string; } } } } }`, probe: "u/x"},
	"refine-container":                           {text: `grouping g { container x { leaf y { type string; } } leaf keep { type string; } } container u { uses g { refine x { %s description "refined"; } refine x/y { description "deeper"; } } } container v { uses g; } }`, probe: "u/x"},
	"refine-case":                                {text: `grouping g { choice ch { case x { leaf y { type string; } } case keep { leaf z { type string; } } } } container u { uses g { refine ch/x { %s description "refined"; } } } }`, probe: "u/ch/x"},
	"refine-leaf-in-case":                        {text: `grouping g { choice ch { case k { leaf x { type string; } leaf keep { type string; } } } } container u { uses g { refine ch/k/x { %s description "refined"; } } } }`, probe: "u/ch/k/x"},
	"refine-one-of-two-uses":                     {text: `grouping g { leaf x { type string; } leaf keep { type string; } } container u { uses g { refine x { %s description "refined"; } } } container after { uses g; } }`, probe: "u/x"},
	"refine-of-guarded-node":                     {text: `grouping g { leaf x { %s type string; } leaf keep { type string; } } container u { uses g { refine x { description "refined"; } refine keep { description "also"; } } } }`, probe: "u/x"},
	"refine-below-guarded-node":                  {text: `grouping g { container x { %s leaf y { type string; } } leaf keep { type string; } } container u { uses g { refine x/y { description "refined"; } } } }`, probe: "u/x"},
	"refine-of-guarded-node-of-inner-uses":       {text: `grouping in { leaf x { %s type string; } } grouping g { uses in; leaf keep { type string; } } container u { uses g { refine x { description "refined"; } } } }`, probe: "u/x"},
	"refine-of-guarded-case":                     {text: `grouping g { choice ch { case x { %s leaf y { type string; } } case keep { leaf z { type string; } } } } container u { uses g { refine ch/x/y { description "refined"; } } } }`, probe: "u/ch/x"},
	"augment-of-guarded-target":                  {text: `container x { %s leaf y { type string; } } leaf keep { type string; } augment "/x" { leaf added { type string; } } }`, probe: "x"},
	"augment-below-guarded-target":               {text: `container x { %s container in { } } leaf keep { type string; } augment "/x/in" { leaf added { type string; } } }`, probe: "x"},
	"augment-of-guarded-choice":                  {text: `container u { choice x { %s leaf y { type string; } } leaf keep { type string; } } augment "/u/x" { case added { leaf z { type string; } } } }`, probe: "u/x"},
	"augment-of-guarded-case":                    {text: `container u { choice ch { case x { %s leaf y { type string; } } case keep { leaf z { type string; } } } } augment "/u/ch/x" { leaf added { type string; } } }`, probe: "u/ch/x"},
	"augment-of-guarded-rpc-input":               {text: `rpc x { %s input { leaf i { type string; } } } leaf keep { type string; } augment "/x/input" { leaf added { type string; } } }`, probe: "x"},
	"augment-of-guarded-notification":            {text: `notification x { %s leaf i { type string; } } leaf keep { type string; } augment "/x" { leaf added { type string; } } }`, probe: "x"},
	"uses-augment-of-guarded-target":             {text: `grouping g { container x { %s leaf y { type string; } } leaf keep { type string; } } container u { uses g { augment "x" { leaf added { type string; } } } } }`, probe: "u/x"},
	"deviation-of-guarded-target":                {text: `container x { %s leaf y { type string; } } leaf keep { type string; } deviation "/x/y" { deviate add { units "u"; } } }`, probe: "x"},
	"not-supported-of-node-below-guarded-target": {text: `container x { %s leaf y { type string; } leaf z { type string; } } leaf keep { type string; } deviation "/x/y" { deviate not-supported; } }`, probe: "x"},
	"refine-with-the-guard-of-its-target":        {text: `grouping g { leaf x { %s type string; } leaf keep { type string; } } container u { uses g { refine x { %s description "refined"; } } } }`, probe: "u/x"},
	"leaf-in-case-found-by-name":                 {text: `container u { choice ch { case k { leaf x { %s type string; } leaf keep { type string; } } } } }`, probe: "u/x"},
	"leaf-in-nested-case-found-by-name":          {text: `container u { choice ch { case k { choice in { case j { leaf x { %s type string; } } } leaf keep { type string; } } } } }`, probe: "u/x"},
	"container-in-case-found-by-name":            {text: `container u { choice ch { case k { container x { %s leaf y { type string; } } leaf keep { type string; } } } } }`, probe: "u/x"},
	"uses-in-augment":                            {text: `grouping g { leaf x { type string; } } container u { leaf keep { type string; } } augment "/u" { uses g { %s } } }`, probe: "u/x"},
	"uses-in-case":                               {text: `grouping g { leaf x { type string; } } choice ch { case k { uses g { %s } leaf keep { type string; } } } }`, probe: "ch/k/x"},
	"choice-in-case":                             {text: `choice ch { case k { choice x { %s leaf y { type string; } } leaf keep { type string; } } } }`, probe: "ch/k/x"},
}

func c11Probe(m *meta.Module, place string) (present bool, extra string) {
	tp := c11Templates[place]
	if place == "refine" {
		// RFC 7950 7.13.2: the if-feature of a refine is one more if-feature of the node it is about
		u := m.Definition("u").(meta.HasDataDefinitions)
		keep := u.Definition("keep").(*meta.Leaf)
		if keep.Description() != "also" {
			extra = "later-refine-not-applied"
		}
		x, _ := u.Definition("x").(*meta.Leaf)
		if x != nil && x.Description() != "refined" {
			extra = "refine-not-applied"
		}
		return x != nil, extra
	}
	// whatever the guard says, the unguarded neighbours of the guarded node stay
	var walk func(d meta.Meta, found map[string]bool, depth int)
	walk = func(d meta.Meta, found map[string]bool, depth int) {
		if d == nil || depth > 8 {
			return
		}
		if id, ok := d.(meta.Identifiable); ok {
			found[id.Ident()] = true
		}
		if ch, ok := d.(*meta.Choice); ok {
			for _, cs := range ch.Cases() {
				walk(cs, found, depth+1)
			}
		}
		if h, ok := d.(meta.HasDataDefinitions); ok {
			for _, c := range h.DataDefinitions() {
				walk(c, found, depth+1)
			}
		}
		if h, ok := d.(meta.HasActions); ok {
			for _, a := range h.Actions() {
				found[a.Ident()] = true
				if in := a.Input(); in != nil {
					walk(in, found, depth+1)
				}
				if out := a.Output(); out != nil {
					walk(out, found, depth+1)
				}
			}
		}
		if h, ok := d.(meta.HasNotifications); ok {
			for _, n := range h.Notifications() {
				walk(n, found, depth+1)
			}
		}
	}
	found := map[string]bool{}
	walk(m, found, 0)
	for _, neighbour := range []string{"keep", "after", "act", "note"} {
		if (strings.Contains(tp.text, " "+neighbour+" {") || strings.Contains(tp.sub, " "+neighbour+" {")) && !found[neighbour] {
			extra = "unguarded-neighbour-lost"
		}
	}
	var cur meta.Meta = m
	for _, seg := range strings.Split(tp.probe, "/") {
		d := meta.Find(cur, seg)
		if d == nil {
			return false, extra
		}
		cur = d
	}
	return true, extra
}

func (p *c11) Run(raw json.RawMessage) eng.Result {
	var c c11Case
	decode(raw, &c)
	var res eng.Result
	ss := &sigSet{res: &res}
	assigns := c11Assignments()
	switch c.Part {
	case "expr", "valid":
		var valid [][]string
		if c.Part == "valid" {
			valid = c11ValidExprs(c.Len)
		}
		for idx := c.From; idx < c.To; idx++ {
			var toks []string
			if c.Part == "valid" {
				toks = valid[idx]
			} else {
				toks = c11Word(c.Len, idx)
			}
			ref := c11Parse(toks)
			if c.Part == "valid" && ref == nil {
				panic("harness: grammar-generated expression rejected by the reference parser: " + joinExpr(toks))
			}
			expr := joinExpr(toks)
			res.Evals++
			res.Nontriv++
			if ref == nil {
				// malformed: loading a module that guards a data node with it must fail
				text := c11Hdr + fmt.Sprintf(c11Templates["leaf"].text, fmt.Sprintf(`if-feature "%s";`, expr))
				m, err, fr, msg := c11Load(text, meta.AllFeaturesOn(), nil)
				switch {
				case fr != "":
					ss.add("C11/if-feature/malformed:"+c11Malformation(toks)+"/panic:"+fr, expr+": "+msg)
				case err == nil && m != nil:
					ss.add("C11/if-feature/malformed:"+c11Malformation(toks)+"/accepted", fmt.Sprintf("if-feature %q loads without error", expr))
				}
				continue
			}
			if c.Len <= 4 {
				// full loads under the allow-list configuration
				for _, on := range assigns {
					text := c11Hdr + fmt.Sprintf(c11Templates["leaf"].text, fmt.Sprintf(`if-feature "%s";`, expr))
					m, err, fr, msg := c11Load(text, meta.FeaturesOn(onList(on)), nil)
					res.Evals++
					switch {
					case fr != "":
						ss.add("C11/if-feature/shape:"+ref.shape()+"/panic:"+fr, expr+": "+msg)
					case err != nil:
						ss.add("C11/if-feature/shape:"+ref.shape()+"/valid-expression-rejected", fmt.Sprintf("%q: %v", expr, err))
					default:
						present, _ := c11Probe(m, "leaf")
						if present != ref.eval(on) {
							ss.add("C11/if-feature/shape:"+ref.shape()+"/wrong-value", fmt.Sprintf("%q with %v enabled: node present=%v, expression is %v", expr, onList(on), present, ref.eval(on)))
						}
						if keep, _ := c11ProbePath(m, "keep"); !keep {
							ss.add("C11/if-feature/shape:"+ref.shape()+"/sibling-removed", expr)
						}
					}
				}
				continue
			}
			// longer expressions: compile once, evaluate the compiled expression directly
			text := c11Hdr + fmt.Sprintf(`feature z { if-feature "%s"; } }`, expr)
			m, err, fr, msg := c11Load(text, meta.AllFeaturesOn(), nil)
			if fr != "" || err != nil || m == nil {
				ss.add("C11/if-feature/shape:"+ref.shape()+"/valid-expression-rejected", fmt.Sprintf("%q on a feature: %v %s %s", expr, err, fr, msg))
				continue
			}
			iffs := m.Features()["z"].IfFeatures()
			if len(iffs) != 1 {
				ss.add("C11/if-feature/feature-on-feature/not-recorded", expr)
				continue
			}
			for _, on := range assigns {
				enabled := map[string]*meta.Feature{}
				for f, v := range on {
					if v {
						enabled[f] = m.Features()[f]
					}
				}
				var got bool
				var eerr error
				fr, msg, pan := eng.Recover(func() { got, eerr = iffs[0].Evaluate(enabled) })
				res.Evals++
				switch {
				case pan:
					ss.add("C11/if-feature/shape:"+ref.shape()+"/panic:"+fr, expr+": "+msg)
				case eerr != nil:
					ss.add("C11/if-feature/shape:"+ref.shape()+"/valid-expression-rejected", fmt.Sprintf("%q: %v", expr, eerr))
				case got != ref.eval(on):
					ss.add("C11/if-feature/shape:"+ref.shape()+"/wrong-value", fmt.Sprintf("%q with %v enabled evaluates to %v, reference %v", expr, onList(on), got, ref.eval(on)))
				}
			}
		}
		res.Outcomes = []string{fmt.Sprintf("%s-len-%d", c.Part, c.Len)}
	case "space":
		// white-space variants of every valid expression of <= 3 tokens plus parenthesised forms
		var exprs [][]string
		for l := 1; l <= 3; l++ {
			n := 1
			for i := 0; i < l; i++ {
				n *= 8
			}
			for idx := 0; idx < n; idx++ {
				if t := c11Word(l, idx); c11Parse(t) != nil {
					exprs = append(exprs, t)
				}
			}
		}
		exprs = append(exprs, []string{"(", "a", "or", "b", ")", "and", "c"}, []string{"not", "(", "a", "and", "b", ")"}, []string{"a", "and", "(", "b", "or", "not", "c", ")"})
		for _, toks := range exprs {
			ref := c11Parse(toks)
			variants := map[string]string{
				"double-space": strings.Join(toks, "  "),
				"tab":          strings.Join(toks, "\t"),
				"newline":      strings.Join(toks, "\n  "),
				"outer-space":  " " + strings.Join(toks, " ") + " ",
				"tight-parens": strings.NewReplacer("( ", "(", " )", ")").Replace(strings.Join(toks, " ")),
			}
			for name, expr := range variants {
				for _, on := range assigns {
					text := c11Hdr + fmt.Sprintf(c11Templates["leaf"].text, fmt.Sprintf(`if-feature "%s";`, expr))
					m, err, fr, msg := c11Load(text, meta.FeaturesOn(onList(on)), nil)
					res.Evals++
					res.Nontriv++
					switch {
					case fr != "":
						ss.add("C11/if-feature/whitespace:"+name+"/panic:"+fr, fmt.Sprintf("%q: %s", expr, msg))
					case err != nil:
						ss.add("C11/if-feature/whitespace:"+name+"/valid-expression-rejected", fmt.Sprintf("%q: %v", expr, err))
					default:
						if present, _ := c11Probe(m, "leaf"); present != ref.eval(on) {
							ss.add("C11/if-feature/whitespace:"+name+"/wrong-value", fmt.Sprintf("%q with %v enabled: present=%v want %v", expr, onList(on), present, ref.eval(on)))
						}
					}
				}
			}
		}
		res.Outcomes = []string{"space"}
	case "place":
		var exprs [][]string
		for l := 1; l <= 3; l++ {
			n := 1
			for i := 0; i < l; i++ {
				n *= 8
			}
			for idx := 0; idx < n; idx++ {
				if t := c11Word(l, idx); c11Parse(t) != nil {
					exprs = append(exprs, t)
				}
			}
		}
		tp := c11Templates[c.Place]
		for _, toks := range exprs {
			ref := c11Parse(toks)
			expr := joinExpr(toks)
			stmt := fmt.Sprintf(`if-feature "%s";`, expr)
			truth := func(on map[string]bool) bool { return ref.eval(on) }
			if c.Place == "two-if-features" {
				stmt += ` if-feature "c";`
				truth = func(on map[string]bool) bool { return ref.eval(on) && on["c"] }
			}
			text, mods := c11Render(tp, stmt)
			for _, on := range assigns {
				for _, cfg := range []string{"allow-list", "deny-list"} {
					var fs meta.FeatureSet
					if cfg == "allow-list" {
						fs = meta.FeaturesOn(onList(on))
					} else {
						fs = meta.FeaturesOff(offList(on))
					}
					m, err, fr, msg := c11Load(text, fs, mods)
					res.Evals++
					res.Nontriv++
					site := "C11/if-feature/on-" + c.Place + "/" + cfg
					switch {
					case fr != "":
						ss.add(site+"/panic:"+fr, fmt.Sprintf("%q: %s", expr, msg))
					case err != nil:
						ss.add(site+"/load-error", fmt.Sprintf("%q with %v: %v", expr, onList(on), err))
					default:
						present, extra := c11Probe(m, c.Place)
						if present != truth(on) {
							ss.add(site+fmt.Sprintf("/present-%v-want-%v", present, truth(on)), fmt.Sprintf("%q with %v enabled", expr, onList(on)))
						}
						if extra != "" {
							ss.add(site+"/"+extra, fmt.Sprintf("%q with %v enabled", expr, onList(on)))
						}
					}
				}
			}
		}
		// all features on by default
		dtext, dmods := c11Render(tp, `if-feature "a and not b";`)
		m, err, fr, _ := c11Load(dtext, nil, dmods)
		if fr == "" && err == nil {
			if present, _ := c11Probe(m, c.Place); present {
				ss.add("C11/if-feature/on-"+c.Place+"/default-all-on/present-true-want-false", `"a and not b" with every feature on`)
			}
		}
		res.Outcomes = []string{"place:" + c.Place}
	case "names":
		c11Names(&res, ss)
	case "two-modules":
		c11TwoModules(&res, ss)
	case "feature-graph":
		c11FeatureGraph(&res, ss)
	case "deviation-copies":
		c11DeviationCopies(&res, ss)
	case "deviation":
		c11RunDeviation(c.Idx, &res, ss)
	}
	if res.Evals == 0 {
		res.Evals = 1
	}
	return res
}

func c11ProbePath(m *meta.Module, path string) (bool, meta.Definition) {
	var cur meta.Meta = m
	for _, seg := range strings.Split(path, "/") {
		d := meta.Find(cur, seg)
		if d == nil {
			return false, nil
		}
		cur = d
	}
	return true, cur.(meta.Definition)
}

// prefixed feature names, features of imported modules, feature-on-feature dependencies
func c11Names(res *eng.Result, ss *sigSet) {
	type tc struct {
		name, text string
		mods       map[string]string
		on         []string
		want       bool
	}
	imp := map[string]string{"dep": `module dep { namespace "urn:dep"; prefix d; revision 0; feature a; feature z; }`}
	cases := []tc{
		{"own-prefix/on", c11Hdr + `leaf x { if-feature "f:a"; type string; } }`, nil, []string{"a"}, true},
		{"own-prefix/off", c11Hdr + `leaf x { if-feature "f:a"; type string; } }`, nil, []string{"b"}, false},
		{"own-prefix-in-expression/on", c11Hdr + `leaf x { if-feature "f:a and not f:b"; type string; } }`, nil, []string{"a"}, true},
		{"own-prefix-in-expression/off", c11Hdr + `leaf x { if-feature "f:a and not f:b"; type string; } }`, nil, []string{"a", "b"}, false},
		{"imported-prefix/all-on", `module f { namespace "urn:f"; prefix f; import dep { prefix d; } revision 0; feature a; leaf x { if-feature "d:z"; type string; } }`, imp, nil, true},
		// the module's own feature b is off because it depends on a, which is off; the imported module has an
		// unconditional feature of the same name: that one must not switch the module's own b on
		{"same-name-in-import/own-off-by-dependency", `module f { namespace "urn:f"; prefix f; import dep2 { prefix d; } revision 0; feature a; feature b { if-feature a; } leaf x { if-feature b; type string; } }`,
			map[string]string{"dep2": `module dep2 { namespace "urn:dep2"; prefix d; revision 0; feature b; }`}, []string{"b"}, false},
		// a deny-list names the module's own feature: the import's feature of that name stays a different feature
		{"same-name-in-import/own-on", `module f { namespace "urn:f"; prefix f; import dep2 { prefix d; } revision 0; feature b; leaf x { if-feature b; type string; } }`,
			map[string]string{"dep2": `module dep2 { namespace "urn:dep2"; prefix d; revision 0; feature b { if-feature nothere; } feature nothere; }`}, []string{"b"}, true},
		{"unknown-feature", c11Hdr + `leaf x { if-feature "nope"; type string; } }`, nil, []string{"a"}, false},
		{"feature-depends-on-feature/base-off", `module f { namespace "urn:f"; prefix f; revision 0; feature a; feature b { if-feature a; } leaf x { if-feature b; type string; } }`, nil, []string{"b"}, false},
		{"feature-depends-on-feature/both-on", `module f { namespace "urn:f"; prefix f; revision 0; feature a; feature b { if-feature a; } leaf x { if-feature b; type string; } }`, nil, []string{"a", "b"}, true},
	}
	for _, t := range cases {
		var fs meta.FeatureSet
		if t.on != nil {
			fs = meta.FeaturesOn(t.on)
		}
		m, err, fr, msg := c11Load(t.text, fs, t.mods)
		res.Evals++
		res.Nontriv++
		site := "C11/if-feature/names/" + t.name
		switch {
		case fr != "":
			ss.add(site+"/panic:"+fr, msg)
		case err != nil:
			if t.name != "unknown-feature" {
				ss.add(site+"/load-error", err.Error())
			}
		default:
			if present, _ := c11ProbePath(m, "x"); present != t.want {
				ss.add(site+fmt.Sprintf("/present-%v-want-%v", present, t.want), t.text)
			}
		}
	}
}

// c11TwoModules: a module and the module it imports each define features a, b, c (b optionally depending
// on a) and each guards a leaf; every pair of expressions of <= 3 tokens x every assignment x
// allow-list/deny-list: each leaf is present exactly when its expression holds for its own module's features.
// c11FeatureGraph: features that depend on features. Every way to give each of four features at most
// one other feature as its if-feature (all acyclic ones: chains to length four, stars, forests, in
// every declaration order the names allow) x every assignment x allow / deny list: a feature is on
// exactly when it is asked for and the feature it depends on is on. Plus a dependency that crosses
// an import (feature f { if-feature "d:a"; } where d:a depends on d:b).
func c11FeatureGraph(res *eng.Result, ss *sigSet) {
	names := []string{"a", "b", "c", "d"}
	for g := 0; g < 625; g++ {
		// dep[i] in 0..4: 4 = none, else index of the feature it depends on
		dep := make([]int, 4)
		x := g
		ok := true
		for i := range dep {
			dep[i] = x % 5
			x /= 5
			if dep[i] == i {
				ok = false
			}
		}
		if !ok {
			continue
		}
		// acyclic?
		for i := range dep {
			seen := 0
			for j := i; dep[j] != 4; j = dep[j] {
				if seen++; seen > 4 {
					ok = false
					break
				}
			}
		}
		if !ok {
			continue
		}
		var sb strings.Builder
		sb.WriteString(`module fg { namespace "urn:fg"; prefix fg; revision 0; `)
		for i, n := range names {
			if dep[i] == 4 {
				sb.WriteString("feature " + n + "; ")
			} else {
				sb.WriteString("feature " + n + " { if-feature " + names[dep[i]] + "; } ")
			}
		}
		for _, n := range names {
			sb.WriteString("leaf l" + n + " { if-feature " + n + "; type string; } ")
		}
		sb.WriteString("leaf keep { type string; } }")
		shape := ""
		for i := range dep {
			d := 0
			for j := i; dep[j] != 4; j = dep[j] {
				d++
			}
			shape += fmt.Sprint(d)
		}
		for bits := 0; bits < 16; bits++ {
			on := map[string]bool{}
			var onL, offL []string
			for i, n := range names {
				on[n] = bits&(1<<uint(i)) != 0
				if on[n] {
					onL = append(onL, n)
				} else {
					offL = append(offL, n)
				}
			}
			for _, cfg := range []string{"allow-list", "deny-list"} {
				var fs meta.FeatureSet
				if cfg == "allow-list" {
					fs = meta.FeaturesOn(onL)
				} else {
					fs = meta.FeaturesOff(offL)
				}
				m, err, fr, msg := c11Load(sb.String(), fs, nil)
				res.Evals++
				res.Nontriv++
				site := fmt.Sprintf("C11/if-feature/feature-graph/%s/depths-%s", cfg, shape)
				what := fmt.Sprintf("%s enabled %v", sb.String(), onL)
				switch {
				case fr != "":
					ss.add(site+"/panic:"+fr, what+": "+msg)
				case err != nil:
					ss.add(site+"/load-error", what+": "+err.Error())
				default:
					for i, n := range names {
						eff := true
						for j := i; ; j = dep[j] {
							eff = eff && on[names[j]]
							if dep[j] == 4 {
								break
							}
						}
						if present, _ := c11ProbePath(m, "l"+n); present != eff {
							ss.add(site+fmt.Sprintf("/leaf-present-%v-want-%v", present, eff), fmt.Sprintf("leaf l%s: %s", n, what))
						}
					}
					if present, _ := c11ProbePath(m, "keep"); !present {
						ss.add(site+"/unguarded-neighbour-lost", what)
					}
				}
			}
		}
	}
	// across an import
	text := `module fi { namespace "urn:fi"; prefix fi; import dep { prefix d; } revision 0; feature f { if-feature "d:a"; } feature h { if-feature "f and not d:b"; }
  leaf lf { if-feature f; type string; } leaf lh { if-feature h; type string; } leaf direct { if-feature "d:a"; type string; } leaf keep { type string; } }`
	for _, impDep := range []bool{false, true} {
		depText := `module dep { namespace "urn:dep"; prefix d; revision 0; feature a; feature b; }`
		if impDep {
			depText = `module dep { namespace "urn:dep"; prefix d; revision 0; feature a { if-feature b; } feature b; }`
		}
		fnames := []string{"a", "b", "f", "h"}
		for bits := 0; bits < 16; bits++ {
			on := map[string]bool{}
			var onL, offL []string
			for i, n := range fnames {
				on[n] = bits&(1<<uint(i)) != 0
				if on[n] {
					onL = append(onL, n)
				} else {
					offL = append(offL, n)
				}
			}
			for _, cfg := range []string{"allow-list", "deny-list"} {
				var fs meta.FeatureSet
				if cfg == "allow-list" {
					fs = meta.FeaturesOn(onL)
				} else {
					fs = meta.FeaturesOff(offL)
				}
				m, err, fr, msg := c11Load(text, fs, map[string]string{"dep": depText})
				res.Evals++
				res.Nontriv++
				site := fmt.Sprintf("C11/if-feature/feature-graph/%s/across-import:import-chain=%v", cfg, impDep)
				what := fmt.Sprintf("enabled %v", onL)
				effA := on["a"] && (!impDep || on["b"])
				effF := on["f"] && effA
				effH := on["h"] && effF && !on["b"]
				switch {
				case fr != "":
					ss.add(site+"/panic:"+fr, what+": "+msg)
				case err != nil:
					ss.add(site+"/load-error", what+": "+err.Error())
				default:
					for leaf, want := range map[string]bool{"lf": effF, "lh": effH, "direct": effA, "keep": true} {
						if present, _ := c11ProbePath(m, leaf); present != want {
							ss.add(site+fmt.Sprintf("/%s-present-%v-want-%v", leaf, present, want), what)
						}
					}
				}
			}
		}
	}
}

func c11TwoModules(res *eng.Result, ss *sigSet) {
	var exprs [][]string
	for l := 1; l <= 3; l++ {
		exprs = append(exprs, c11ValidExprs(l)...)
	}
	feat := func(bDepends bool) string {
		if bDepends {
			return "feature a; feature b { if-feature a; } feature c; "
		}
		return "feature a; feature b; feature c; "
	}
	for bdep := 0; bdep < 4; bdep++ {
		mainDep, impDep := bdep&1 != 0, bdep&2 != 0
		for _, em := range exprs {
			for _, ei := range exprs {
				// the import also lends a grouping whose member is guarded by the import's own features
				text := `module f { namespace "urn:f"; prefix f; import dep { prefix d; } revision 0; ` + feat(mainDep) + `leaf x { if-feature "` + joinExpr(em) + `"; type string; } leaf keep { type string; } container u { uses d:g; } }`
				mods := map[string]string{"dep": `module dep { namespace "urn:dep"; prefix d; revision 0; ` + feat(impDep) + `leaf x { if-feature "` + joinExpr(ei) + `"; type string; } leaf keep { type string; } grouping g { leaf gx { if-feature "` + joinExpr(ei) + `"; type string; } leaf gkeep { type string; } } }`}
				rm, ri := c11Parse(em), c11Parse(ei)
				for _, on := range c11Assignments() {
					for _, cfg := range []string{"allow-list", "deny-list"} {
						var fs meta.FeatureSet
						if cfg == "allow-list" {
							fs = meta.FeaturesOn(onList(on))
						} else {
							fs = meta.FeaturesOff(offList(on))
						}
						eff := func(depends bool) map[string]bool {
							e := map[string]bool{"a": on["a"], "b": on["b"], "c": on["c"]}
							if depends && !e["a"] {
								e["b"] = false
							}
							return e
						}
						m, err, fr, msg := c11Load(text, fs, mods)
						res.Evals++
						res.Nontriv++
						site := fmt.Sprintf("C11/if-feature/two-modules/%s/b-depends-on-a:module=%v,import=%v", cfg, mainDep, impDep)
						what := fmt.Sprintf("module %q, import %q, enabled %v", joinExpr(em), joinExpr(ei), onList(on))
						switch {
						case fr != "":
							ss.add(site+"/panic:"+fr, what+": "+msg)
						case err != nil:
							ss.add(site+"/load-error", what+": "+err.Error())
						default:
							if present, _ := c11ProbePath(m, "x"); present != rm.eval(eff(mainDep)) {
								ss.add(site+fmt.Sprintf("/module-leaf-present-%v-want-%v", present, !present), what)
							}
							imp := m.Imports()["d"]
							if imp == nil || imp.Module() == nil {
								ss.add(site+"/import-not-loaded", what)
							} else if present, _ := c11ProbePath(imp.Module(), "x"); present != ri.eval(eff(impDep)) {
								ss.add(site+fmt.Sprintf("/import-leaf-present-%v-want-%v", present, !present), what)
							}
							// names in the grouping are the features of the module the grouping is written in
							if present, _ := c11ProbePath(m, "u/gx"); present != ri.eval(eff(impDep)) {
								ss.add(site+fmt.Sprintf("/leaf-of-imported-grouping-present-%v-want-%v", present, !present), what)
							}
							if present, _ := c11ProbePath(m, "u/gkeep"); !present {
								ss.add(site+"/unguarded-leaf-of-imported-grouping-lost", what)
							}
						}
					}
				}
			}
		}
	}
}

// c11DeviationCopies: a grouping used twice; a deviation of one copy changes that copy only, also
// for the properties held in slices (unique, must, leaf-list defaults), in either order of the two.
func c11DeviationCopies(res *eng.Result, ss *sigSet) {
	const body = `grouping g { list l { key k; unique "a"; unique "b"; unique "c"; must "m1"; must "m2"; must "m3"; leaf k { type string; } leaf a { type string; } leaf b { type string; } leaf c { type string; } leaf d { type string; } leaf e { type string; } }
    leaf-list ll { type string; default "x"; default "y"; default "z"; } leaf lf { type string; must "n1"; must "n2"; must "n3"; } }
  container p { uses g; } container q { uses g; } container r { uses g; } `
	type dv struct{ name, first, second string }
	devs := []dv{
		{"unique", `deviation "/p/l" { deviate add { unique "d"; } }`, `deviation "/q/l" { deviate add { unique "e"; } }`},
		{"must-on-list", `deviation "/p/l" { deviate add { must "pm"; } }`, `deviation "/q/l" { deviate add { must "qm"; } }`},
		{"must-on-leaf", `deviation "/p/lf" { deviate add { must "pm"; } }`, `deviation "/q/lf" { deviate add { must "qm"; } }`},
		{"leaf-list-default", `deviation "/p/ll" { deviate add { default "pd"; } }`, `deviation "/q/ll" { deviate add { default "qd"; } }`},
		{"delete-unique", `deviation "/p/l" { deviate delete { unique "a"; } }`, `deviation "/q/l" { deviate delete { unique "c"; } }`},
		{"delete-must", `deviation "/p/lf" { deviate delete { must "n1"; } }`, `deviation "/q/lf" { deviate delete { must "n3"; } }`},
	}
	load := func(devText string) (model.Dump, string) {
		m, err, fr, msg := c11Load(`module dc { namespace "urn:dc"; prefix dc; revision 0; `+body+devText+`}`, nil, nil)
		if fr != "" {
			return nil, "panic:" + fr + " " + msg
		}
		if err != nil {
			return nil, "load-error " + err.Error()
		}
		return model.DumpModule(m, model.FullDump()), ""
	}
	base, bad := load("")
	if bad != "" {
		panic("harness: " + bad)
	}
	under := func(d model.Dump, prefix string) []string {
		var out []string
		for _, line := range d {
			if strings.HasPrefix(line, prefix+"/") || strings.HasPrefix(line, prefix+":") {
				out = append(out, strings.TrimPrefix(line, prefix))
			}
		}
		return out
	}
	for _, d := range devs {
		for _, order := range []string{"first-then-second", "second-then-first"} {
			text := d.first + " " + d.second
			if order == "second-then-first" {
				text = d.second + " " + d.first
			}
			res.Evals++
			res.Nontriv++
			site := "C11/deviation-copies/" + d.name + "/" + order
			both, bad := load(text)
			if bad != "" {
				ss.add(site+"/"+strings.SplitN(bad, " ", 2)[0], bad)
				continue
			}
			onlyP, _ := load(d.first)
			onlyQ, _ := load(d.second)
			// the third copy is untouched, and each deviated copy looks as if the other deviation did not exist
			if a, b := strings.Join(under(both, "/r"), "\n"), strings.Join(under(base, "/r"), "\n"); a != b {
				ss.add(site+"/undeviated-copy-changed", fmt.Sprintf("%s: /r differs from the undeviated module", text))
			}
			if a, b := strings.Join(under(both, "/p"), "\n"), strings.Join(under(onlyP, "/p"), "\n"); a != b {
				ss.add(site+"/first-copy-sees-other-deviation", fmt.Sprintf("%s: /p differs from /p with only its own deviation:\n%s\nvs\n%s", text, a, b))
			}
			if a, b := strings.Join(under(both, "/q"), "\n"), strings.Join(under(onlyQ, "/q"), "\n"); a != b {
				ss.add(site+"/second-copy-sees-other-deviation", fmt.Sprintf("%s: /q differs from /q with only its own deviation:\n%s\nvs\n%s", text, a, b))
			}
			if a, b := strings.Join(under(onlyP, "/q"), "\n"), strings.Join(under(base, "/q"), "\n"); a != b {
				ss.add(site+"/deviation-of-one-copy-changes-another", fmt.Sprintf("%s alone: /q differs from the undeviated module", d.first))
			}
		}
	}
}

// ---------------------------------------------------------------- deviations

type c11Dev struct {
	name    string
	target  string   // schema path
	deviate string   // deviate statement(s)
	legal   bool     // must load
	expect  []string // substrings of dump lines that must change (removed from base / added in deviated); nil with legal => node removed
	removed bool     // not-supported: every line below target disappears and the parent's children line changes
	// exact: for a dump-line prefix (e.g. "must["), the complete list of the target's lines with that prefix after the deviation
	exact map[string][]string
}

const c11DevBody = `container c { leaf lf { type string; units "cm"; default "d"; mandatory false; config true; must "x"; }
    leaf plain { type string; }
    leaf mm { type string; units "cm"; default "d"; must "m1"; must "m2"; must "m3"; }
    list l3 { key k; unique "u1"; unique "u2"; unique "u1 u2"; leaf k { type string; } leaf u1 { type string; } leaf u2 { type string; } }
    list l4 { key k; unique "u2 u1"; unique "u1"; leaf k { type string; } leaf u1 { type string; } leaf u2 { type string; } }
    list l5 { key k; unique "u3 u1"; unique "u2 u1"; leaf k { type string; } leaf u1 { type string; } leaf u2 { type string; } leaf u3 { type string; } }
    leaf-list ll { type string; min-elements 1; max-elements 5; default "a"; default "b"; units "u"; }
    list li { key k; unique "u1 u2"; max-elements 9; min-elements 0; leaf k { type string; } leaf u1 { type string; } leaf u2 { type string; } must "y"; }
    leaf-list lu { type string; max-elements unbounded; }
    leaf-list lp { type string; }
    list lub { key k; leaf k { type string; } max-elements unbounded; }
    list lpl { key k; leaf k { type string; } }
    container inner { leaf deep { type int32; } }
    choice ch { case ca { leaf cl { type string; } } case cb { leaf cm { type string; } } }
  }
  grouping g { leaf gl { type string; } }
  container u { uses g; }
  rpc r1 { input { leaf i { type string; } } }
  notification n1 { leaf x { type string; } }
  leaf top { type string; } `

func c11Deviations() []c11Dev {
	return []c11Dev{
		{"not-supported/leaf", "/c/lf", "deviate not-supported;", true, nil, true, nil},
		{"not-supported/container", "/c/inner", "deviate not-supported;", true, nil, true, nil},
		{"not-supported/list", "/c/li", "deviate not-supported;", true, nil, true, nil},
		{"not-supported/leaf-list", "/c/ll", "deviate not-supported;", true, nil, true, nil},
		{"not-supported/choice-member", "/c/ch/ca/cl", "deviate not-supported;", true, nil, true, nil},
		{"not-supported/nested", "/c/inner/deep", "deviate not-supported;", true, nil, true, nil},
		{"not-supported/grouping-expanded", "/u/gl", "deviate not-supported;", true, nil, true, nil},
		{"not-supported/rpc", "/r1", "deviate not-supported;", true, nil, true, nil},
		{"not-supported/notification", "/n1", "deviate not-supported;", true, nil, true, nil},
		{"not-supported/top-leaf", "/top", "deviate not-supported;", true, nil, true, nil},
		{"add/units", "/c/plain", `deviate add { units "m"; }`, true, []string{"units="}, false, nil},
		{"add/default", "/c/plain", `deviate add { default "x"; }`, true, []string{"default="}, false, nil},
		{"add/config", "/c/plain", `deviate add { config false; }`, true, []string{"config="}, false, nil},
		{"add/mandatory", "/c/plain", `deviate add { mandatory true; }`, true, []string{"mandatory="}, false, nil},
		{"add/must", "/c/plain", `deviate add { must "z"; }`, true, []string{"must[0]="}, false, nil},
		{"add/must-second", "/c/lf", `deviate add { must "z"; }`, true, []string{"must[1]="}, false, nil},
		{"add/unique", "/c/li", `deviate add { unique "k u1"; }`, true, []string{"unique="}, false, nil},
		{"add/units-where-present", "/c/lf", `deviate add { units "m"; }`, false, nil, false, nil},
		{"add/default-where-present", "/c/lf", `deviate add { default "x"; }`, false, nil, false, nil},
		{"replace/units", "/c/lf", `deviate replace { units "mm"; }`, true, []string{"units="}, false, nil},
		{"replace/default", "/c/lf", `deviate replace { default "e"; }`, true, []string{"default="}, false, nil},
		{"replace/config", "/c/lf", `deviate replace { config false; }`, true, []string{"config="}, false, nil},
		{"replace/mandatory", "/c/lf", `deviate replace { mandatory true; }`, true, []string{"mandatory="}, false, nil},
		{"replace/max-elements", "/c/ll", `deviate replace { max-elements 3; }`, true, []string{"max-elements="}, false, nil},
		{"replace/min-elements", "/c/ll", `deviate replace { min-elements 2; }`, true, []string{"min-elements="}, false, nil},
		{"replace/max-elements-list", "/c/li", `deviate replace { max-elements 3; }`, true, []string{"max-elements="}, false, nil},
		{"replace/max-elements-over-unbounded", "/c/lu", `deviate replace { max-elements 3; }`, true, []string{"max-elements=", "unbounded="}, false, map[string][]string{"max-elements=": {"max-elements=3"}, "unbounded=": {"unbounded=false"}}},
		{"replace/max-elements-over-unbounded-list", "/c/lub", `deviate replace { max-elements 3; }`, true, []string{"max-elements=", "unbounded="}, false, map[string][]string{"max-elements=": {"max-elements=3"}, "unbounded=": {"unbounded=false"}}},
		{"replace/unbounded-over-max-elements", "/c/ll", `deviate replace { max-elements unbounded; }`, true, []string{"max-elements=", "unbounded="}, false, map[string][]string{"max-elements=": {}, "unbounded=": {"unbounded=true"}}},
		{"replace/unbounded-over-max-elements-list", "/c/li", `deviate replace { max-elements unbounded; }`, true, []string{"max-elements=", "unbounded="}, false, map[string][]string{"max-elements=": {}, "unbounded=": {"unbounded=true"}}},
		{"replace/max-elements-where-absent", "/c/lp", `deviate replace { max-elements 3; }`, false, nil, false, nil},
		{"replace/unbounded-where-absent", "/c/lpl", `deviate replace { max-elements unbounded; }`, false, nil, false, nil},
		{"replace/min-elements-where-absent", "/c/lp", `deviate replace { min-elements 1; }`, false, nil, false, nil},
		{"add/max-elements", "/c/lp", `deviate add { max-elements 3; }`, true, []string{"max-elements=", "unbounded="}, false, map[string][]string{"max-elements=": {"max-elements=3"}, "unbounded=": {"unbounded=false"}}},
		{"add/max-elements-list", "/c/lpl", `deviate add { max-elements 3; }`, true, []string{"max-elements=", "unbounded="}, false, map[string][]string{"max-elements=": {"max-elements=3"}, "unbounded=": {"unbounded=false"}}},
		{"add/min-elements", "/c/lp", `deviate add { min-elements 2; }`, true, []string{"min-elements="}, false, map[string][]string{"min-elements=": {"min-elements=2"}}},
		{"add/unbounded", "/c/lp", `deviate add { max-elements unbounded; }`, true, nil, false, map[string][]string{"max-elements=": {}, "unbounded=": {"unbounded=true"}}},
		{"add/max-elements-where-unbounded-stated", "/c/lu", `deviate add { max-elements 3; }`, false, nil, false, nil},
		{"add/max-elements-where-present", "/c/ll", `deviate add { max-elements 3; }`, false, nil, false, nil},
		{"add/unbounded-where-max-elements-present", "/c/li", `deviate add { max-elements unbounded; }`, false, nil, false, nil},
		{"add/min-elements-where-present", "/c/ll", `deviate add { min-elements 3; }`, false, nil, false, nil},
		{"replace/type", "/c/plain", `deviate replace { type int32; }`, true, []string{"type.format="}, false, nil},
		{"replace/leaf-list-defaults", "/c/ll", `deviate replace { default "z"; }`, true, []string{"default="}, false, nil},
		{"replace/units-where-absent", "/c/plain", `deviate replace { units "mm"; }`, false, nil, false, nil},
		{"replace/default-where-absent", "/c/plain", `deviate replace { default "e"; }`, false, nil, false, nil},
		{"delete/units", "/c/lf", `deviate delete { units "cm"; }`, true, []string{"units="}, false, nil},
		{"delete/default", "/c/lf", `deviate delete { default "d"; }`, true, []string{"default="}, false, nil},
		{"delete/must", "/c/lf", `deviate delete { must "x"; }`, true, []string{"must[0]="}, false, nil},
		{"delete/unique", "/c/li", `deviate delete { unique "u1 u2"; }`, true, []string{"unique="}, false, nil},
		{"delete/leaf-list-defaults", "/c/ll", `deviate delete { default "a"; default "b"; }`, true, []string{"default="}, false, nil},
		{"delete/units-mismatch", "/c/lf", `deviate delete { units "km"; }`, false, nil, false, nil},
		{"delete/default-mismatch", "/c/lf", `deviate delete { default "other"; }`, false, nil, false, nil},
		{"delete/must-absent", "/c/plain", `deviate delete { must "x"; }`, false, nil, false, nil},
		{"delete/two-musts", "/c/mm", `deviate delete { must "m1"; must "m2"; }`, true, []string{"must["}, false, map[string][]string{"must[": {`must[0]="m3" msg="" tag=""`}}},
		{"delete/two-musts-reversed", "/c/mm", `deviate delete { must "m3"; must "m1"; }`, true, []string{"must["}, false, map[string][]string{"must[": {`must[0]="m2" msg="" tag=""`}}},
		{"delete/middle-must", "/c/mm", `deviate delete { must "m2"; }`, true, []string{"must["}, false, map[string][]string{"must[": {`must[0]="m1" msg="" tag=""`, `must[1]="m3" msg="" tag=""`}}},
		{"delete/all-musts", "/c/mm", `deviate delete { must "m2"; must "m3"; must "m1"; }`, true, []string{"must["}, false, map[string][]string{"must[": {}}},
		{"delete/two-musts-in-two-deviates", "/c/mm", `deviate delete { must "m1"; } deviate delete { must "m3"; }`, true, []string{"must["}, false, map[string][]string{"must[": {`must[0]="m2" msg="" tag=""`}}},
		{"add/two-musts", "/c/mm", `deviate add { must "z1"; must "z2"; }`, true, []string{"must["}, false, map[string][]string{"must[": {`must[0]="m1" msg="" tag=""`, `must[1]="m2" msg="" tag=""`, `must[2]="m3" msg="" tag=""`, `must[3]="z1" msg="" tag=""`, `must[4]="z2" msg="" tag=""`}}},
		{"delete/two-uniques", "/c/l3", `deviate delete { unique "u1"; unique "u1 u2"; }`, true, []string{"unique="}, false, map[string][]string{"unique=": {"unique=[[u2]]"}}},
		{"delete/middle-unique", "/c/l3", `deviate delete { unique "u2"; }`, true, []string{"unique="}, false, map[string][]string{"unique=": {"unique=[[u1] [u1 u2]]"}}},
		{"delete/unique-keeps-field-order-of-others", "/c/l4", `deviate delete { unique "u1"; }`, true, []string{"unique="}, false, map[string][]string{"unique=": {"unique=[[u2 u1]]"}}},
		{"delete/unique-given-in-another-field-order", "/c/l4", `deviate delete { unique "u1 u2"; }`, true, []string{"unique="}, false, map[string][]string{"unique=": {"unique=[[u1]]"}}},
		{"delete/unique-of-the-same-length-as-a-survivor", "/c/l4", `deviate delete { unique "u1"; }`, true, []string{"unique="}, false, map[string][]string{"unique=": {"unique=[[u2 u1]]"}}},
		{"delete/one-of-two-uniques-of-the-same-length", "/c/l5", `deviate delete { unique "u1 u2"; }`, true, []string{"unique="}, false, map[string][]string{"unique=": {"unique=[[u3 u1]]"}}},
		{"add/two-uniques", "/c/li", `deviate add { unique "u1"; unique "u2"; }`, true, []string{"unique="}, false, map[string][]string{"unique=": {"unique=[[u1 u2] [u1] [u2]]"}}},
		{"delete/must-units-default", "/c/mm", `deviate delete { units "cm"; must "m2"; default "d"; }`, true, []string{"must[", "units=", "default="}, false, map[string][]string{"must[": {`must[0]="m1" msg="" tag=""`, `must[1]="m3" msg="" tag=""`}, "units=": {`units=""`}}},
		{"replace/units-default-config", "/c/lf", `deviate replace { units "mm"; default "e"; config false; }`, true, []string{"units=", "default=", "config="}, false, map[string][]string{"units=": {`units="mm"`}, "default=": {"default=e"}, "config=": {"config=false"}}},
		{"add/units-default-must", "/c/plain", `deviate add { units "m"; default "x"; must "z"; }`, true, []string{"units=", "default=", "must["}, false, map[string][]string{"units=": {`units="m"`}, "default=": {"default=x"}, "must[": {`must[0]="z" msg="" tag=""`}}},
		{"two-deviates", "/c/lf", `deviate replace { units "mm"; } deviate delete { default "d"; }`, true, []string{"units=", "default="}, false, nil},
		{"missing-target", "/c/nope", `deviate not-supported;`, false, nil, false, nil},
	}
}

func c11RunDeviation(idx int, res *eng.Result, ss *sigSet) {
	d := c11Deviations()[idx]
	hdr := `module dv { namespace "urn:dv"; prefix dv; revision 0; `
	baseText := hdr + c11DevBody + "}"
	devText := hdr + c11DevBody + fmt.Sprintf(`deviation "%s" { %s } }`, d.target, d.deviate)
	res.Evals++
	res.Nontriv++
	site := "C11/deviation/" + d.name
	bm, berr, bfr, _ := c11Load(baseText, nil, nil)
	if bfr != "" || berr != nil {
		ss.add("C11/harness/deviation-base-does-not-load", fmt.Sprint(berr, bfr))
		return
	}
	dm, derr, dfr, dmsg := c11Load(devText, nil, nil)
	switch {
	case dfr != "":
		ss.add(site+"/panic:"+dfr, dmsg)
		return
	case !d.legal:
		if derr == nil {
			ss.add(site+"/illegal-deviation-accepted", devText[len(hdr)+len(c11DevBody):])
		}
		return
	case derr != nil:
		ss.add(site+"/legal-deviation-rejected", derr.Error())
		return
	}
	onlyBase, onlyDev := model.DiffDumps(model.DumpModule(bm, model.FullDump()), model.DumpModule(dm, model.FullDump()))
	path := d.target
	if strings.HasPrefix(d.name, "not-supported/choice-member") {
		path = "/c/ch/ca/cl"
	}
	if d.removed {
		parent := path[:strings.LastIndex(path, "/")]
		for _, l := range onlyBase {
			lp := l[:strings.Index(l, ": ")]
			ok := lp == path || strings.HasPrefix(lp, path+"/") || (lp == parent && (strings.Contains(l, ": children=") || strings.Contains(l, ": actions=") || strings.Contains(l, ": notifications=")))
			if !ok {
				ss.add(site+"/removed-more-than-the-target", l)
				return
			}
		}
		stillThere := false
		for _, l := range model.DumpModule(dm, model.FullDump()) {
			if strings.HasPrefix(l, path+": ") {
				stillThere = true
			}
		}
		if stillThere {
			ss.add(site+"/target-still-present", path)
		}
		for _, l := range onlyDev {
			lp := l[:strings.Index(l, ": ")]
			if !(lp == parent && (strings.Contains(l, ": children=") || strings.Contains(l, ": actions=") || strings.Contains(l, ": notifications="))) {
				ss.add(site+"/something-added", l)
				return
			}
		}
		return
	}
	changed := func(l string) bool {
		if !strings.HasPrefix(l, path+": ") {
			return false
		}
		for _, e := range d.expect {
			if strings.Contains(l, ": "+e) {
				return true
			}
		}
		// a type replacement legitimately changes every type.* line of the leaf
		if strings.Contains(d.name, "replace/type") && strings.Contains(l, ": type.") {
			return true
		}
		return false
	}
	for _, l := range append(append([]string{}, onlyBase...), onlyDev...) {
		if !changed(l) {
			ss.add(site+"/changed-something-else", l)
			return
		}
	}
	for _, e := range d.expect {
		hit := false
		for _, l := range append(append([]string{}, onlyBase...), onlyDev...) {
			if strings.HasPrefix(l, path+": "+e) {
				hit = true
			}
		}
		if !hit {
			ss.add(site+"/property-not-changed", e+" of "+path)
			return
		}
	}
	// the exact new value
	want := map[string]string{
		"add/units": `units="m"`, "add/default": "default=x", "add/config": "config=false", "add/mandatory": "mandatory=true", "add/must": `must[0]="z"`, "add/must-second": `must[1]="z"`,
		"replace/units": `units="mm"`, "replace/default": "default=e", "replace/config": "config=false", "replace/mandatory": "mandatory=true", "replace/max-elements": "max-elements=3", "replace/min-elements": "min-elements=2", "replace/max-elements-list": "max-elements=3",
		"replace/type": "type.format=int32", "replace/leaf-list-defaults": "default=[z]", "delete/units": `units=""`,
	}
	if w, ok := want[d.name]; ok {
		hit := false
		for _, l := range onlyDev {
			if strings.HasPrefix(l, path+": "+w) {
				hit = true
			}
		}
		if !hit {
			ss.add(site+"/wrong-new-value", fmt.Sprintf("want %s; deviated lines: %v", w, onlyDev))
		}
	}
	for prefix, lines := range d.exact {
		var got []string
		for _, l := range model.DumpModule(dm, model.FullDump()) {
			if strings.HasPrefix(l, path+": "+prefix) {
				got = append(got, strings.TrimPrefix(l, path+": "))
			}
		}
		if strings.Join(got, "\n") != strings.Join(lines, "\n") {
			ss.add(site+"/wrong-result:"+strings.Trim(prefix, "[="), fmt.Sprintf("after %s the target has %q, want %q", d.deviate, got, lines))
		}
	}
	if strings.HasPrefix(d.name, "add/must") || d.name == "delete/must" {
		n := 0
		for _, l := range onlyDev {
			if strings.Contains(l, ": must[") {
				n++
			}
		}
		if strings.HasPrefix(d.name, "add/must") && n != 1 {
			ss.add(site+"/must-added-"+fmt.Sprint(n)+"-times", fmt.Sprint(onlyDev))
		}
	}
}
