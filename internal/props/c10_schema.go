package props

import (
	"fmt"
	"math/big"
	"reflect"
	"sort"
	"strings"

	"github.com/freeconf/yang/meta"
	"github.com/freeconf/yang/node"
	"github.com/freeconf/yang/val"
	"verif/internal/eng"
	"verif/internal/model"
)

// C10 part "schema": node.NewValue(type, source) for the schema-defined
// types: enumeration (by value and by name), bits (by names and by position
// mask), identityref, union and leafref (delegating to the target's type),
// with every source kind and boundary value of the "conv" part, as scalars
// and as lists. The reference knows what each source denotes (number / text /
// bool) and which values / names the type defines.

func init() {
	model.Schemas["conv"] = `module conv { namespace "urn:conv"; prefix cv; revision 0;
  identity base-id; identity id-a { base base-id; } identity id-b { base id-a; } identity other;
  leaf e { type enumeration { enum zero; enum one; enum five { value 5; } enum big { value 2147483647; } } }
  leaf-list le { type enumeration { enum zero; enum one; enum five { value 5; } enum big { value 2147483647; } } }
  leaf e2 { type enumeration { enum mid { value 1; } enum low { value 0; } enum high; } }
  leaf e3 { type enumeration { enum freezing { value -1; } enum cold; enum warm; enum hot { value 3; } } }
  leaf e4 { type enumeration { enum ten { value 10; } enum neg { value -5; } enum two { value 2; } enum one { value 1; } } }
  leaf-list le3 { type enumeration { enum freezing { value -1; } enum cold; enum warm; enum hot { value 3; } } }
  leaf b { type bits { bit x; bit y; bit z { position 5; } bit top { position 31; } } }
  leaf-list lb { type bits { bit x; bit y; bit z { position 5; } bit top { position 31; } } }
  leaf idr { type identityref { base base-id; } }
  leaf-list lidr { type identityref { base base-id; } }
  leaf i8 { type int8; }
  leaf u64 { type uint64; }
  leaf r8 { type leafref { path "../i8"; } }
  leaf r64 { type leafref { path "../u64"; } }
  leaf-list lr8 { type leafref { path "../i8"; } }
  leaf un { type union { type int8; type boolean; } }
  leaf us { type union { type uint8; type string; } }
}`
}

var c10SchemaLeaves = []string{"e", "le", "e2", "e3", "e4", "le3", "b", "lb", "idr", "lidr", "r8", "r64", "lr8", "un", "us"}

func c10SchemaCases(tier string, emit func(interface{})) {
	for _, lf := range c10SchemaLeaves {
		for _, k := range c10Kinds {
			emit(c10Case{Part: "schema", Schema: lf, Kind: k})
		}
	}
}

var c10Enum = map[string]int64{"zero": 0, "one": 1, "five": 5, "big": 2147483647}

// enumerations whose values are not in the order of declaration, start below zero or have gaps
var c10Enums = map[string]map[string]int64{"e": c10Enum, "le": c10Enum,
	"e2": {"mid": 1, "low": 0, "high": 2}, "e3": {"freezing": -1, "cold": 0, "warm": 1, "hot": 3}, "le3": {"freezing": -1, "cold": 0, "warm": 1, "hot": 3},
	"e4": {"ten": 10, "neg": -5, "two": 2, "one": 1}}
var c10Bits = map[string]uint{"x": 0, "y": 1, "z": 5, "top": 31}
var c10Idents = map[string]bool{"id-a": true, "id-b": true}

func c10BitMask() uint64 {
	var m uint64
	for _, p := range c10Bits {
		m |= 1 << p
	}
	return m
}

// c10SrcClass classifies a source for signatures (no values).
func c10SrcClass(s srcVal) string {
	switch {
	case s.boo != nil:
		return "bool"
	case s.num != nil && s.txt != nil:
		return "numeric-text"
	case s.num != nil && !s.num.IsInt():
		return "fraction"
	case s.num != nil && s.num.Sign() < 0:
		return "negative"
	case s.num != nil && s.num.Num().BitLen() > 31:
		return "beyond-31-bits"
	case s.num != nil:
		return "small-integer"
	case s.txt != nil:
		return "text"
	}
	if s.class != "" {
		return s.class
	}
	return "other"
}

// checkEnum: an accepted source must denote the value or the name of the enum returned.
func c10CheckEnum(leaf string, s srcVal, got val.Value) (sym, what string) {
	e, ok := got.(val.Enum)
	if !ok {
		return "wrong-type", fmt.Sprintf("result is %T", got)
	}
	id, defined := c10Enums[leaf][e.Label]
	if !defined || int64(e.Id) != id {
		return "undefined-enum-returned", fmt.Sprintf("result %v is not an enum of the type", e)
	}
	if s.txt != nil && *s.txt == e.Label {
		return "", ""
	}
	if s.num != nil && s.num.IsInt() && s.num.Num().IsInt64() && s.num.Num().Int64() == id {
		return "", ""
	}
	return "different-value", fmt.Sprintf("source %s does not denote enum %s(%d)", s.lbl, e.Label, e.Id)
}

func c10CheckBits(s srcVal, got val.Value) (sym, what string) {
	b, ok := got.(val.Bits)
	if !ok {
		return "wrong-type", fmt.Sprintf("result is %T", got)
	}
	// labels and positions of the result must agree with each other and the type
	var fromLabels uint64
	for _, l := range b.Labels {
		p, ok := c10Bits[l]
		if !ok {
			return "undefined-bit-returned", fmt.Sprintf("result names bit %q", l)
		}
		fromLabels |= 1 << p
	}
	if fromLabels != b.Positions {
		return "labels-disagree-with-positions", fmt.Sprintf("labels %v positions %b", b.Labels, b.Positions)
	}
	switch {
	case s.num != nil && s.txt == nil:
		if !s.num.IsInt() || s.num.Sign() < 0 || !s.num.Num().IsUint64() || s.num.Num().Uint64() != b.Positions {
			return "different-number", fmt.Sprintf("source %s accepted as bit mask %d (%v)", s.lbl, b.Positions, b.Labels)
		}
	case s.txt != nil:
		var want uint64
		for _, w := range strings.Fields(*s.txt) {
			p, ok := c10Bits[w]
			if !ok {
				return "unknown-name-accepted", fmt.Sprintf("source %q accepted as %v", *s.txt, b.Labels)
			}
			want |= 1 << p
		}
		if want != b.Positions {
			return "different-bits", fmt.Sprintf("source %q accepted as %v", *s.txt, b.Labels)
		}
	default:
		return "non-number-accepted", fmt.Sprintf("source %s accepted as %v", s.lbl, b.Labels)
	}
	return "", ""
}

func c10CheckIdent(s srcVal, got val.Value) (sym, what string) {
	r, ok := got.(val.IdentRef)
	if !ok {
		return "wrong-type", fmt.Sprintf("result is %T", got)
	}
	if !c10Idents[r.Label] {
		return "undefined-identity-returned", fmt.Sprintf("result %q is not derived from the base", r.Label)
	}
	if s.txt == nil {
		return "non-text-accepted", fmt.Sprintf("source %s accepted as identity %s", s.lbl, r.Label)
	}
	t := *s.txt
	if t != r.Label && t != "conv:"+r.Label && t != "cv:"+r.Label {
		return "different-identity", fmt.Sprintf("source %q accepted as identity %s", t, r.Label)
	}
	return "", ""
}

// extra text sources for the named types (added to the "string" kind)
func c10NameSources() []srcVal {
	var out []srcVal
	for _, t := range []string{"zero", "one", "five", "big", "mid", "low", "high", "freezing", "cold", "warm", "hot", "ten", "neg", "two", "Zero", "zer", "zero ", "x", "y", "z", "top", "x y", "y x z top", "x  y", "x q", "x,y", "X",
		"id-a", "id-b", "base-id", "other", "conv:id-a", "cv:id-b", "zz:id-a", "conv:other", ":id-a", "id-a:", "true", "false", ""} {
		tt := t
		sv := srcVal{v: tt, txt: &tt, lbl: fmt.Sprintf("%q", tt), class: "name-text"}
		if tt == "true" || tt == "false" {
			b := tt == "true"
			sv.boo = &b
		}
		out = append(out, sv)
	}
	return out
}

func c10RunSchema(c c10Case) eng.Result {
	var res eng.Result
	ss := &sigSet{res: &res}
	m := model.Schema("conv")
	lf := model.DefAt(m, c.Schema).(meta.Leafable)
	typ := lf.Type()
	isList := typ.Format().IsList()
	srcs := c10Sources(c.Kind)
	if c.Kind == "string" {
		srcs = append(srcs, c10NameSources()...)
	}
	ocs := map[string]bool{}
	target := map[string]string{"e": "enum", "le": "enum", "e2": "enum", "e3": "enum", "e4": "enum", "le3": "enum", "b": "bits", "lb": "bits", "idr": "identityref", "lidr": "identityref", "r8": "int8", "r64": "uint64", "lr8": "int8", "un": "union", "us": "union"}[c.Schema]
	site := fmt.Sprintf("C10/schema/%s%s/%s", target, map[bool]string{true: "-list", false: ""}[isList], kindGroup(c.Kind))
	if strings.HasPrefix(c.Schema, "r") || c.Schema == "lr8" {
		site = fmt.Sprintf("C10/schema/leafref-to-%s%s/%s", target, map[bool]string{true: "-list", false: ""}[isList], kindGroup(c.Kind))
	}
	checkOne := func(s srcVal, it val.Value) (string, string) {
		switch target {
		case "enum":
			return c10CheckEnum(c.Schema, s, it)
		case "bits":
			return c10CheckBits(s, it)
		case "identityref":
			return c10CheckIdent(s, it)
		case "int8", "uint64":
			if f := it.Format().Single(); f.String() != target {
				return "wrong-format", fmt.Sprintf("result format %s", it.Format())
			}
			return checkScalar(target, s, it.Value(), it.String())
		case "union":
			members := map[string][]string{"un": {"int8", "boolean"}, "us": {"uint8", "string"}}[c.Schema]
			for _, mt := range members {
				if it.Format().String() == mt {
					return checkScalar(mt, s, it.Value(), it.String())
				}
			}
			return "result-not-a-member-type", fmt.Sprintf("result format %s", it.Format())
		}
		return "", ""
	}
	one := func(input interface{}, elems []srcVal, shape string) {
		var v val.Value
		var err error
		fr, msg, pan := eng.Recover(func() { v, err = node.NewValue(typ, input) })
		res.Evals++
		res.Nontriv++
		if pan {
			ss.add(site+"/"+c10SrcClass(elems[len(elems)-1])+"/panic:"+fr, fmt.Sprintf("NewValue(%s, %s%s) panics: %s", c.Schema, elems[len(elems)-1].lbl, shape, msg))
			return
		}
		if err != nil {
			ocs["error"] = true
			return
		}
		if v == nil {
			ocs["nil"] = true
			ss.add(site+"/"+c10SrcClass(elems[len(elems)-1])+"/nil-without-error", fmt.Sprintf("NewValue(%s, %T %s%s) returned (nil, nil)", c.Schema, input, elems[len(elems)-1].lbl, shape))
			return
		}
		ocs["ok"] = true
		if !isList {
			if sym, what := checkOne(elems[0], v); sym != "" {
				ss.add(site+"/"+c10SrcClass(elems[0])+"/"+sym, fmt.Sprintf("NewValue(%s, %T %s): %s", c.Schema, elems[0].v, elems[0].lbl, what))
			}
			return
		}
		l, ok := v.(val.Listable)
		if !ok {
			ss.add(site+"/not-listable", fmt.Sprintf("NewValue(%s, …) result %T is not a list", c.Schema, v))
			return
		}
		if target == "bits" && shape == "/single" && elems[0].txt != nil {
			// a single string for a list of bits is one element holding several names
			if l.Len() != 1 {
				ss.add(site+"/wrong-length", fmt.Sprintf("NewValue(%s, %s) has %d elements", c.Schema, elems[0].lbl, l.Len()))
				return
			}
		} else if l.Len() != len(elems) {
			ss.add(site+"/"+c10SrcClass(elems[len(elems)-1])+"/wrong-length", fmt.Sprintf("NewValue(%s, %d elements %s) has %d elements", c.Schema, len(elems), shape, l.Len()))
			return
		}
		for i, e := range elems {
			if i >= l.Len() {
				break
			}
			if sym, what := checkOne(e, l.Item(i)); sym != "" {
				ss.add(site+"/"+c10SrcClass(e)+"/"+sym, fmt.Sprintf("NewValue(%s, %s element %d %T %s): %s", c.Schema, shape, i, e.v, e.lbl, what))
			}
		}
	}
	one0 := big.NewRat(1, 1)
	small := srcVal{v: int(1), num: one0, lbl: "1"}
	for _, s := range srcs {
		if !isList {
			one(s.v, []srcVal{s}, "")
			continue
		}
		one(s.v, []srcVal{s}, "/single")
		rt := reflect.TypeOf(s.v)
		sl := reflect.MakeSlice(reflect.SliceOf(rt), 0, 2)
		sl1 := reflect.Append(sl, reflect.ValueOf(s.v))
		one(sl1.Interface(), []srcVal{s}, "/typed-slice")
		sl2 := reflect.Append(sl1, reflect.ValueOf(srcs[0].v))
		one(sl2.Interface(), []srcVal{s, srcs[0]}, "/typed-slice")
		one([]interface{}{small.v, s.v}, []srcVal{small, s}, "/iface-slice")
	}
	for k := range ocs {
		res.Outcomes = append(res.Outcomes, "schema:"+c.Schema+":"+k)
	}
	sort.Strings(res.Outcomes)
	return res
}
