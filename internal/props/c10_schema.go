package props

import "verif/internal/eng"

func c10SchemaCases(tier string, emit func(interface{})) {}

func c10RunSchema(c c10Case) eng.Result { return eng.Result{} }
