package props

import (
	"fmt"

	"github.com/freeconf/yang/node"
	"github.com/freeconf/yang/nodeutil"
	"verif/internal/eng"
	"verif/internal/model"
)

// C18 part "accessor": a Go struct whose members are reached through GetX / SetX methods
// only (no exported field of that name), served by nodeutil.Node. Deleting or replacing one
// member must leave the others alone.

func init() {
	model.Schemas["acc"] = `module acc { namespace "urn:acc"; prefix acc; revision 0;
  leaf name { type string; }
  leaf keep { type string; }
  container sub { leaf x { type string; } }
  container other { leaf y { type string; } }
}`
	model.Schemas["accro"] = `module accro { namespace "urn:accro"; prefix accro; revision 0;
  leaf label { type string; }
  leaf keep { type string; }
  container ro { leaf x { type string; } }
}`
}

// c18AccRO: members that can be read but not written (no SetX method, no exported field). An
// edit of such a member either fails or takes effect; it never reports success and does nothing.
type c18AccRO struct {
	label string
	ro    *c18AccSub
	Keep  string
}

func (a *c18AccRO) GetLabel() string  { return a.label }
func (a *c18AccRO) GetRo() *c18AccSub { return a.ro }
func (a *c18AccRO) String() string {
	r := "<nil>"
	if a.ro != nil {
		r = "{x=" + a.ro.X + "}"
	}
	return fmt.Sprintf("{label=%q keep=%q ro=%s}", a.label, a.Keep, r)
}

type c18AccSub struct{ X string }
type c18AccOther struct{ Y string }

type c18Acc struct {
	name  string
	sub   *c18AccSub
	other *c18AccOther
	Keep  string
}

func (a *c18Acc) GetName() string         { return a.name }
func (a *c18Acc) SetName(s string)        { a.name = s }
func (a *c18Acc) GetSub() *c18AccSub      { return a.sub }
func (a *c18Acc) SetSub(s *c18AccSub)     { a.sub = s }
func (a *c18Acc) GetOther() *c18AccOther  { return a.other }
func (a *c18Acc) SetOther(o *c18AccOther) { a.other = o }
func (a *c18Acc) String() string {
	s, o := "<nil>", "<nil>"
	if a.sub != nil {
		s = "{x=" + a.sub.X + "}"
	}
	if a.other != nil {
		o = "{y=" + a.other.Y + "}"
	}
	return fmt.Sprintf("{name=%q keep=%q sub=%s other=%s}", a.name, a.Keep, s, o)
}

func c18RunAccessor() eng.Result {
	var res eng.Result
	m := model.SharedSchema("acc")
	type step struct {
		name string
		do   func(b *node.Browser) error
		want string
	}
	find := func(b *node.Browser, p string) *node.Selection {
		s, err := b.Root().Find(p)
		if err != nil || s == nil {
			panic(fmt.Sprintf("harness: Find(%s): %v", p, err))
		}
		return s
	}
	scenarios := [][]step{
		{{"delete-container", func(b *node.Browser) error { return find(b, "sub").Delete() }, `{name="n" keep="k" sub=<nil> other={y=y}}`}},
		{{"delete-other-container", func(b *node.Browser) error { return find(b, "other").Delete() }, `{name="n" keep="k" sub={x=x} other=<nil>}`}},
		{{"replace-container", func(b *node.Browser) error {
			n, _ := nodeutil.ReadJSON(`{"sub":{"x":"new"}}`)
			return find(b, "sub").ReplaceFrom(n)
		}, `{name="n" keep="k" sub={x=new} other={y=y}}`}},
		{{"delete-both", func(b *node.Browser) error {
			if err := find(b, "sub").Delete(); err != nil {
				return err
			}
			return find(b, "other").Delete()
		}, `{name="n" keep="k" sub=<nil> other=<nil>}`}},
		{{"upsert-leaf-then-delete-container", func(b *node.Browser) error {
			n, _ := nodeutil.ReadJSON(`{"name":"m"}`)
			if err := b.Root().UpsertFrom(n); err != nil {
				return err
			}
			return find(b, "sub").Delete()
		}, `{name="m" keep="k" sub=<nil> other={y=y}}`}},
	}
	for _, sc := range scenarios {
		obj := &c18Acc{name: "n", Keep: "k", sub: &c18AccSub{X: "x"}, other: &c18AccOther{Y: "y"}}
		b := node.NewBrowser(m, &nodeutil.Node{Object: obj})
		for _, st := range sc {
			var err error
			fr, msg, pan := eng.Recover(func() { err = st.do(b) })
			res.Evals++
			res.Nontriv++
			res.States++
			site := "C18/accessor-struct/" + st.name
			switch {
			case pan:
				res.Add(site+"/panic:"+fr, msg)
			case err != nil:
				res.Add(site+"/error-on-valid", err.Error())
			case obj.String() != st.want:
				res.Add(site+"/wrong-result", fmt.Sprintf("object is %s, want %s", obj, st.want))
			}
		}
	}
	mro := model.SharedSchema("accro")
	for _, st := range []step{
		{"delete-container-without-setter", func(b *node.Browser) error { return find(b, "ro").Delete() }, `{label="l" keep="k" ro=<nil>}`},
		{"clear-leaf-without-setter", func(b *node.Browser) error {
			n, _ := nodeutil.ReadJSON(`{"keep":"k2"}`)
			return b.Root().ReplaceFrom(n)
		}, `{label="" keep="k2" ro=<nil>}`},
		{"upsert-leaf-without-setter", func(b *node.Browser) error {
			n, _ := nodeutil.ReadJSON(`{"label":"new"}`)
			return b.Root().UpsertFrom(n)
		}, `{label="new" keep="k" ro={x=x}}`},
		{"upsert-into-container-without-setter", func(b *node.Browser) error {
			n, _ := nodeutil.ReadJSON(`{"ro":{"x":"new"}}`)
			return b.Root().UpsertFrom(n)
		}, `{label="l" keep="k" ro={x=new}}`},
	} {
		obj := &c18AccRO{label: "l", Keep: "k", ro: &c18AccSub{X: "x"}}
		b := node.NewBrowser(mro, &nodeutil.Node{Object: obj})
		var err error
		fr, msg, pan := eng.Recover(func() { err = st.do(b) })
		res.Evals++
		res.Nontriv++
		res.States++
		site := "C18/accessor-struct/" + st.name
		switch {
		case pan:
			res.Add(site+"/panic:"+fr, msg)
		case err == nil && obj.String() != st.want:
			res.Add(site+"/success-reported-nothing-done", fmt.Sprintf("no error, object is %s, the edit asks for %s", obj, st.want))
		}
	}
	c18RootList(&res)
	c18NodeHooks(&res)
	res.Outcomes = []string{"accessor-struct"}
	return res
}

// c18RootList: the list is served by nodeutil.ReflectList given directly by a hand-written parent node
// (the shape of testdata/bird.go), over a Go map and over a Go slice. Deleting every entry in turn
// must not crash; for the map, which the node shares with its owner, exactly that entry is gone.
func c18RootList(res *eng.Result) {
	m := model.SharedSchema("base")
	type row struct {
		K string
		V int
		W string
	}
	for _, layout := range []string{"map", "slice"} {
		for _, victim := range []string{"a", "b", "c"} {
			rows := map[string]*row{"a": {K: "a", V: 1}, "b": {K: "b", V: 2}, "c": {K: "c", V: 3}}
			var list interface{} = rows
			if layout == "slice" {
				list = []*row{rows["a"], rows["b"], rows["c"]}
			}
			root := &nodeutil.Basic{OnChild: func(r node.ChildRequest) (node.Node, error) {
				if r.Meta.Ident() == "l" {
					return nodeutil.ReflectList(list), nil
				}
				return nil, nil
			}}
			b := node.NewBrowser(m, root)
			var err error
			fr, msg, pan := eng.Recover(func() {
				var sel *node.Selection
				if sel, err = b.Root().Find("l=" + victim); err == nil && sel != nil {
					err = sel.Delete()
				} else if err == nil {
					err = fmt.Errorf("harness: entry %s not found", victim)
				}
			})
			res.Evals++
			res.Nontriv++
			res.States++
			site := "C18/reflect-list-given-by-parent/" + layout + "/delete-entry"
			switch {
			case pan:
				res.Add(site+"/panic:"+fr, fmt.Sprintf("Delete of l=%s: %s", victim, msg))
			case err != nil:
				res.Add(site+"/error-on-valid", err.Error())
			case layout == "map":
				if _, still := rows[victim]; still || len(rows) != 2 {
					res.Add(site+"/wrong-result", fmt.Sprintf("after Delete of l=%s the map holds %d entries", victim, len(rows)))
				}
			}
		}
	}
}

// c18NodeHooks: nodeutil.Node with one of its list hooks set (the other left to the default): a
// delete by key removes exactly the entry, the delete hook - when given - is the one that is asked.
func c18NodeHooks(res *eng.Result) {
	m := model.SharedSchema("base")
	type row struct {
		K string
		V int
	}
	type holder struct{ L []*row }
	for _, hook := range []string{"get-only", "delete-only", "both", "none"} {
		obj := &holder{L: []*row{{K: "a", V: 1}, {K: "b", V: 2}, {K: "c", V: 3}}}
		deleteAsked := 0
		n := &nodeutil.Node{Object: obj}
		if hook == "get-only" || hook == "both" {
			n.OnGetByKey = func(x *nodeutil.Node, r node.ListRequest) (node.Node, error) { return x.DoGetByKey(r) }
		}
		if hook == "delete-only" || hook == "both" {
			n.OnDeleteByKey = func(x *nodeutil.Node, r node.ListRequest) error {
				deleteAsked++
				return x.DoDeleteByKey(r)
			}
		}
		b := node.NewBrowser(m, n)
		var err error
		fr, msg, pan := eng.Recover(func() {
			var sel *node.Selection
			if sel, err = b.Root().Find("l=b"); err == nil && sel != nil {
				err = sel.Delete()
			} else if err == nil {
				err = fmt.Errorf("harness: entry not found")
			}
		})
		res.Evals++
		res.Nontriv++
		res.States++
		site := "C18/node-list-hooks/" + hook + "/delete-entry"
		var left []string
		for _, r := range obj.L {
			left = append(left, r.K)
		}
		switch {
		case pan:
			res.Add(site+"/panic:"+fr, msg)
		case err != nil:
			res.Add(site+"/error-on-valid", err.Error())
		case fmt.Sprint(left) != "[a c]":
			res.Add(site+"/wrong-result", fmt.Sprintf("entries left: %v", left))
		case (hook == "delete-only" || hook == "both") && deleteAsked != 1:
			res.Add(site+"/delete-hook-not-asked", fmt.Sprintf("OnDeleteByKey called %d times", deleteAsked))
		}
	}
}
