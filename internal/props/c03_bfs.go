package props

import (
	"encoding/json"
	"fmt"

	"github.com/freeconf/yang/meta"
	"verif/internal/eng"
	"verif/internal/model"
)

// BFS over edit histories: state = canonical store content; every transition
// is compared with the merge model applied to the previous (inspected) state.

type c03Inst struct {
	env *dataEnv
}

type c03BfsOp struct {
	Strat string
	Entry string
	S     *model.Tree
}

func c03OpAlphabet(m *meta.Module, schema string, a model.Alpha) []c03BfsOp {
	var ops []c03BfsOp
	for _, entry := range c03Entries[schema] {
		ep := entryPoint{entry}
		for _, s := range c03Sources(m, ep, 2, a) {
			if s.Empty() {
				continue
			}
			for _, strat := range []string{"upsert", "insert", "update"} {
				ops = append(ops, c03BfsOp{strat, entry, s})
			}
		}
	}
	return ops
}

func c03Step(c c03Case, inst *c03Inst, op c03BfsOp) []eng.StepViol {
	env := inst.env
	ep := entryPoint{op.Entry}
	before := env.snap()
	strat := stratOf(op.Strat)
	if _, ok := modelEdit(env.m, ep, strat, op.S, before.Clone(), false); !ok {
		return nil // entry point absent in this state: operation not enabled
	}
	cc := c
	cc.Strat, cc.Entry, cc.Dir = op.Strat, op.Entry, "from"
	site := "C03/bfs/" + c03Site(cc, env.m)[4:]
	out, applicable := applyEdit(env, ep, c.Source, strat, "from", op.S)
	desc := fmt.Sprintf("%s at %q S=%s on state %s", op.Strat, op.Entry, op.S, before)
	if sig, what, _ := c03Judge(env, site, ep, strat, op.S, before, out, applicable, desc); sig != "" {
		return []eng.StepViol{{Sig: sig, What: what}}
	}
	return nil
}

func c03RunBFS(c c03Case) eng.Result {
	var res eng.Result
	m := model.SharedSchema(c.Schema)
	alphabet := c03OpAlphabet(m, c.Schema, c03Alpha(c.Store))
	ex := eng.Explorer[*c03Inst, c03BfsOp]{
		New: func() *c03Inst { return &c03Inst{env: newEnv(c.Schema, c.Store)} },
		Ops: func(inst *c03Inst) []c03BfsOp {
			var en []c03BfsOp
			snap := inst.env.snap()
			for _, op := range alphabet {
				tt, tl := entryPoint{op.Entry}.locate(m, snap)
				if tt != nil || tl != nil {
					en = append(en, op)
				}
			}
			return en
		},
		Step: func(inst *c03Inst, op c03BfsOp) []eng.StepViol { return c03Step(c, inst, op) },
		Key: func(inst *c03Inst) string {
			return inst.env.snap().Canon(m.DataDefinitions(), inst.env.canonOpts())
		},
		Depth: c.Depth,
	}
	r := ex.Run()
	res.States, res.Transitions, res.Evals = r.States, r.Transitions, r.Transitions
	res.Nontriv = r.States - 1
	res.Capped = r.Capped
	for _, v := range r.Viols {
		rc := c
		rc.Part = "history"
		for _, h := range v.History {
			sj, _ := json.Marshal(treeJSON(m, entryPoint{h.Entry}, h.S, true))
			rc.Ops = append(rc.Ops, c03Op{Strat: h.Strat, Entry: h.Entry, SDesc: string(sj)})
		}
		res.AddCase(v.Sig, fmt.Sprintf("after %d operations: %s", len(v.History), v.What), rc)
	}
	res.Outcomes = []string{fmt.Sprintf("bfs:%s:%s:closed=%v", c.Schema, c.Store, r.Closed)}
	res.Sample = map[string]interface{}{"bfs": c.Schema + "/" + c.Store, "alphabet": len(alphabet), "states": r.States, "transitions": r.Transitions, "depth": r.MaxDepth, "closed": r.Closed}
	return res
}

func c03RunHistory(c c03Case) eng.Result {
	var res eng.Result
	m := model.SharedSchema(c.Schema)
	inst := &c03Inst{env: newEnv(c.Schema, c.Store)}
	for i, o := range c.Ops {
		ep := entryPoint{o.Entry}
		var defs []meta.Definition
		if ep.kind(m) == "list" {
			defs = []meta.Definition{ep.def(m)}
		} else {
			defs = ep.defs(m)
		}
		s, err := model.FromJSON(defs, []byte(o.SDesc))
		if err != nil {
			panic(err)
		}
		for _, v := range c03Step(c, inst, c03BfsOp{o.Strat, o.Entry, s}) {
			res.Add(v.Sig, fmt.Sprintf("after %d operations: %s", i+1, v.What))
		}
	}
	return res
}
