package props

import (
	"fmt"
	"math/big"
	"reflect"
	"sort"
	"strings"

	"github.com/freeconf/yang/meta"
	"github.com/freeconf/yang/node"
	"github.com/freeconf/yang/nodeutil"
	"github.com/freeconf/yang/val"
	"verif/internal/eng"
	"verif/internal/model"
	"verif/internal/store"
)

// C17 part "lookup": a list kept in a Go slice or map finds, for every key
// type, exactly the entry whose key equals the requested key, and none when
// there is none.
//
// One case = (list implementation, key type). Inside a case every list content
// (every ordered arrangement of <= c17LookupMax distinct keys of the type's
// 5-key alphabet, including the empty list) is loaded directly into a fresh
// Go object, and every key of the alphabet is looked up through Selection.Find.
// The entry found must be the one the content holds under that key (its
// payload leaf is the entry's position, so a neighbour is told apart); absent
// keys give (nil,nil); a walk over the whole list meets every entry once; the
// content is unchanged afterwards.

func init() {
	model.Schemas["lookup"] = `module lookup { namespace "urn:lookup"; prefix lk; revision 0;
  identity b; identity i0 { base b; } identity i1 { base b; } identity i2 { base b; } identity i3 { base b; } identity i4 { base b; }
  list string { key k; leaf k { type string; } leaf v { type int32; } }
  list int8 { key k; leaf k { type int8; } leaf v { type int32; } }
  list int16 { key k; leaf k { type int16; } leaf v { type int32; } }
  list int32 { key k; leaf k { type int32; } leaf v { type int32; } }
  list int64 { key k; leaf k { type int64; } leaf v { type int32; } }
  list uint8 { key k; leaf k { type uint8; } leaf v { type int32; } }
  list uint16 { key k; leaf k { type uint16; } leaf v { type int32; } }
  list uint32 { key k; leaf k { type uint32; } leaf v { type int32; } }
  list uint64 { key k; leaf k { type uint64; } leaf v { type int32; } }
  list decimal64 { key k; leaf k { type decimal64 { fraction-digits 2; } } leaf v { type int32; } }
  list decimal64-9 { key k; leaf k { type decimal64 { fraction-digits 9; } } leaf v { type int32; } }
  list boolean { key k; leaf k { type boolean; } leaf v { type int32; } }
  list enum { key k; leaf k { type enumeration { enum e0; enum e1; enum e7 { value 7; } enum e8; enum e20 { value 20; } } } leaf v { type int32; } }
  list identityref { key k; leaf k { type identityref { base b; } } leaf v { type int32; } }
  list binary { key k; leaf k { type binary; } leaf v { type int32; } }
  list bits { key k; leaf k { type bits { bit a; bit b; bit c; } } leaf v { type int32; } }
  list union { key k; leaf k { type union { type int32; type string; } } leaf v { type int32; } }
  list pair { key "k k2"; leaf k { type string; } leaf k2 { type int32; } leaf v { type int32; } }
}`
}

var c17LookupKeys = map[string][]string{
	"string":    {"a", "A", "ab", "b", "é"},
	"int8":      {"-128", "-1", "0", "1", "127"},
	"int16":     {"-32768", "-1", "0", "255", "32767"},
	"int32":     {"-2147483648", "-1", "0", "65536", "2147483647"},
	"int64":     {"-9223372036854775808", "-9223372036854775807", "9007199254740992", "9007199254740993", "9223372036854775807"},
	"uint8":     {"0", "1", "127", "128", "255"},
	"uint16":    {"0", "1", "32767", "32768", "65535"},
	"uint32":    {"0", "1", "2147483647", "2147483648", "4294967295"},
	"uint64":    {"0", "9223372036854775807", "9223372036854775808", "18446744073709551614", "18446744073709551615"},
	"decimal64": {"-1.5", "0", "0.01", "1.5", "10"},
	// values that only differ in the last fraction digits
	"decimal64-9": {"2", "2.000000001", "2.000000002", "-2.000000001", "0.000000001"},
	"boolean":     {"false", "true"},
	"enum":        {"e0", "e1", "e7", "e8", "e20"},
	"identityref": {"i0", "i1", "i2", "i3", "i4"},
	"binary":      {"AQID", "/w==", "AA==", "AQ==", "AQIDBA=="},
	"bits":        {"a", "b", "a b", "c", "a b c"},
	"union":       {"1", "a", "-5", "b", "10"},
	// compound: first components collide on purpose
	"pair": {"a,1", "a,2", "b,1", "b,2", "a,-1"},
}

var c17LookupTypes = []string{"string", "int8", "int16", "int32", "int64", "uint8", "uint16", "uint32", "uint64", "decimal64", "decimal64-9", "boolean", "enum", "identityref", "binary", "bits", "union", "pair"}

// implementations: the harness' reference node, the library's two reflection
// nodes over map[string]interface{} trees with map- and slice-backed lists,
// and over Go structs in slices and maps.
var c17LookupImpls = []string{"ref", "reflect-map", "node-map", "reflect-slice", "node-slice", "reflect-structslice", "node-structslice", "reflect-structmap", "node-structmap"}

func c17LookupMax(tier string) int {
	if tier == "thorough" {
		return 5
	}
	return 4
}

func c17LookupCases(tier string, emit func(interface{})) {
	for _, impl := range c17LookupImpls {
		for _, t := range c17LookupTypes {
			if strings.Contains(impl, "struct") && (t == "enum" || t == "identityref" || t == "pair" || t == "binary" || t == "bits" || t == "union") {
				continue
			}
			if strings.HasSuffix(impl, "-map") && t == "binary" {
				// octets ([]byte) cannot be the key of a Go map
				continue
			}
			if strings.HasSuffix(impl, "-map") && t == "pair" {
				// the map stores index by the first key only (documented limitation)
				continue
			}
			emit(c17Case{Part: "lookup", Impl: impl, KeyType: t, Content: []int{c17LookupMax(tier)}})
		}
	}
}

type c17Item[K comparable] struct {
	K K
	V int
}

func c17StructObj[K comparable](name string, keys []val.Value, asMap bool) (map[string]interface{}, func() string) {
	var zero K
	kt := reflect.TypeOf(zero)
	conv := func(v val.Value) K {
		return reflect.ValueOf(v.Value()).Convert(kt).Interface().(K)
	}
	if asMap {
		m := map[K]*c17Item[K]{}
		for i, k := range keys {
			m[conv(k)] = &c17Item[K]{K: conv(k), V: i}
		}
		return map[string]interface{}{name: m}, func() string {
			var parts []string
			for k, it := range m {
				parts = append(parts, fmt.Sprint(k, "|", it.K, "=", it.V))
			}
			sort.Strings(parts)
			return strings.Join(parts, ";")
		}
	}
	var sl []*c17Item[K]
	for i, k := range keys {
		sl = append(sl, &c17Item[K]{K: conv(k), V: i})
	}
	holder := map[string]interface{}{name: sl}
	return holder, func() string {
		var parts []string
		cur := holder[name].([]*c17Item[K])
		parts = append(parts, fmt.Sprint(len(cur)))
		for _, it := range cur {
			parts = append(parts, fmt.Sprint(it.K, "=", it.V))
		}
		return strings.Join(parts, ";")
	}
}

func c17StructRoot(keytype string, keys []val.Value, asMap bool) (map[string]interface{}, func() string) {
	switch keytype {
	case "string":
		return c17StructObj[string](keytype, keys, asMap)
	case "int8":
		return c17StructObj[int8](keytype, keys, asMap)
	case "int16":
		return c17StructObj[int16](keytype, keys, asMap)
	case "int32":
		return c17StructObj[int32](keytype, keys, asMap)
	case "int64":
		return c17StructObj[int64](keytype, keys, asMap)
	case "uint8":
		return c17StructObj[uint8](keytype, keys, asMap)
	case "uint16":
		return c17StructObj[uint16](keytype, keys, asMap)
	case "uint32":
		return c17StructObj[uint32](keytype, keys, asMap)
	case "uint64":
		return c17StructObj[uint64](keytype, keys, asMap)
	case "decimal64", "decimal64-9":
		return c17StructObj[float64](keytype, keys, asMap)
	case "boolean":
		return c17StructObj[bool](keytype, keys, asMap)
	}
	panic("no struct store for " + keytype)
}

// arrangements of up to max distinct indices of 0..n-1, shortest first.
func c17Arrangements(n, max int) [][]int {
	out := [][]int{{}}
	var rec func(cur []int, used uint)
	rec = func(cur []int, used uint) {
		if len(cur) == max {
			return
		}
		for i := 0; i < n; i++ {
			if used&(1<<uint(i)) != 0 {
				continue
			}
			nx := append(append([]int{}, cur...), i)
			out = append(out, nx)
			rec(nx, used|1<<uint(i))
		}
	}
	rec(nil, 0)
	sort.SliceStable(out, func(a, b int) bool { return len(out[a]) < len(out[b]) })
	return out
}

func c17RunLookup(c c17Case) eng.Result {
	var res eng.Result
	m := model.Schema("lookup")
	lm := model.DefAt(m, c.KeyType).(*meta.List)
	km := lm.KeyMeta()
	texts := c17LookupKeys[c.KeyType]
	// key values (one []val.Value per alphabet entry)
	keyVals := make([][]val.Value, len(texts))
	for i, t := range texts {
		parts := strings.Split(t, ",")
		for j, p := range parts {
			keyVals[i] = append(keyVals[i], model.ParseScalar(km[j].Type(), p))
		}
	}
	pathOf := func(i int) string {
		parts := strings.Split(texts[i], ",")
		for j := range parts {
			parts[j] = pctEscape(parts[j])
		}
		return c.KeyType + "=" + strings.Join(parts, ",")
	}
	seen := map[string]bool{}
	report := func(symptom, what string, content []int, lookup int) {
		sig := "C17/lookup/" + c.Impl + "/" + c.KeyType + "/" + symptom
		if seen[sig] {
			return
		}
		seen[sig] = true
		res.AddCase(sig, fmt.Sprintf("%s; list content (keys in order) %v, lookup key %q", what, textsOf(texts, content), texts[lookupIdx(lookup, len(texts))]), c)
	}
	max := 4
	if len(c.Content) == 1 {
		max = c.Content[0]
	}
	outcomes := map[string]bool{}
	for _, content := range c17Arrangements(len(texts), max) {
		// build
		var root node.Node
		var snap func() string
		switch {
		case strings.Contains(c.Impl, "struct"):
			var ks []val.Value
			for _, i := range content {
				ks = append(ks, keyVals[i][0])
			}
			holder, sn := c17StructRoot(c.KeyType, ks, strings.HasSuffix(c.Impl, "structmap"))
			snap = sn
			if strings.HasPrefix(c.Impl, "reflect-") {
				root = nodeutil.ReflectChild(holder)
			} else {
				root = &nodeutil.Node{Object: holder}
			}
		default:
			t := model.NewTree()
			l := &model.List{}
			for pos, i := range content {
				e := model.NewTree()
				for j, k := range km {
					e.Leaves[k.Ident()] = model.L(keyVals[i][j])
				}
				e.Leaves["v"] = model.L(val.Int32(pos))
				l.Entries = append(l.Entries, e)
			}
			t.Lists[c.KeyType] = l
			st := store.New(c.Impl)
			if ld, ok := st.(interface {
				Load([]meta.Definition, *model.Tree) bool
			}); ok {
				if !ld.Load(m.DataDefinitions(), t) {
					continue
				}
			} else {
				st.(interface{ Tree() *model.Tree }).Tree().Lists[c.KeyType] = l
			}
			root = st.Root()
			defs := m.DataDefinitions()
			snap = func() string {
				return st.Snapshot(m).Canon(defs, model.CanonOpts{IgnoreEntryOrder: st.MapLists()})
			}
		}
		before := ""
		frame, msg, panicked := eng.Recover(func() { before = snap() })
		if panicked {
			panic("harness snapshot failed: " + frame + " " + msg)
		}
		b := node.NewBrowser(m, root)
		for lookup := range texts {
			want := -1
			for pos, i := range content {
				if i == lookup {
					want = pos
				}
			}
			res.Evals++
			if len(content) > 0 {
				res.Nontriv++
			}
			var sel *node.Selection
			var err error
			frame, msg, panicked := eng.Recover(func() { sel, err = b.Root().Find(pathOf(lookup)) })
			switch {
			case panicked:
				outcomes["panic"] = true
				report("panic@"+frame, "lookup panics: "+msg, content, lookup)
				continue
			case err != nil:
				outcomes["error"] = true
				report("error", "lookup fails: "+eng.NormMsg(err.Error()), content, lookup)
				continue
			case sel == nil && want >= 0:
				outcomes["missed"] = true
				report("present-key-not-found", "the list holds an entry with the requested key but the lookup finds none", content, lookup)
				continue
			case sel != nil && want < 0:
				outcomes["phantom"] = true
				got, _ := sel.GetValue("v")
				report("absent-key-found", fmt.Sprintf("no entry has the requested key but the lookup returns an entry (payload %v)", got), content, lookup)
				continue
			case sel == nil:
				outcomes["absent"] = true
				continue
			}
			outcomes["found"] = true
			var gv, gk val.Value
			frame, msg, panicked = eng.Recover(func() {
				gv, err = sel.GetValue("v")
				if err == nil {
					gk, err = sel.GetValue("k")
				}
			})
			if panicked || err != nil {
				report("read-of-found-entry-fails", fmt.Sprint("reading the found entry fails: ", frame, msg, err), content, lookup)
				continue
			}
			if gv == nil || model.CanonVal(gv) != model.CanonVal(val.Int32(want)) {
				report("wrong-entry", fmt.Sprintf("the lookup returns the entry at position %v, the key is held by the entry at position %d", gv, want), content, lookup)
				continue
			}
			if gk == nil || model.CanonVal(gk) != model.CanonVal(keyVals[lookup][0]) {
				report("wrong-key-leaf", fmt.Sprintf("the found entry's key leaf reads %v, want %v", gk, keyVals[lookup][0]), content, lookup)
			}
			if k := sel.Key(); len(k) != len(km) || model.CanonVal(k[0]) != model.CanonVal(keyVals[lookup][0]) {
				report("wrong-selection-key", fmt.Sprintf("the found selection's key is %v, want %v", k, keyVals[lookup]), content, lookup)
			}
		}
		// whole-list walk: every entry exactly once
		res.Evals++
		var got []string
		var walkedKeys []string
		var werr error
		frame, msg, panicked = eng.Recover(func() {
			ls, err := b.Root().Find(c.KeyType)
			if err != nil || ls == nil {
				werr = fmt.Errorf("list not found: %v", err)
				return
			}
			it, err := ls.First()
			for ; err == nil && it.Selection != nil; it, err = it.Next() {
				v, e := it.Selection.GetValue("v")
				if e != nil {
					werr = e
					return
				}
				got = append(got, model.CanonVal(v))
				if len(it.Key) > 0 && it.Key[0] != nil {
					walkedKeys = append(walkedKeys, model.Lex(it.Key[0]))
				}
			}
			werr = err
		})
		if panicked {
			report("walk-panic@"+frame, "walking the list panics: "+msg, content, -1)
		} else if werr != nil && len(content) > 0 {
			report("walk-error", "walking the list fails: "+eng.NormMsg(werr.Error()), content, -1)
		} else if len(content) > 0 {
			sort.Strings(got)
			var want []string
			for pos := range content {
				want = append(want, model.CanonVal(val.Int32(pos)))
			}
			sort.Strings(want)
			if strings.Join(got, ",") != strings.Join(want, ",") {
				report("walk-entries-differ", fmt.Sprintf("a walk over the list meets entries with payloads %v, the list holds %v", got, want), content, -1)
			}
			// a Go map has no order of its own: the library walks it in the order of its key comparison,
			// which for numbers is numeric order at every width and for strings the order of their bytes
			if strings.HasSuffix(c.Impl, "map") && len(walkedKeys) == len(content) {
				for i := 1; i < len(walkedKeys); i++ {
					a, aNum := new(big.Rat).SetString(walkedKeys[i-1])
					b, bNum := new(big.Rat).SetString(walkedKeys[i])
					ordered := true
					switch {
					case c.KeyType == "string":
						ordered = walkedKeys[i-1] < walkedKeys[i]
					case aNum && bNum && c.KeyType != "enum" && c.KeyType != "identityref" && c.KeyType != "union" && c.KeyType != "bits" && c.KeyType != "binary":
						ordered = a.Cmp(b) < 0
					}
					if !ordered {
						report("map-walk-out-of-key-order", fmt.Sprintf("walk meets keys %v", walkedKeys), content, -1)
						break
					}
				}
			}
		}
		after := snap()
		if after != before {
			report("lookup-modifies-list", fmt.Sprintf("content before %q after %q", before, after), content, -1)
		}
	}
	for o := range outcomes {
		res.Outcomes = append(res.Outcomes, "lookup:"+o)
	}
	sort.Strings(res.Outcomes)
	return res
}

func lookupIdx(i, n int) int {
	if i < 0 {
		return 0
	}
	return i
}

func textsOf(texts []string, idx []int) []string {
	out := []string{}
	for _, i := range idx {
		out = append(out, texts[i])
	}
	return out
}
