package props

import "verif/internal/eng"

func c17LookupCases(tier string, emit func(interface{})) {}

func c17RunLookup(c c17Case) eng.Result { return eng.Result{} }
