package props

import (
	"encoding/json"
	"fmt"
	"strings"

	"github.com/freeconf/yang/meta"
	"github.com/freeconf/yang/node"
	"github.com/freeconf/yang/nodeutil"
	"verif/internal/eng"
	"verif/internal/model"
	"verif/internal/store"
)

// C18 — delete and replace remove exactly the addressed subtree; list keys stay unique.
//
// Explicit-state BFS over operation histories (upsert/insert/delete/replace
// addressed through list keys) from several initial trees, on each store
// implementation; after every transition the directly inspected store is
// compared with the reference model and every key of the alphabet is looked
// up through Find.

type c18 struct{ base }

func init() {
	eng.Register(&c18{base{id: "C18", level: "model_checking",
		rule: "BFS over histories of {upsert,insert,delete,replace} operations addressed by key (3 keys per list, nested list 2 keys, containers, whole list) from each initial tree, per store implementation; state = canonical directly-inspected store content; every transition compared with the reference model (exact subtree removal / exact replacement / merge), key uniqueness, and Find of every alphabet key. Non-trivial = distinct reached state other than the initial one"}})
}

type c18Op struct {
	Kind string `json:"kind"` // upsert | insert | delete | replace
	Path string `json:"path"` // target of delete/replace; "" for root edits
	Doc  string `json:"doc,omitempty"`
}

func (o c18Op) String() string { return fmt.Sprintf("%s %s %s", o.Kind, o.Path, o.Doc) }

type c18Case struct {
	Part    string `json:"part"`
	Schema  string `json:"schema"`
	Store   string `json:"store"`
	Init    string `json:"init"`
	Depth   int    `json:"depth"`
	NoDedup bool   `json:"nodedup,omitempty"`
	// Held: every operation goes through ONE selection of list l taken before the history starts
	// (entries are reached by iterating it), the way a caller works that keeps the list at hand.
	Held bool    `json:"held,omitempty"`
	Ops  []c18Op `json:"ops,omitempty"`
}

var c18Inits = map[string]string{
	"empty": `{}`,
	"two":   `{"top":"a","c":{"a":"a","b":7,"d":{"x":"a","y":5}},"l":[{"k":"a","v":1,"w":"dw"},{"k":"b","v":2,"w":"dw","m":{"z":"a","zd":9},"n":[{"j":1,"u":"a"},{"j":2,"u":"b"}]}]}`,
	"three": `{"l":[{"k":"a","v":1,"w":"dw"},{"k":"b","v":2,"w":"dw"},{"k":"c","v":1,"w":"b"}]}`,
	"onlyb": `{"l":[{"k":"b","v":2,"w":"dw"}]}`,
	// schema keys: entries that share their first or their last key component
	"pairs": `{"p":[{"a":"x","b":1,"v":"x1"},{"a":"y","b":1,"v":"y1"},{"a":"x","b":2,"v":"x2"},{"a":"y","b":2,"v":"y2"}]}`,
}

// operations on the list with a compound key (schema keys)
var c18KeysAlphabet = []c18Op{
	{"upsert", "", `{"p":[{"a":"z","b":1,"v":"n"}]}`},
	{"upsert", "", `{"p":[{"a":"y","b":1,"v":"u"}]}`},
	{"upsert", "p=y,2", `{"v":"w"}`},
	{"insert", "", `{"p":[{"a":"y","b":3,"v":"i"}]}`},
	{"delete", "p=x,1", ""},
	{"delete", "p=y,1", ""},
	{"delete", "p=x,2", ""},
	{"delete", "p=y,2", ""},
	{"delete", "p=z,1", ""},
	{"replace", "p=y,1", `{"p":[{"a":"y","b":1,"v":"r"}]}`},
	{"replace", "p=x,2", `{"p":[{"a":"x","b":2,"v":"r"}]}`},
}

var c18Alphabet = []c18Op{
	{"upsert", "", `{"l":[{"k":"a","v":1}]}`},
	{"upsert", "", `{"l":[{"k":"b","v":2}]}`},
	{"upsert", "", `{"l":[{"k":"c","v":1}]}`},
	{"upsert", "", `{"l":[{"k":"d","v":1},{"k":"d","w":"x"}]}`}, // the same key twice in one document: one entry
	{"insert", "", `{"l":[{"k":"a","v":2}]}`},
	{"insert", "l", `{"l":[{"k":"b","v":1}]}`},
	{"delete", "l=a", ""},
	{"delete", "l=b", ""},
	{"delete", "l=c", ""},
	{"delete", "l", ""},
	{"replace", "l=a", `{"l":[{"k":"a","w":"b"}]}`},
	{"replace", "l=b", `{"l":[{"k":"b","v":1,"m":{"z":"b"}}]}`},
	{"upsert", "", `{"c":{"a":"a","d":{"x":"a"}}}`},
	{"delete", "c", ""},
	{"delete", "c/d", ""},
	{"replace", "c", `{"c":{"b":1}}`},
	{"upsert", "l=b", `{"n":[{"j":1,"u":"a"}]}`},
	{"upsert", "l=b", `{"n":[{"j":2,"u":"b"}]}`},
	{"delete", "l=b/n=1", ""},
	{"delete", "l=b/n", ""},
	{"delete", "l=b/m", ""},
	{"upsert", "l=b", `{"m":{"z":"a"}}`},
	{"delete", "", ""},
	{"replace", "", `{"c":{"b":1},"l":[{"k":"c","v":3}]}`},
}

// operations of the held-list histories (besides the list-level ones of c18Alphabet): entries are
// collected from the held selection first and deleted afterwards
var c18HeldAlphabet = []c18Op{
	{"upsert", "", `{"l":[{"k":"a","v":1}]}`},
	{"upsert", "", `{"l":[{"k":"b","v":2}]}`},
	{"upsert", "", `{"l":[{"k":"c","w":"x"}]}`},
	{"upsert", "", `{"l":[{"k":"d","v":1},{"k":"a","v":2}]}`}, // a new entry before an existing one
	{"insert", "l", `{"l":[{"k":"a","v":2}]}`},
	{"insert", "l", `{"l":[{"k":"b","v":1}]}`},
	{"delete", "l=a", ""},
	{"delete", "l=b", ""},
	{"delete", "l=c", ""},
	{"delete-collected", "l=a+l=b", ""},
	{"delete-collected", "l=b+l=c", ""},
	{"delete-collected", "l=c+l=a", ""},
	{"replace", "l=a", `{"l":[{"k":"a","w":"b"}]}`},
	{"replace", "l=b", `{"l":[{"k":"b","v":1}]}`},
}

var c18Stores = []string{"ref", "reflect-map", "node-map", "reflect-slice", "node-slice", "reflect-struct", "node-struct", "reflect-structmap", "node-structmap", "reflect-structval", "node-structembed", "reflect-structembed"}

func (p *c18) Bounds(tier string) map[string]interface{} {
	d := 3
	if tier == "thorough" {
		d = 5
	}
	return map[string]interface{}{"depth": d, "full_tree_depth(no dedup, slice stores)": d - 1, "alphabet": len(c18Alphabet), "initial_trees": len(c18Inits), "stores": c18Stores, "schema": "base"}
}

func (p *c18) Cases(tier string, emit func(interface{})) {
	emit(c18Case{Part: "accessor"})
	d := 3
	if tier == "thorough" {
		d = 5
	}
	for _, st := range c18Stores {
		for _, init := range []string{"empty", "two", "three"} {
			if init == "empty" && strings.Contains(st, "slice") {
				continue // identical to the map layout: lists the library creates itself are maps
			}
			emit(c18Case{Part: "bfs", Schema: "base", Store: st, Init: init, Depth: d})
		}
		if strings.Contains(st, "slice") {
			// hidden state (backing arrays): full history tree without deduplication
			emit(c18Case{Part: "bfs", Schema: "base", Store: st, Init: "three", Depth: d - 1, NoDedup: true})
		}
		if !strings.HasSuffix(st, "map") {
			// compound keys (map-backed stores are keyed by the first key leaf only, section 10)
			emit(c18Case{Part: "bfs", Schema: "keys", Store: st, Init: "pairs", Depth: d})
		}
		// hidden state (whatever the list node caches): full history tree
		emit(c18Case{Part: "bfs", Schema: "base", Store: st, Init: "three", Depth: d - 1, NoDedup: true, Held: true})
		emit(c18Case{Part: "bfs", Schema: "base", Store: st, Init: "onlyb", Depth: d - 1, NoDedup: true, Held: true})
	}
}

type c18Inst struct {
	env   *dataEnv
	model *model.Tree
	held  *node.Selection
	steps int
}

// heldOpEnabled: map-backed list nodes (Reflect.listMap, nodeutil.Node's mapAsList) keep the sorted key
// order of their first row request for as long as the list selection lives (iteration stays stable
// while entries come and go), so reaching entries by iterating a held selection is only asked of them
// before the first change; slice-backed lists re-read their rows and are asked always.
func heldOpEnabled(c c18Case, inst *c18Inst, op c18Op) bool {
	if !c.Held || !inst.env.st.MapLists() || inst.steps == 0 {
		return true
	}
	return !strings.Contains(op.Path, "=")
}

func c18New(c c18Case) *c18Inst {
	env := newEnv(c.Schema, c.Store)
	t, err := model.FromJSON(env.m.DataDefinitions(), []byte(c18Inits[c.Init]))
	if err != nil {
		panic(err)
	}
	if err := env.populate(t); err != nil {
		panic(fmt.Sprintf("harness: populate %s: %v", c.Init, err))
	}
	inst := &c18Inst{env: env, model: t}
	if c.Held {
		var err error
		if inst.held, err = env.b.Root().Find("l"); err != nil || inst.held == nil {
			panic(fmt.Sprintf("harness: no list to hold: %v", err))
		}
	}
	return inst
}

// heldEntries collects, in one pass over the held list selection, the entries with the given keys.
func heldEntries(held *node.Selection, keys []string) ([]*node.Selection, error) {
	out := make([]*node.Selection, len(keys))
	li, err := held.First()
	for ; err == nil && li.Selection != nil; li, err = li.Next() {
		for i, k := range keys {
			if len(li.Key) == 1 && li.Key[0].String() == k {
				out[i] = li.Selection
			}
		}
	}
	if err != nil {
		return nil, err
	}
	for i, s := range out {
		if s == nil {
			return nil, fmt.Errorf("harness: entry %s not reached by iterating the held list selection", keys[i])
		}
	}
	return out, nil
}

// parentOf splits "l=b/n=1" into ("l=b", "n=1").
func splitLast(path string) (string, string) {
	if i := strings.LastIndex(path, "/"); i >= 0 {
		return path[:i], path[i+1:]
	}
	return "", path
}

// modelDelete removes the addressed node from t; false if absent.
func modelDelete(m *meta.Module, t *model.Tree, path string) bool {
	parent, last := splitLast(path)
	pt, _ := entryPoint{parent}.locate(m, t)
	if pt == nil {
		return false
	}
	name, key, hasKey := last, "", false
	if j := strings.Index(last, "="); j >= 0 {
		name, key, hasKey = last[:j], last[j+1:], true
	}
	if hasKey {
		l, ok := pt.Lists[name]
		if !ok {
			return false
		}
		lm := entryPoint{path}.def(m).(*meta.List)
		for i, e := range l.Entries {
			var ks []string
			for _, km := range lm.KeyMeta() {
				ks = append(ks, keyText(e.Leaves[km.Ident()].Canon))
			}
			if strings.Join(ks, ",") == key {
				l.Entries = append(l.Entries[:i:i], l.Entries[i+1:]...)
				return true
			}
		}
		return false
	}
	if _, ok := pt.Lists[name]; ok {
		delete(pt.Lists, name)
		return true
	}
	if _, ok := pt.Conts[name]; ok {
		delete(pt.Conts, name)
		return true
	}
	return false
}

func c18Enabled(m *meta.Module, t *model.Tree, op c18Op) bool {
	if op.Kind == "delete-collected" {
		for _, p := range strings.Split(op.Path, "+") {
			if tt, _ := (entryPoint{p}).locate(m, t); tt == nil {
				return false
			}
		}
		return true
	}
	tt, tl := entryPoint{op.Path}.locate(m, t)
	return tt != nil || tl != nil
}

func c18Step(c c18Case, inst *c18Inst, op c18Op) []eng.StepViol {
	env := inst.env
	m := env.m
	site := fmt.Sprintf("C18/%s/%s/%s", c.Store, op.Kind, c18Target(m, op))
	if c.Held {
		site = fmt.Sprintf("C18/%s/held-list/%s/%s", c.Store, op.Kind, c18Target(m, op))
	}
	if !c18Enabled(m, inst.model, op) || !heldOpEnabled(c, inst, op) {
		return nil
	}
	inst.steps++
	before := inst.model.Clone()
	desc := fmt.Sprintf("%s on %s", op, before)
	var err error
	fr, msg, pan := eng.Recover(func() {
		sel := env.b.Root()
		if c.Held {
			sel = inst.held
			var keys []string
			for _, p := range strings.Split(op.Path, "+") {
				if strings.HasPrefix(p, "l=") {
					keys = append(keys, p[2:])
				}
			}
			var entries []*node.Selection
			if len(keys) > 0 {
				if entries, err = heldEntries(inst.held, keys); err != nil {
					return
				}
				sel = entries[0]
			}
			if op.Kind == "delete-collected" {
				for _, e := range entries {
					if err = e.Delete(); err != nil {
						return
					}
				}
				return
			}
		} else if op.Path != "" {
			sel, err = sel.Find(op.Path)
			if err != nil || sel == nil {
				if err == nil {
					err = fmt.Errorf("harness: Find(%s) = nil", op.Path)
				}
				return
			}
		}
		var src node.Node
		if op.Doc != "" {
			if src, err = nodeutil.ReadJSON(op.Doc); err != nil {
				return
			}
		}
		switch op.Kind {
		case "upsert":
			err = sel.UpsertFrom(src)
		case "insert":
			err = sel.InsertFrom(src)
		case "delete":
			err = sel.Delete()
		case "replace":
			err = sel.ReplaceFrom(src)
		}
	})
	if pan {
		return []eng.StepViol{{Sig: site + "/panic:" + fr, What: desc + ": " + msg}}
	}
	// reference model
	want := before.Clone()
	wantClass := model.OK
	apply := func(strat model.Strategy, path string, doc string) {
		ep := entryPoint{path}
		var defs []meta.Definition
		if ep.kind(m) == "list" {
			defs = []meta.Definition{ep.def(m)}
		} else {
			defs = ep.defs(m)
		}
		s, perr := model.FromJSON(defs, []byte(doc))
		if perr != nil {
			panic(perr)
		}
		wantClass, _ = modelEdit(m, ep, strat, s, want, false)
	}
	switch op.Kind {
	case "upsert":
		if c.Held {
			apply(model.Upsert, "l", op.Doc)
			break
		}
		apply(model.Upsert, op.Path, op.Doc)
	case "insert":
		apply(model.Insert, op.Path, op.Doc)
	case "delete":
		if op.Path == "" {
			// the root stays, what it holds goes
			want = model.NewTree()
			break
		}
		modelDelete(m, want, op.Path)
	case "delete-collected":
		for _, p := range strings.Split(op.Path, "+") {
			modelDelete(m, want, p)
		}
	case "replace":
		if op.Path == "" {
			want = model.NewTree()
			apply(model.Insert, "", op.Doc)
			break
		}
		modelDelete(m, want, op.Path)
		parent, _ := splitLast(op.Path)
		if (entryPoint{op.Path}).kind(m) == "entry" {
			// the document is handed to the list selection
			lp := op.Path[:strings.LastIndex(op.Path, "=")]
			apply(model.Insert, lp, op.Doc)
		} else {
			apply(model.Insert, parent, op.Doc)
		}
	}
	got := env.snap()
	class := errClass(err)
	o := env.canonOpts()
	o.IgnoreEntryOrder = true
	if wantClass != model.OK {
		if class != wantClass {
			return []eng.StepViol{{Sig: site + "/wrong-error-class/want-" + wantClass.String() + "-got-" + class.String(), What: fmt.Sprintf("%s: err=%v", desc, err)}}
		}
		// failed edit: state must be unchanged at unmentioned paths; keep the implementation's state as the new model
		if kd, w := model.Diff(m.DataDefinitions(), before, got, o, ""); kd != "" {
			return []eng.StepViol{{Sig: site + "/changed-by-failed-edit/" + kd, What: desc + ": " + w}}
		}
		return nil
	}
	if class != model.OK {
		return []eng.StepViol{{Sig: site + "/error-on-valid:" + class.String(), What: fmt.Sprintf("%s: %v", desc, err)}}
	}
	if kd, w := model.Diff(m.DataDefinitions(), want, got, o, ""); kd != "" {
		return []eng.StepViol{{Sig: site + "/wrong-result/" + kd, What: fmt.Sprintf("%s: %s; want %s got %s", desc, w, want, got)}}
	}
	if strings.HasPrefix(c.Store, "node-struct") && !c.Held {
		// nodeutil.Node over a Go struct takes an empty slice or map for no list (nodeutil.Reflect
		// tells nil from empty)
		pruneEmptyLists(want)
	}
	inst.model = want
	// Find agreement for every key of the alphabet
	if v := c18FindAll(c, inst, site, desc); v != nil {
		return v
	}
	return nil
}

func pruneEmptyLists(t *model.Tree) {
	for id, l := range t.Lists {
		if len(l.Entries) == 0 {
			delete(t.Lists, id)
			continue
		}
		for _, e := range l.Entries {
			pruneEmptyLists(e)
		}
	}
	for _, c := range t.Conts {
		pruneEmptyLists(c)
	}
}

func c18Target(m *meta.Module, op c18Op) string {
	if op.Kind == "delete-collected" {
		return "entries:l=K+l=K"
	}
	k := entryPoint{op.Path}.kind(m)
	if op.Path == "" {
		return "root"
	}
	// structural position without key values
	var parts []string
	for _, seg := range strings.Split(op.Path, "/") {
		if i := strings.Index(seg, "="); i >= 0 {
			seg = seg[:i] + "=K"
		}
		parts = append(parts, seg)
	}
	return k + ":" + strings.Join(parts, "/")
}

// c18FindAll looks up every key of the alphabet through Find and compares
// presence and content with the model.
func c18FindAll(c c18Case, inst *c18Inst, site, desc string) []eng.StepViol {
	env := inst.env
	m := env.m
	paths := []string{"l=a", "l=b", "l=c", "c", "c/d", "l=b/n=1", "l=b/n=2", "l=b/m", "l=a/n=1"}
	if c.Schema == "keys" {
		paths = []string{"p=x,1", "p=y,1", "p=x,2", "p=y,2", "p=z,1", "p=y,3", "p=z,2"}
	}
	for _, p := range paths {
		ep := entryPoint{p}
		wt, _ := ep.locate(m, inst.model)
		var sel *node.Selection
		var err error
		fr, msg, pan := eng.Recover(func() { sel, err = env.b.Root().Find(p) })
		if pan {
			return []eng.StepViol{{Sig: site + "/find-after/panic:" + fr, What: fmt.Sprintf("%s; then Find(%s): %s", desc, p, msg)}}
		}
		if err != nil {
			// a missing intermediate node may be reported as nil or as an error only if the model lacks it
			if wt != nil {
				return []eng.StepViol{{Sig: site + "/find-after/error-on-present", What: fmt.Sprintf("%s; then Find(%s): %v", desc, p, err)}}
			}
			continue
		}
		if (sel != nil) != (wt != nil) {
			return []eng.StepViol{{Sig: site + fmt.Sprintf("/find-after/presence-%v-want-%v", sel != nil, wt != nil), What: fmt.Sprintf("%s; then Find(%s) = %v, model has it: %v", desc, p, sel != nil, wt != nil)}}
		}
		if sel == nil {
			continue
		}
		// content through the library's read path into a reference store
		r := store.NewRef(nil)
		var xerr error
		fr, msg, pan = eng.Recover(func() { xerr = sel.UpsertInto(r.Node()) })
		if pan {
			return []eng.StepViol{{Sig: site + "/read-after/panic:" + fr, What: fmt.Sprintf("%s; then export of %s: %s", desc, p, msg)}}
		}
		if xerr != nil {
			return []eng.StepViol{{Sig: site + "/read-after/error", What: fmt.Sprintf("%s; then export of %s: %v", desc, p, xerr)}}
		}
		o := model.CanonOpts{IgnoreEntryOrder: true, EmptyListAbsent: env.canonOpts().EmptyListAbsent}
		if store.IsStructImpl(env.st.Name()) {
			model.StripZeros(ep.defs(m), wt, r.T)
		}
		if kd, w := model.Diff(ep.defs(m), wt, r.T, o, p); kd != "" {
			return []eng.StepViol{{Sig: site + "/read-after/" + kd, What: fmt.Sprintf("%s; then export of %s: %s", desc, p, w)}}
		}
	}
	return nil
}

func (p *c18) Run(raw json.RawMessage) eng.Result {
	var c c18Case
	decode(raw, &c)
	if c.Part == "accessor" {
		return c18RunAccessor()
	}
	var res eng.Result
	m := model.SharedSchema(c.Schema)
	if c.Part == "history" {
		inst := c18New(c)
		for i, op := range c.Ops {
			for _, v := range c18Step(c, inst, op) {
				res.Add(v.Sig, fmt.Sprintf("after %d operations: %s", i+1, v.What))
			}
		}
		return res
	}
	ex := eng.Explorer[*c18Inst, c18Op]{
		New: func() *c18Inst { return c18New(c) },
		Ops: func(inst *c18Inst) []c18Op {
			var en []c18Op
			alpha := c18Alphabet
			if c.Schema == "keys" {
				alpha = c18KeysAlphabet
			}
			if c.Held {
				alpha = c18HeldAlphabet
			}
			for _, op := range alpha {
				if c18Enabled(m, inst.model, op) && heldOpEnabled(c, inst, op) {
					en = append(en, op)
				}
			}
			return en
		},
		Step: func(inst *c18Inst, op c18Op) []eng.StepViol { return c18Step(c, inst, op) },
		Key: func(inst *c18Inst) string {
			return inst.env.snap().Canon(m.DataDefinitions(), model.CanonOpts{IgnoreEntryOrder: inst.env.st.MapLists()})
		},
		Depth:   c.Depth,
		NoDedup: c.NoDedup,
	}
	r := ex.Run()
	res.States, res.Transitions, res.Evals = r.States, r.Transitions, r.Transitions
	res.Nontriv = r.States - 1
	for _, v := range r.Viols {
		rc := c
		rc.Part = "history"
		rc.Ops = v.History
		res.AddCase(v.Sig, fmt.Sprintf("after %d operations: %s", len(v.History), v.What), rc)
	}
	res.Outcomes = []string{fmt.Sprintf("%s:%s:closed=%v", c.Store, c.Init, r.Closed)}
	res.Sample = map[string]interface{}{"store": c.Store, "init": c.Init, "states": r.States, "transitions": r.Transitions, "depth": r.MaxDepth, "closed": r.Closed, "nodedup": c.NoDedup}
	return res
}
