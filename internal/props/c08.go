package props

import (
	"encoding/json"
	"errors"
	"fmt"
	"strconv"
	"strings"

	"github.com/freeconf/yang/fc"
	"github.com/freeconf/yang/meta"
	"github.com/freeconf/yang/node"
	"github.com/freeconf/yang/nodeutil"
	"github.com/freeconf/yang/val"
	"verif/internal/eng"
	"verif/internal/model"
	"verif/internal/store"
)

// C08 — Find reaches exactly the addressed node, and paths render back to it.

type c08 struct{ base }

func init() {
	model.Schemas["find"] = `module find { namespace "urn:find"; prefix f; revision 0;
  container c { leaf a { type string; } container d { leaf x { type string; } }
    list cl { key k; leaf k { type string; } leaf v { type string; } } }
  list s { key k; leaf k { type string; } leaf v { type string; }
    list n { key "a b"; leaf a { type string; } leaf b { type int32; } leaf u { type string; } container m { leaf z { type string; } } } }
  list i { key k; leaf k { type int32; } leaf v { type string; } }
  list e { key k; leaf k { type enumeration { enum one; enum two; enum "10G/40G"; enum "a,b"; enum "100%"; enum "a+b"; enum "x y"; enum "a=b"; enum "q?r"; } } leaf v { type string; } }
  list bk { key k; leaf k { type boolean; } leaf v { type string; } }
  identity idb; identity id1 { base idb; } identity id2 { base id1; }
  list bn { key k; leaf k { type binary; } leaf v { type string; } }
  list bt { key k; leaf k { type bits { bit a; bit b; bit c; } } leaf v { type string; } }
  list dk { key k; leaf k { type decimal64 { fraction-digits 2; } } leaf v { type string; } }
  list d8 { key k; leaf k { type decimal64 { fraction-digits 8; } } leaf v { type string; } }
  list uk { key k; leaf k { type union { type int32; type string; } } leaf v { type string; } }
  list ik { key k; leaf k { type identityref { base idb; } } leaf v { type string; } }
  list u6 { key k; leaf k { type uint64; } leaf v { type string; } }
  leaf top { type string; }
  container nc { leaf nl { type string; }
    choice o { case p { leaf pl { type string; }
        choice q { case r { container deep { leaf z { type string; } } list dl { key k; leaf k { type string; } leaf v { type string; } } leaf dleaf { type string; } } } }
      case p2 { container shallow { leaf z { type string; } } } }
    choice o2 { case s { leaf o2l { type string; } container o2c { leaf z { type string; } } } }
    choice o3 { case t { choice o3in { case u { leaf o3l { type string; } } } } } }
}`
	eng.Register(&c08{base{id: "C08", level: "model_checking",
		rule: "for every node (container, list, list entry, leaf) of each data tree (key alphabet with reserved characters '/', ',', '=', '%', space, '+', '..', '?', '#', non-ASCII, empty; int32, enumeration, boolean and compound keys; lists within lists) x every start selection (root, each non-list ancestor, three fixed other nodes via ../ steps) x path variant (plain, module-qualified segments, trailing slash, with a query) Find runs on the real code over a recording store: the selection must be on exactly that schema node with those typed keys and that content, its rendered path must find the same node again, absent keys/containers give (nil,nil), unknown names a not-found error, and the store receives no write. states = distinct (tree,node), transitions = Find executions. Non-trivial = distinct (node,start,variant) for nodes below the root"}})
}

type c08Seg struct {
	Ident string
	Key   []val.Value // nil for containers, leaves and whole lists
}

type c08Case struct {
	Part  string `json:"part"`
	Tree  string `json:"tree"`
	Start string `json:"start,omitempty"`
	Path  string `json:"path,omitempty"`
	Node  string `json:"node,omitempty"`
	// Only: evaluate nothing but the Find of Path from Start (replays of one violation)
	Only bool `json:"only,omitempty"`
	// Store: what serves the data tree: "" = recording reference store, "json-reader" / "xml-reader" =
	// the library's document readers over a rendering of the tree
	Store string `json:"store,omitempty"`
}

// C08Keys: string key alphabet with reserved characters.
var C08Keys = []string{"a", "a b", "a/b", "a,b", "a=b", "100%", "é", "中", "+", "..", "a?b", "#x", "%41", "", "a:b", ":", "a ", " a", " ", "\ta"}

func c08Tree(m *meta.Module, name string) *model.Tree {
	t := model.NewTree()
	str := func(s string) model.Leaf { return model.L(val.String(s)) }
	switch name {
	case "keys":
		t.Leaves["top"] = str("t")
		c := model.NewTree()
		c.Leaves["a"] = str("a")
		d := model.NewTree()
		d.Leaves["x"] = str("x")
		c.Conts["d"] = d
		cl := &model.List{}
		for _, k := range []string{"a", "a/b"} {
			e := model.NewTree()
			e.Leaves["k"] = str(k)
			e.Leaves["v"] = str("v" + k)
			cl.Entries = append(cl.Entries, e)
		}
		c.Lists["cl"] = cl
		t.Conts["c"] = c
		s := &model.List{}
		for i, k := range C08Keys {
			e := model.NewTree()
			e.Leaves["k"] = str(k)
			e.Leaves["v"] = str(fmt.Sprintf("v%d", i))
			if i < 4 {
				n := &model.List{}
				for j, a := range []string{"a", "x,y", "a/b"} {
					ne := model.NewTree()
					ne.Leaves["a"] = str(a)
					ne.Leaves["b"] = model.L(val.Int32(j + 1))
					ne.Leaves["u"] = str(fmt.Sprintf("u%d%d", i, j))
					mm := model.NewTree()
					mm.Leaves["z"] = str("z")
					ne.Conts["m"] = mm
					n.Entries = append(n.Entries, ne)
				}
				// same first component, different second
				ne := model.NewTree()
				ne.Leaves["a"] = str("a")
				ne.Leaves["b"] = model.L(val.Int32(2))
				ne.Leaves["u"] = str("dup-first")
				n.Entries = append(n.Entries, ne)
				e.Lists["n"] = n
			}
			s.Entries = append(s.Entries, e)
		}
		t.Lists["s"] = s
		il := &model.List{}
		for _, k := range []int32{1, -5, 2147483647, 0} {
			e := model.NewTree()
			e.Leaves["k"] = model.L(val.Int32(k))
			e.Leaves["v"] = str(fmt.Sprint("i", k))
			il.Entries = append(il.Entries, e)
		}
		t.Lists["i"] = il
		el := &model.List{}
		enum := model.DefAt(m, "e").(*meta.List).KeyMeta()[0].Type().Enum()
		for _, ev := range enum {
			e := model.NewTree()
			e.Leaves["k"] = model.L(ev)
			e.Leaves["v"] = str("e" + ev.Label)
			el.Entries = append(el.Entries, e)
		}
		t.Lists["e"] = el
		for name, texts := range map[string][]string{
			"bn": {"YS9i", "+/+/", "YQ==", "////"}, // base64 with '/', '+' and '=' padding
			"bt": {"a", "a b", "a b c", "c"},
			"dk": {"1.50", "-0.25", "0.00", "92233720368547758.07"},
			"d8": {"0.12345678", "0.12345679", "-1.00000001", "1"},
			"uk": {"5", "a/b", "x,y", "-7"},
			"ik": {"id1", "id2"},
			"u6": {"0", "18446744073709551615", "9223372036854775808"},
		} {
			kl := &model.List{}
			kt := model.DefAt(m, name).(*meta.List).KeyMeta()[0].Type()
			for i, text := range texts {
				e := model.NewTree()
				kv := model.ParseScalar(kt, text)
				if kv == nil {
					panic("harness: key " + name + "=" + text)
				}
				e.Leaves["k"] = model.L(kv)
				e.Leaves["v"] = str(fmt.Sprintf("%s%d", name, i))
				kl.Entries = append(kl.Entries, e)
			}
			t.Lists[name] = kl
		}
		nc, err := model.FromJSON(model.DefAt(m, "nc").(meta.HasDataDefinitions).DataDefinitions(), []byte(`{"nl":"n","pl":"p","deep":{"z":"z"},"dl":[{"k":"a","v":"1"},{"k":"a/b","v":"2"}],"dleaf":"d","o2l":"o","o2c":{"z":"z"},"o3l":"o3"}`))
		if err != nil {
			panic(err)
		}
		t.Conts["nc"] = nc
		bl := &model.List{}
		for _, b := range []bool{true, false} {
			e := model.NewTree()
			e.Leaves["k"] = model.L(val.Bool(b))
			e.Leaves["v"] = str(fmt.Sprint("b", b))
			bl.Entries = append(bl.Entries, e)
		}
		t.Lists["bk"] = bl
	case "sparse":
		// little data: most addressed nodes are absent
		s := &model.List{}
		e := model.NewTree()
		e.Leaves["k"] = str("a")
		s.Entries = append(s.Entries, e)
		t.Lists["s"] = s
	}
	return t
}

func pctEscape(s string) string {
	var sb strings.Builder
	for _, b := range []byte(s) {
		if b >= 'a' && b <= 'z' || b >= 'A' && b <= 'Z' || b >= '0' && b <= '9' || b == '-' || b == '.' || b == '_' || b == '~' {
			sb.WriteByte(b)
		} else {
			fmt.Fprintf(&sb, "%%%02X", b)
		}
	}
	return sb.String()
}

func keyPlain(v val.Value) string {
	switch x := v.(type) {
	case val.Enum:
		return x.Label
	case val.Decimal64:
		// any lexical form of the number will do, this one differs from the canonical one (trailing
		// zeros) and keeps every digit
		t := strconv.FormatFloat(float64(x), 'f', -1, 64)
		if !strings.Contains(t, ".") {
			t += "."
		}
		return t + "00"
	}
	return model.Lex(v)
}

func renderSegs(segs []c08Seg, module string) string {
	var parts []string
	for _, s := range segs {
		p := s.Ident
		if module != "" {
			if modOf := model.ModuleOf[module]; modOf != nil {
				// each segment is qualified with the module that defines its node
				p = modOf(s.Ident) + ":" + p
			} else {
				p = module + ":" + p
			}
		}
		if s.Key != nil {
			var ks []string
			for _, k := range s.Key {
				ks = append(ks, pctEscape(keyPlain(k)))
			}
			p += "=" + strings.Join(ks, ",")
		}
		parts = append(parts, p)
	}
	return strings.Join(parts, "/")
}

// c08Nodes enumerates every node of t as a segment path together with its subtree / leaf.
type c08Node struct {
	segs []c08Seg
	def  meta.Definition
	tree *model.Tree // container / entry content
	list *model.List // whole list
	leaf *model.Leaf
}

func c08Nodes(defs []meta.Definition, t *model.Tree, prefix []c08Seg, out *[]c08Node) {
	for _, d := range model.FlatDefs(defs) {
		id := d.Ident()
		switch x := d.(type) {
		case *meta.List:
			l, ok := t.Lists[id]
			if !ok {
				continue
			}
			p := append(append([]c08Seg{}, prefix...), c08Seg{Ident: id})
			*out = append(*out, c08Node{segs: p, def: d, list: l})
			for _, e := range l.Entries {
				var key []val.Value
				for _, km := range x.KeyMeta() {
					key = append(key, e.Leaves[km.Ident()].V)
				}
				ep := append(append([]c08Seg{}, prefix...), c08Seg{Ident: id, Key: key})
				*out = append(*out, c08Node{segs: ep, def: d, tree: e})
				c08Nodes(x.DataDefinitions(), e, ep, out)
			}
		case meta.HasDataDefinitions:
			c, ok := t.Conts[id]
			if !ok {
				continue
			}
			p := append(append([]c08Seg{}, prefix...), c08Seg{Ident: id})
			*out = append(*out, c08Node{segs: p, def: d, tree: c})
			c08Nodes(x.DataDefinitions(), c, p, out)
		default:
			if lf, ok := t.Leaves[id]; ok {
				lf := lf
				p := append(append([]c08Seg{}, prefix...), c08Seg{Ident: id})
				*out = append(*out, c08Node{segs: p, def: d, leaf: &lf})
			}
		}
	}
}

// chainLen is the number of selection levels of a segment path (a keyed segment is list + entry).
func chain(segs []c08Seg) []string {
	var out []string
	for _, s := range segs {
		if s.Key != nil {
			out = append(out, "list:"+s.Ident, "entry:"+s.Ident+"="+keyCanon(s.Key))
		} else {
			out = append(out, "node:"+s.Ident)
		}
	}
	return out
}

// relativePath gives the ../ path from a start node to a target, landing on the
// lowest common ancestor that is not a bare list selection.
func relativePath(start, target []c08Seg) string {
	common := 0
	for common < len(start) && common < len(target) {
		a, b := start[common], target[common]
		if a.Ident != b.Ident || keyCanon(a.Key) != keyCanon(b.Key) || (a.Key == nil) != (b.Key == nil) {
			break
		}
		common++
	}
	ups := len(chain(start)) - len(chain(start[:common]))
	return strings.Repeat("../", ups) + renderSegs(target[common:], "")
}

func (p *c08) Bounds(tier string) map[string]interface{} {
	return map[string]interface{}{"trees": []string{"keys (14 reserved-character string keys, nested compound-key lists, int32/enum/boolean keys)", "sparse"}, "string_key_alphabet": C08Keys,
		"variants": []string{"plain", "module-qualified", "trailing-slash", "with-query"}, "starts": "root, every non-list ancestor, 3 fixed other nodes via ../"}
}

func (p *c08) Cases(tier string, emit func(interface{})) {
	emit(c08Case{Part: "present", Tree: "keys"})
	emit(c08Case{Part: "relative", Tree: "keys"})
	emit(c08Case{Part: "absent", Tree: "keys"})
	emit(c08Case{Part: "absent", Tree: "sparse"})
	emit(c08Case{Part: "present", Tree: "multi"})
	emit(c08Case{Part: "relative", Tree: "multi"})
	for _, st := range []string{"json-reader", "xml-reader"} {
		emit(c08Case{Part: "present", Tree: "keys", Store: st})
		emit(c08Case{Part: "absent", Tree: "keys", Store: st})
		if st == "json-reader" {
			// the harness renders XML in one namespace: the multi-module tree is left to C19
			emit(c08Case{Part: "present", Tree: "multi", Store: st})
		}
	}
}

type c08Env struct {
	m   *meta.Module
	t   *model.Tree
	b   *node.Browser
	log *store.Log
	ref *store.Ref
}

func newC08Env(tree string, storeKind ...string) *c08Env {
	m := model.SharedSchema("find")
	t := c08Tree(m, tree)
	if tree == "multi" {
		// nodes defined by an imported grouping, a submodule and own augments in one tree
		m = model.SharedSchema("multi")
		var err error
		t, err = model.FromJSON(m.DataDefinitions(), []byte(`{"c":{"own":"a","impx":"b","impy":{"impz":"c","aug2":"d"},"in":{"imp2":"e","own2":"f"},"aug1":"g","sa":"h"},
		  "l":[{"k":"a","imp2":"i","lc":{"impx":"j"}},{"k":"b"}],"imptop":{"impt":"k","impl":[{"impk":"a","impv":"l"}]},"sc":{"sl":"m","imp2":"n","aug3":"o"}}`))
		if err != nil {
			panic(err)
		}
	}
	ref := store.NewRef(t.Clone())
	log := &store.Log{}
	if len(storeKind) > 0 && storeKind[0] != "" {
		var n node.Node
		var err error
		if storeKind[0] == "json-reader" {
			n, err = nodeutil.ReadJSON(t.ToJSON(m.DataDefinitions()))
		} else {
			n, err = nodeutil.ReadXMLDoc(strings.NewReader(`<data xmlns="` + m.Namespace() + `">` + xmlBody(m.DataDefinitions(), t) + "</data>"))
		}
		if err != nil {
			panic("harness: reader over the tree: " + err.Error())
		}
		return &c08Env{m: m, t: t, ref: ref, log: log, b: node.NewBrowser(m, n)}
	}
	return &c08Env{m: m, t: t, ref: ref, log: log, b: node.NewBrowser(m, store.Wrap(ref.Node(), log, "dst"))}
}

func (e *c08Env) wrote() string {
	for _, ev := range e.log.Events {
		if ev.New || ev.Del || ev.Write || ev.Clear || ev.Kind == "begin" || ev.Kind == "end" {
			return ev.String()
		}
	}
	return ""
}

func keyClass(segs []c08Seg) string {
	cls := "no-key"
	for _, s := range segs {
		for _, k := range s.Key {
			c := "plain-key"
			if sv, ok := k.(val.String); ok {
				switch {
				case string(sv) == "":
					c = "empty-key"
				case strings.ContainsAny(string(sv), "/,=%+?# ") || string(sv) == "..":
					c = "reserved-char-key"
				case pctEscape(string(sv)) != string(sv):
					c = "non-ascii-key"
				}
			} else {
				c = k.Format().String() + "-key"
			}
			if len(s.Key) > 1 {
				c = "compound:" + c
			}
			if c != "plain-key" || cls == "no-key" {
				cls = c
			}
		}
	}
	return cls
}

// c08CheckFound verifies a selection returned for node n.
func c08CheckFound(env *c08Env, sel *node.Selection, n c08Node) (string, string) {
	if sel.Path.Meta != n.def {
		return "wrong-schema-node", fmt.Sprintf("selection is on %s", sel.Path.Meta.Ident())
	}
	last := n.segs[len(n.segs)-1]
	if last.Key != nil {
		if keyCanon(sel.Key()) != keyCanon(last.Key) {
			return "wrong-key", fmt.Sprintf("selection key %s want %s", keyCanon(sel.Key()), keyCanon(last.Key))
		}
		for i, k := range sel.Key() {
			if k.Format() != last.Key[i].Format() {
				return "key-not-typed", fmt.Sprintf("key component %d has format %s want %s", i, k.Format(), last.Key[i].Format())
			}
		}
	}
	switch {
	case n.leaf != nil:
		v, err := sel.Get()
		if err != nil {
			return "content-error", err.Error()
		}
		if v == nil || model.CanonVal(v) != n.leaf.Canon {
			return "wrong-content", fmt.Sprintf("leaf reads %v want %s", v, n.leaf.Canon)
		}
	case n.list != nil:
		got := &model.List{}
		if err := sel.UpsertInto(store.ListNode(got, n.def.(*meta.List))); err != nil {
			return "content-error", err.Error()
		}
		w, g := model.NewTree(), model.NewTree()
		w.Lists[n.def.Ident()], g.Lists[n.def.Ident()] = n.list, got
		if kd, wh := model.Diff([]meta.Definition{n.def}, w, g, model.CanonOpts{}, ""); kd != "" {
			return "wrong-content/" + kd, wh
		}
	default:
		got := model.NewTree()
		if err := sel.UpsertInto(store.ContainerNode(got)); err != nil {
			return "content-error", err.Error()
		}
		defs := n.def.(meta.HasDataDefinitions).DataDefinitions()
		if kd, wh := model.Diff(defs, n.tree, got, model.CanonOpts{}, ""); kd != "" {
			return "wrong-content/" + kd, wh
		}
	}
	return "", ""
}

func nodeKind(n c08Node) string {
	switch {
	case n.leaf != nil:
		return "leaf"
	case n.list != nil:
		return "list"
	case n.segs[len(n.segs)-1].Key != nil:
		return "entry"
	}
	return "container"
}

func (p *c08) Run(raw json.RawMessage) eng.Result {
	var c c08Case
	decode(raw, &c)
	var res eng.Result
	ss := &sigSet{res: &res}
	env0 := newC08Env(c.Tree, c.Store)
	m := env0.m
	var nodes []c08Node
	c08Nodes(m.DataDefinitions(), env0.t, nil, &nodes)
	find := func(env *c08Env, start []c08Seg, path string) (sel *node.Selection, err error, fr, msg string) {
		fr, msg, pan := eng.Recover(func() {
			s := env.b.Root()
			if len(start) > 0 {
				if s, err = s.Find(renderSegs(start, "")); err != nil || s == nil {
					err = fmt.Errorf("harness: start %s: %v", renderSegs(start, ""), err)
					return
				}
			}
			env.log.Events = nil
			sel, err = s.Find(path)
		})
		if !pan {
			fr, msg = "", ""
		}
		return
	}
	report := func(sig, what string, start []c08Seg, path string) {
		if ss.seen == nil {
			ss.seen = map[string]bool{}
		}
		if ss.seen[sig] {
			return
		}
		ss.seen[sig] = true
		res.AddCase(sig, fmt.Sprintf("from %q Find(%q): %s", renderSegs(start, ""), path, what), c08Case{Part: "one", Tree: c.Tree, Store: c.Store, Start: renderSegs(start, ""), Path: path})
	}
	checkPresent := func(n c08Node, start []c08Seg, path, variant string) {
		if c.Only && renderSegs(start, "") != c.Start {
			return
		}
		if c.Only && path != c.Path && !strings.Contains(c.Path, renderSegs(n.segs[len(n.segs)-1:], "")) {
			// neither the path asked for nor one that ends at this node (the path the library renders for it)
			return
		}
		env := newC08Env(c.Tree, c.Store)
		res.Evals++
		res.Transitions++
		res.Nontriv++
		site := fmt.Sprintf("C08/%s/%s/%s", variant, nodeKind(n), keyClass(n.segs))
		if c.Store != "" {
			site = fmt.Sprintf("C08/%s/%s/%s/%s", c.Store, variant, nodeKind(n), keyClass(n.segs))
		}
		sel, err, fr, msg := find(env, start, path)
		switch {
		case fr != "":
			report(site+"/panic:"+fr, msg, start, path)
			return
		case err != nil:
			report(site+"/error-for-present-node", err.Error(), start, path)
			return
		case sel == nil:
			report(site+"/present-node-not-found", "Find returned (nil, nil)", start, path)
			return
		}
		if w := env.wrote(); w != "" {
			report(site+"/navigation-wrote", w, start, path)
		}
		if sym, what := c08CheckFound(env, sel, n); sym != "" {
			report(site+"/"+sym, what, start, path)
			return
		}
		// the rendered path identifies the same location
		rendered := sel.Path.StringNoModule()
		sel2, err2, fr2, msg2 := find(env, nil, rendered)
		rsite := fmt.Sprintf("C08/rendered-path/%s/%s", nodeKind(n), keyClass(n.segs))
		switch {
		case fr2 != "":
			report(rsite+"/panic:"+fr2, msg2+" rendered="+rendered, nil, rendered)
		case err2 != nil:
			report(rsite+"/error", err2.Error()+" rendered="+rendered, nil, rendered)
		case sel2 == nil:
			report(rsite+"/not-found", "rendered path "+rendered+" finds nothing", nil, rendered)
		default:
			if sym, what := c08CheckFound(env, sel2, n); sym != "" {
				report(rsite+"/"+sym, what+" rendered="+rendered, nil, rendered)
			}
		}
		if after := env.ref.T.Canon(m.DataDefinitions(), model.CanonOpts{}); after != env0.t.Canon(m.DataDefinitions(), model.CanonOpts{}) {
			report(site+"/data-modified", after, start, path)
		}
	}
	switch c.Part {
	case "one":
		env := newC08Env(c.Tree, c.Store)
		var start []c08Seg
		sel, err, fr, msg := find(env, nil, c.Start)
		_ = sel
		if c.Start != "" && (err != nil || fr != "") {
			res.Add("C08/harness/replay-start", fmt.Sprint(err, fr, msg))
			return res
		}
		// replays re-run the whole part that produced them (cheap) and filter by path
		for _, part := range []string{"present", "relative", "absent"} {
			cc := c
			cc.Part = part
			cc.Only = true
			b, _ := json.Marshal(cc)
			r := p.Run(b)
			for _, v := range r.Viols {
				var vc c08Case
				json.Unmarshal(v.Case, &vc)
				if vc.Path == c.Path && vc.Start == c.Start {
					res.Viols = append(res.Viols, eng.Viol{Sig: v.Sig, What: v.What})
				}
			}
		}
		_ = start
		return res
	case "present":
		for _, n := range nodes {
			res.States++
			full := renderSegs(n.segs, "")
			checkPresent(n, nil, full, "plain")
			checkPresent(n, nil, renderSegs(n.segs, m.Ident()), "module-qualified")
			checkPresent(n, nil, full+"/", "trailing-slash")
			if n.leaf == nil && len(n.segs) >= 2 && (!c.Only || (c.Start == "" && c.Path == full+"?fc.max-node-count=1")) {
				// a read filter of the request is not applied to the steps the navigation passes through:
				// a budget of one node does not stop a path of several containers and lists
				env := newC08Env(c.Tree, c.Store)
				res.Evals++
				res.Transitions++
				res.Nontriv++
				sel, err, fr, msg := find(env, nil, full+"?fc.max-node-count=1")
				site := fmt.Sprintf("C08/with-node-budget/%s/%s", nodeKind(n), keyClass(n.segs))
				switch {
				case fr != "":
					report(site+"/panic:"+fr, msg, nil, full+"?fc.max-node-count=1")
				case err != nil:
					report(site+"/error-for-present-node", err.Error(), nil, full+"?fc.max-node-count=1")
				case sel == nil:
					report(site+"/present-node-not-found", "Find returned (nil, nil)", nil, full+"?fc.max-node-count=1")
				default:
					plain, perr, _, _ := find(env, nil, full)
					if perr != nil || plain == nil || plain.Path.String() != sel.Path.String() {
						report(site+"/other-node", fmt.Sprintf("selection on %s", sel.Path.String()), nil, full+"?fc.max-node-count=1")
					}
				}
			}
			if n.leaf == nil {
				checkPresent(n, nil, full+"?depth=9", "with-query")
				checkPresent(n, nil, renderSegs(n.segs, m.Ident())+"?depth=9", "module-qualified-with-query")
			}
			if strings.Contains(full, "%3A") {
				// ':' is a legal character of a path segment and need not be escaped
				raw := strings.ReplaceAll(full, "%3A", ":")
				checkPresent(n, nil, raw, "raw-colon")
				if n.leaf == nil {
					checkPresent(n, nil, raw+"?depth=9", "raw-colon-with-query")
				}
			}
			// from every non-list ancestor
			for i := 1; i < len(n.segs); i++ {
				checkPresent(n, n.segs[:i], renderSegs(n.segs[i:], ""), "from-ancestor")
			}
		}
	case "relative":
		var starts [][]c08Seg
		for _, n := range nodes {
			r := renderSegs(n.segs, "")
			if r == "c/d" || r == "i=1" || (len(n.segs) == 3 && n.segs[2].Ident == "m" && keyCanon(n.segs[0].Key) == `"a"` && keyCanon(n.segs[1].Key) == `"a"|1`) {
				starts = append(starts, n.segs)
			}
		}
		for _, st := range starts {
			for _, n := range nodes {
				res.States++
				rel := relativePath(st, n.segs)
				if !strings.HasPrefix(rel, "../") {
					continue
				}
				checkPresent(n, st, rel, "dot-dot")
			}
		}
	case "absent":
		absentKeys := []string{"zz", "a/zz", "no such", "A", "zz ", " zz", "é ", "a  "}
		type probe struct {
			path    string
			kind    string
			unknown bool
		}
		var probes []probe
		for _, k := range absentKeys {
			probes = append(probes, probe{"s=" + pctEscape(k), "absent-entry", false}, probe{"s=a/n=" + pctEscape(k) + ",1", "absent-nested-entry", false}, probe{"c/cl=" + pctEscape(k), "absent-entry", false})
		}
		probes = append(probes, probe{"i=99", "absent-entry", false}, probe{"i=1/v/x", "below-leaf", true}, probe{"s=a/n=a,9", "absent-nested-entry", false}, probe{"s=zz/n=a,1", "absent-parent-entry", false},
			probe{"c/d", "maybe-absent-container", false}, probe{"c", "maybe-absent-container", false},
			probe{"nope", "unknown-name", true}, probe{"c/nope", "unknown-name", true}, probe{"s=a/nope", "unknown-name", true}, probe{"find:nope", "unknown-name", true}, probe{"other:c", "unknown-module", true},
			// a module qualifier that is wrong below the root, a name holding an escaped '/', an empty segment
			probe{"c/other:d", "unknown-module-below-root", true}, probe{"s=a/other:v", "unknown-module-below-root", true}, probe{"find:c/other:a", "unknown-module-below-root", true},
			probe{"c%2Fd", "escaped-slash-in-name", true}, probe{"c/d%2Fx", "escaped-slash-in-name", true}, probe{"nc%2Fnl", "escaped-slash-in-name", true},
			probe{"c//d", "empty-segment", true}, probe{"c//a", "empty-segment", true}, probe{"s=a//v", "empty-segment", true}, probe{"nc/nope", "unknown-name", true}, probe{"nc/shallow", "maybe-absent-container", false},
			// a choice or a case is not a node of the data tree: their names lead nowhere
			probe{"nc/o", "choice-name-as-segment", true}, probe{"nc/o2", "choice-name-as-segment", true}, probe{"nc/o/p", "choice-name-as-segment", true}, probe{"nc/o/p/pl", "choice-name-as-segment", true},
			probe{"nc/p", "case-name-as-segment", true}, probe{"nc/p/pl", "case-name-as-segment", true}, probe{"nc/o3/t/o3in", "choice-name-as-segment", true})
		for _, pr := range probes {
			if c.Only && (pr.path != c.Path || c.Start != "") {
				continue
			}
			env := newC08Env(c.Tree, c.Store)
			res.Evals++
			res.Transitions++
			res.States++
			res.Nontriv++
			sel, err, fr, msg := find(env, nil, pr.path)
			site := "C08/absent/" + pr.kind
			// is it really absent in the model?
			present := false
			for _, n := range nodes {
				if renderSegs(n.segs, "") == pr.path {
					present = true
				}
			}
			switch {
			case fr != "":
				if pr.kind != "below-leaf" { // crash freedom for malformed paths belongs to C13
					report(site+"/panic:"+fr, msg, nil, pr.path)
				}
			case pr.unknown:
				if pr.kind == "below-leaf" {
					if err == nil && sel != nil {
						report(site+"/selection-below-leaf", "a selection was returned", nil, pr.path)
					}
				} else if pr.kind == "empty-segment" {
					// malformed rather than unknown: any error will do
					if err == nil {
						report(site+"/no-error", fmt.Sprintf("sel=%v err=%v", sel != nil, err), nil, pr.path)
					}
				} else if err == nil || !errors.Is(err, fc.NotFoundError) {
					report(site+"/no-not-found-error", fmt.Sprintf("sel=%v err=%v", sel != nil, err), nil, pr.path)
				}
			case present:
				// covered by part present
			default:
				if err != nil {
					report(site+"/error-instead-of-nil", err.Error(), nil, pr.path)
				} else if sel != nil {
					report(site+"/found-something", "selection on "+sel.Path.String(), nil, pr.path)
				}
			}
			if w := env.wrote(); w != "" {
				report(site+"/navigation-wrote", w, nil, pr.path)
			}
		}
	}
	res.Outcomes = []string{c.Part + ":" + c.Tree}
	if res.Evals == 0 {
		res.Evals = 1
	}
	return res
}
