package props

import (
	"encoding/json"
	"fmt"
	"sort"
	"strings"

	"github.com/freeconf/yang/meta"
	"github.com/freeconf/yang/parser"
	"verif/internal/eng"
	"verif/internal/model"
)

// C06 — nothing written in a module is lost or altered on the way into the schema.

type c06 struct{ base }

func init() {
	eng.Register(&c06{base{id: "C06", level: "exploration",
		rule: "part text: every text-argument statement site (46: module/container/leaf/leaf-list/list/choice/case/rpc/notification/typedef/grouping/identity/feature/extension/enum/bit/range/length/pattern/must/when/revision/augment/refine ...) x every quoting style of RFC 7950 6.1.3 (unquoted, single-quoted, double-quoted with each escape, multi-line with indentation, '+' concatenation) x a text alphabet with structural characters; the accessor must return exactly the value the harness' own 6.1.3 evaluator computes. part props: every non-text property (config, mandatory, presence, min/max-elements, ordered-by, key, unique, status, default(s), units, enum values, bit positions, fraction-digits, revisions). part concat: 2..100 concatenated parts. part comments: comments and white space between every pair of tokens. part ext: extension statements with 0/1/n arguments on every statement kind. part order: all permutations of <= 4 sibling definitions of mixed kinds. part repeat: every generated module loaded 3 times must give identical canonical dumps. Non-trivial = distinct (site, style, value) / module"}})
}

type c06Case struct {
	Part string `json:"part"`
	Site string `json:"site,omitempty"`
	Idx  int    `json:"idx,omitempty"`
}

// C06Values: text alphabet (structural classes).
var c06Values = []string{"x", "hello world", `with "quotes"`, `back\slash`, "semi;colon", "curly{brace}", "// not a comment", "/* not a comment */", "tab\there", "line1\nline2", "trailing space ", " leading", "'single'", "container", "leaf x", "100%", "é中", "+", "a+b", "a + b", `\n literal`, ""}

type c06Style struct {
	name   string
	render func(v string) (text string, ok bool)
}

func dq(v string) string {
	r := strings.NewReplacer(`\`, `\\`, `"`, `\"`, "\n", `\n`, "\t", `\t`)
	return `"` + r.Replace(v) + `"`
}

var c06Styles = []c06Style{
	{"unquoted", func(v string) (string, bool) {
		if v == "" || strings.ContainsAny(v, " \t\n;{}\"'") || strings.HasPrefix(v, "//") || strings.HasPrefix(v, "/*") || v == "+" || strings.Contains(v, "*/") {
			return "", false
		}
		return v, true
	}},
	{"single-quoted", func(v string) (string, bool) {
		if strings.Contains(v, "'") {
			return "", false
		}
		return "'" + v + "'", true
	}},
	{"double-quoted", func(v string) (string, bool) { return dq(v), true }},
	{"double-quoted-literal-newline", func(v string) (string, bool) {
		if !strings.Contains(v, "\n") {
			return "", false
		}
		// the line break written literally; continuation lines start in column 0 so nothing is stripped
		r := strings.NewReplacer(`\`, `\\`, `"`, `\"`, "\t", `\t`)
		return `"` + r.Replace(v) + `"`, true
	}},
	{"concat-2", func(v string) (string, bool) {
		if len(v) < 2 {
			return "", false
		}
		h := len(v) / 2
		for h > 0 && h < len(v) && v[h]&0xC0 == 0x80 {
			h++
		}
		return dq(v[:h]) + " + " + dq(v[h:]), true
	}},
	{"concat-mixed-quotes", func(v string) (string, bool) {
		if len(v) < 2 || strings.Contains(v, "'") {
			return "", false
		}
		h := len(v) / 2
		for h > 0 && h < len(v) && v[h]&0xC0 == 0x80 {
			h++
		}
		return "'" + v[:h] + "'\n      + " + dq(v[h:]), true
	}},
	{"concat-per-char", func(v string) (string, bool) {
		if len(v) < 3 || len(v) > 30 {
			return "", false
		}
		var parts []string
		for _, r := range v {
			parts = append(parts, dq(string(r)))
		}
		return strings.Join(parts, "+"), true
	}},
}

type c06Site struct {
	name string
	// text renders a module with ARG as the (already quoted) argument
	text string
	get  func(m *meta.Module) (string, bool)
	// ident sites accept identifiers only
	identOnly bool
}

const c06Hdr = `module m { yang-version 1.1; namespace "urn:m"; prefix p; `

func leafOf(m *meta.Module, path string) meta.Definition {
	ok, d := c11ProbePath(m, path)
	if !ok {
		return nil
	}
	return d
}

func c06Sites() []c06Site {
	desc := func(path string) func(m *meta.Module) (string, bool) {
		return func(m *meta.Module) (string, bool) {
			d := leafOf(m, path)
			if d == nil {
				return "", false
			}
			return d.(meta.Describable).Description(), true
		}
	}
	ref := func(path string) func(m *meta.Module) (string, bool) {
		return func(m *meta.Module) (string, bool) {
			d := leafOf(m, path)
			if d == nil {
				return "", false
			}
			return d.(meta.Describable).Reference(), true
		}
	}
	return []c06Site{
		{"module/description", c06Hdr + `revision 0; description ARG; }`, func(m *meta.Module) (string, bool) { return m.Description(), true }, false},
		{"module/reference", c06Hdr + `revision 0; reference ARG; }`, func(m *meta.Module) (string, bool) { return m.Reference(), true }, false},
		{"module/organization", c06Hdr + `organization ARG; revision 0; }`, func(m *meta.Module) (string, bool) { return m.Organization(), true }, false},
		{"module/contact", c06Hdr + `contact ARG; revision 0; }`, func(m *meta.Module) (string, bool) { return m.Contact(), true }, false},
		{"module/namespace", `module m { namespace ARG; prefix p; revision 0; }`, func(m *meta.Module) (string, bool) { return m.Namespace(), true }, false},
		{"revision/description", c06Hdr + `revision 2020-01-02 { description ARG; } }`, func(m *meta.Module) (string, bool) { return m.Revision().Description(), true }, false},
		{"revision/reference", c06Hdr + `revision 2020-01-02 { reference ARG; } }`, func(m *meta.Module) (string, bool) { return m.Revision().Reference(), true }, false},
		{"container/description", c06Hdr + `revision 0; container c { description ARG; } }`, desc("c"), false},
		{"container/reference", c06Hdr + `revision 0; container c { reference ARG; } }`, ref("c"), false},
		{"container/presence", c06Hdr + `revision 0; container c { presence ARG; } }`, func(m *meta.Module) (string, bool) { return leafOf(m, "c").(*meta.Container).Presence(), true }, false},
		{"container/when", c06Hdr + `revision 0; container c { when ARG; } }`, func(m *meta.Module) (string, bool) {
			w := leafOf(m, "c").(*meta.Container).When()
			if w == nil {
				return "", false
			}
			return w.Expression(), true
		}, false},
		{"container/must", c06Hdr + `revision 0; container c { must ARG; } }`, func(m *meta.Module) (string, bool) {
			mu := leafOf(m, "c").(*meta.Container).Musts()
			if len(mu) != 1 {
				return "", false
			}
			return mu[0].Expression(), true
		}, false},
		{"must/error-message", c06Hdr + `revision 0; container c { must "x" { error-message ARG; } } }`, func(m *meta.Module) (string, bool) {
			return leafOf(m, "c").(*meta.Container).Musts()[0].ErrorMessage(), true
		}, false},
		{"must/error-app-tag", c06Hdr + `revision 0; container c { must "x" { error-app-tag ARG; } } }`, func(m *meta.Module) (string, bool) {
			return leafOf(m, "c").(*meta.Container).Musts()[0].ErrorAppTag(), true
		}, false},
		{"must/description", c06Hdr + `revision 0; container c { must "x" { description ARG; } } }`, func(m *meta.Module) (string, bool) {
			return leafOf(m, "c").(*meta.Container).Musts()[0].Description(), true
		}, false},
		{"leaf/description", c06Hdr + `revision 0; leaf l { type string; description ARG; } }`, desc("l"), false},
		{"leaf/reference", c06Hdr + `revision 0; leaf l { type string; reference ARG; } }`, ref("l"), false},
		{"leaf/units", c06Hdr + `revision 0; leaf l { type string; units ARG; } }`, func(m *meta.Module) (string, bool) { return leafOf(m, "l").(*meta.Leaf).Units(), true }, false},
		{"leaf/default", c06Hdr + `revision 0; leaf l { type string; default ARG; } }`, func(m *meta.Module) (string, bool) {
			l := leafOf(m, "l").(*meta.Leaf)
			if !l.HasDefault() {
				return "", false
			}
			return fmt.Sprint(l.DefaultValue()), true
		}, false},
		// a when handed down by a uses and the when a member of the grouping states itself are both kept
		{"grouping-member/when-under-uses-when", c06Hdr + `revision 0; grouping g { leaf l { type string; when ARG; } leaf l2 { type string; when "other"; } container c3 { when "third"; } } uses g { when "u"; } }`, func(m *meta.Module) (string, bool) {
			w := leafOf(m, "l").(*meta.Leaf).When()
			if w == nil || w.Also() == nil || w.Expression() != "u" || !w.FromAncestor() {
				return "", false
			}
			if w2 := leafOf(m, "l2").(*meta.Leaf).When(); w2 == nil || w2.Also() == nil || w2.Also().Expression() != "other" {
				return "sibling lost its own when", true
			}
			if w3 := leafOf(m, "c3").(*meta.Container).When(); w3 == nil || w3.Also() == nil || w3.Also().Expression() != "third" {
				return "sibling lost its own when", true
			}
			return w.Also().Expression(), true
		}, false},
		// a uses inside a grouping that is itself used with a when: every when on the way is kept, in order
		{"nested-uses/own-when-last-in-chain", c06Hdr + `revision 0; grouping i { leaf l { type string; when ARG; } leaf p { type string; } } grouping o { uses i { when "B"; } leaf ol { type string; } } container c { uses o { when "A"; } } container d { uses o; } }`, func(m *meta.Module) (string, bool) {
			chain := func(cn, ln string) []string {
				var out []string
				for _, d := range leafOf(m, cn).(*meta.Container).DataDefinitions() {
					if d.Ident() == ln {
						for w := d.(meta.HasWhen).When(); w != nil; w = w.Also() {
							out = append(out, w.Expression())
						}
					}
				}
				return out
			}
			cl, dl := chain("c", "l"), chain("d", "l")
			if len(cl) != 3 || cl[0] != "A" || cl[1] != "B" || len(dl) != 2 || dl[0] != "B" || dl[1] != cl[2] {
				return fmt.Sprintf("chains %v and %v", cl, dl), true
			}
			if cp, dp, col := chain("c", "p"), chain("d", "p"), chain("c", "ol"); fmt.Sprint(cp) != "[A B]" || fmt.Sprint(dp) != "[B]" || fmt.Sprint(col) != "[A]" {
				return fmt.Sprintf("chains of the siblings %v %v %v", cp, dp, col), true
			}
			return cl[2], true
		}, false},
		{"nested-uses/middle-when-in-chain", c06Hdr + `revision 0; grouping i { leaf l { type string; when "C"; } } grouping o { uses i { when ARG; } } container c { uses o { when "A"; } } }`, func(m *meta.Module) (string, bool) {
			var out []string
			for _, d := range leafOf(m, "c").(*meta.Container).DataDefinitions() {
				for w := d.(meta.HasWhen).When(); w != nil; w = w.Also() {
					out = append(out, w.Expression())
				}
			}
			if len(out) != 3 || out[0] != "A" || out[2] != "C" {
				return fmt.Sprintf("chain %v", out), true
			}
			return out[1], true
		}, false},
		{"uses/when-over-members-with-own-when", c06Hdr + `revision 0; grouping g { leaf l { type string; when "own"; } leaf l2 { type string; } } uses g { when ARG; } }`, func(m *meta.Module) (string, bool) {
			w, w2 := leafOf(m, "l").(*meta.Leaf).When(), leafOf(m, "l2").(*meta.Leaf).When()
			if w == nil || w2 == nil || w.Also() == nil || w.Also().Expression() != "own" || w2.Also() != nil || w2.Expression() != w.Expression() {
				return "", false
			}
			return w.Expression(), true
		}, false},
		{"augment-member/when-under-augment-when", c06Hdr + `revision 0; container c { } augment "/c" { when "u"; leaf l { type string; when ARG; } leaf l2 { type string; when "other"; } } }`, func(m *meta.Module) (string, bool) {
			c := leafOf(m, "c").(*meta.Container)
			var w, w2 *meta.When
			for _, d := range c.DataDefinitions() {
				if d.Ident() == "l" {
					w = d.(*meta.Leaf).When()
				} else if d.Ident() == "l2" {
					w2 = d.(*meta.Leaf).When()
				}
			}
			if w == nil || w.Also() == nil || w.Expression() != "u" {
				return "", false
			}
			if w2 == nil || w2.Also() == nil || w2.Also().Expression() != "other" {
				return "sibling lost its own when", true
			}
			return w.Also().Expression(), true
		}, false},
		{"leaf/when", c06Hdr + `revision 0; leaf l { type string; when ARG; } }`, func(m *meta.Module) (string, bool) {
			w := leafOf(m, "l").(*meta.Leaf).When()
			if w == nil {
				return "", false
			}
			return w.Expression(), true
		}, false},
		{"leaf-list/default", c06Hdr + `revision 0; leaf-list l { type string; default ARG; } }`, func(m *meta.Module) (string, bool) {
			l := leafOf(m, "l").(*meta.LeafList)
			dv, _ := l.DefaultValue().([]string)
			if len(dv) != 1 {
				return fmt.Sprint(l.DefaultValue()), false
			}
			return dv[0], true
		}, false},
		{"leaf/units-with-typedef-units", c06Hdr + `revision 0; typedef tu { type string; units "typedef-units"; } leaf l { type tu; units ARG; } }`, func(m *meta.Module) (string, bool) { return leafOf(m, "l").(*meta.Leaf).Units(), true }, false},
		{"leaf-list/units-with-typedef-units", c06Hdr + `revision 0; typedef tu { type string; units "typedef-units"; } leaf-list l { type tu; units ARG; } }`, func(m *meta.Module) (string, bool) { return leafOf(m, "l").(*meta.LeafList).Units(), true }, false},
		{"typedef/units-with-typedef-units", c06Hdr + `revision 0; typedef tu { type string; units "typedef-units"; } typedef t { type tu; units ARG; } }`, func(m *meta.Module) (string, bool) { return m.Typedefs()["t"].Units(), true }, false},
		{"leaf-list/units", c06Hdr + `revision 0; leaf-list l { type string; units ARG; } }`, func(m *meta.Module) (string, bool) { return leafOf(m, "l").(*meta.LeafList).Units(), true }, false},
		{"list/description", c06Hdr + `revision 0; list l { key k; leaf k { type string; } description ARG; } }`, desc("l"), false},
		{"choice/description", c06Hdr + `revision 0; choice ch { description ARG; leaf a { type string; } } }`, desc("ch"), false},
		{"case/description", c06Hdr + `revision 0; choice ch { case k { description ARG; leaf a { type string; } } } }`, desc("ch/k"), false},
		{"rpc/description", c06Hdr + `revision 0; rpc r { description ARG; } }`, func(m *meta.Module) (string, bool) { return m.Actions()["r"].Description(), true }, false},
		{"notification/description", c06Hdr + `revision 0; notification n { description ARG; } }`, func(m *meta.Module) (string, bool) { return m.Notifications()["n"].Description(), true }, false},
		{"typedef/description", c06Hdr + `revision 0; typedef t { type string; description ARG; } }`, func(m *meta.Module) (string, bool) { return m.Typedefs()["t"].Description(), true }, false},
		{"typedef/units", c06Hdr + `revision 0; typedef t { type string; units ARG; } }`, func(m *meta.Module) (string, bool) { return m.Typedefs()["t"].Units(), true }, false},
		{"typedef/default", c06Hdr + `revision 0; typedef t { type string; default ARG; } }`, func(m *meta.Module) (string, bool) { return fmt.Sprint(m.Typedefs()["t"].DefaultValue()), true }, false},
		{"grouping/description", c06Hdr + `revision 0; grouping g { description ARG; leaf a { type string; } } }`, func(m *meta.Module) (string, bool) { return m.Groupings()["g"].Description(), true }, false},
		{"identity/description", c06Hdr + `revision 0; identity i { description ARG; } }`, func(m *meta.Module) (string, bool) { return m.Identities()["i"].Description(), true }, false},
		{"feature/description", c06Hdr + `revision 0; feature f { description ARG; } }`, func(m *meta.Module) (string, bool) { return m.Features()["f"].Description(), true }, false},
		{"extension-def/description", c06Hdr + `revision 0; extension e { description ARG; } }`, func(m *meta.Module) (string, bool) { return m.ExtensionDefs()["e"].Description(), true }, false},
		{"enum/description", c06Hdr + `revision 0; leaf l { type enumeration { enum a { description ARG; } } } }`, func(m *meta.Module) (string, bool) {
			return leafOf(m, "l").(*meta.Leaf).Type().Enums()[0].Description(), true
		}, false},
		{"pattern/value", c06Hdr + `revision 0; leaf l { type string { pattern ARG; } } }`, func(m *meta.Module) (string, bool) {
			p := leafOf(m, "l").(*meta.Leaf).Type().Patterns()
			if len(p) != 1 {
				return "", false
			}
			return p[0].Pattern, true
		}, false},
		{"range/error-message", c06Hdr + `revision 0; leaf l { type int32 { range "1..2" { error-message ARG; } } } }`, func(m *meta.Module) (string, bool) {
			return leafOf(m, "l").(*meta.Leaf).Type().Range()[0].ErrorMessage(), true
		}, false},
		{"pattern/error-app-tag", c06Hdr + `revision 0; leaf l { type string { pattern "a" { error-app-tag ARG; } } } }`, func(m *meta.Module) (string, bool) {
			return leafOf(m, "l").(*meta.Leaf).Type().Patterns()[0].ErrorAppTag(), true
		}, false},
		{"extension/argument", c06Hdr + `revision 0; extension e { argument a; } container c { p:e ARG; } }`, func(m *meta.Module) (string, bool) {
			ex := leafOf(m, "c").(*meta.Container).Extensions()
			if len(ex) != 1 {
				return "", false
			}
			return ex[0].Argument(), true
		}, false},
		{"augment/description", c06Hdr + `revision 0; container c { } augment "/c" { description ARG; leaf a { type string; } } }`, func(m *meta.Module) (string, bool) {
			a := m.Augments()
			if len(a) != 1 {
				return "", false
			}
			return a[0].Description(), true
		}, false},
		{"refine/description", c06Hdr + `revision 0; grouping g { leaf a { type string; } } container c { uses g { refine a { description ARG; } } } }`, desc("c/a"), false},
		{"action/description", c06Hdr + `revision 0; container c { action a { description ARG; } } }`, func(m *meta.Module) (string, bool) {
			return leafOf(m, "c").(*meta.Container).Actions()["a"].Description(), true
		}, false},
		{"input-leaf/description", c06Hdr + `revision 0; rpc r { input { leaf i { type string; description ARG; } } } }`, func(m *meta.Module) (string, bool) {
			return m.Actions()["r"].Input().DataDefinitions()[0].(*meta.Leaf).Description(), true
		}, false},
		{"anydata/description", c06Hdr + `revision 0; anydata a { description ARG; } }`, desc("a"), false},
		{"nested-leaf/description", c06Hdr + `revision 0; container c { list l { key k; leaf k { type string; } container d { leaf x { type string; description ARG; } } } } }`, desc("c/l/d/x"), false},
		{"bit/description", c06Hdr + `revision 0; leaf l { type bits { bit b { description ARG; } } } }`, func(m *meta.Module) (string, bool) {
			return leafOf(m, "l").(*meta.Leaf).Type().Bits()[0].Description(), true
		}, false},
	}
}

func (p *c06) Bounds(tier string) map[string]interface{} {
	return map[string]interface{}{"text_sites": len(c06Sites()), "styles": len(c06Styles), "values": len(c06Values), "concat_parts": "2..100", "sibling_permutations": "all of 4 mixed kinds", "properties": len(c06Props())}
}

func (p *c06) Cases(tier string, emit func(interface{})) {
	for _, s := range c06Sites() {
		emit(c06Case{Part: "text", Site: s.name})
	}
	emit(c06Case{Part: "props"})
	emit(c06Case{Part: "concat"})
	emit(c06Case{Part: "comments"})
	emit(c06Case{Part: "ext"})
	emit(c06Case{Part: "order"})
	emit(c06Case{Part: "indent"})
}

func c06LoadTwice(text string) (m *meta.Module, err error, fr, msg string) {
	fr, msg, pan := eng.Recover(func() { m, err = parser.LoadModuleFromString(nil, text) })
	if !pan {
		fr, msg = "", ""
	}
	return
}

func textClass(v string) string {
	switch {
	case v == "":
		return "empty"
	case strings.ContainsAny(v, "\n\t"):
		return "control-chars"
	case strings.Contains(v, `\`):
		return "backslash"
	case strings.Contains(v, `"`):
		return "double-quote"
	case strings.Contains(v, "'"):
		return "single-quote"
	case strings.Contains(v, "//") || strings.Contains(v, "/*"):
		return "comment-like"
	case strings.ContainsAny(v, ";{}"):
		return "statement-chars"
	case strings.Contains(v, "+"):
		return "plus"
	case strings.TrimSpace(v) != v:
		return "outer-space"
	case strings.Contains(v, " "):
		return "inner-space"
	case v == "container" || v == "leaf x":
		return "keyword"
	}
	for _, r := range v {
		if r > 127 {
			return "non-ascii"
		}
	}
	return "plain"
}

// repeated loads of one text must give identical dumps
func c06Repeat(text string, first *meta.Module, ss *sigSet, site string) {
	d1 := model.DumpModule(first, model.FullDump()).String()
	for i := 0; i < 2; i++ {
		m2, err, fr, _ := c06LoadTwice(text)
		if fr != "" || err != nil {
			ss.add("C06/repeat/"+site+"/second-load-differs", fmt.Sprint(err, fr))
			return
		}
		if d2 := model.DumpModule(m2, model.FullDump()).String(); d2 != d1 {
			ss.add("C06/repeat/"+site+"/dumps-differ", text)
			return
		}
	}
}

type c06Prop struct {
	name string
	text string
	get  func(m *meta.Module) string
	want string
}

func c06Props() []c06Prop {
	b := func(v bool) string { return fmt.Sprint(v) }
	var out []c06Prop
	add := func(name, body string, get func(m *meta.Module) string, want string) {
		out = append(out, c06Prop{name, c06Hdr + "revision 0; " + body + " }", get, want})
	}
	for _, cfg := range []string{"true", "false"} {
		cfg := cfg
		add("container/config="+cfg, `container c { config `+cfg+`; leaf a { type string; } }`, func(m *meta.Module) string { return b(leafOf(m, "c").(*meta.Container).Config()) }, cfg)
		add("leaf/config="+cfg, `leaf l { type string; config `+cfg+`; }`, func(m *meta.Module) string { return b(leafOf(m, "l").(*meta.Leaf).Config()) }, cfg)
		add("leaf/inherited-config="+cfg, `container c { config `+cfg+`; container d { leaf l { type string; } } }`, func(m *meta.Module) string { return b(leafOf(m, "c/d/l").(*meta.Leaf).Config()) }, cfg)
		add("leaf/mandatory="+cfg, `leaf l { type string; mandatory `+cfg+`; }`, func(m *meta.Module) string { return b(leafOf(m, "l").(*meta.Leaf).Mandatory()) }, cfg)
		add("choice/mandatory="+cfg, `choice ch { mandatory `+cfg+`; leaf a { type string; } }`, func(m *meta.Module) string { return b(leafOf(m, "ch").(*meta.Choice).Mandatory()) }, cfg)
		add("list/config="+cfg, `list l { key k; leaf k { type string; } config `+cfg+`; }`, func(m *meta.Module) string { return b(leafOf(m, "l").(*meta.List).Config()) }, cfg)
	}
	for _, n := range []string{"0", "1", "7", "2147483647"} {
		n := n
		add("list/min-elements="+n, `list l { key k; leaf k { type string; } min-elements `+n+`; }`, func(m *meta.Module) string { return fmt.Sprint(leafOf(m, "l").(*meta.List).MinElements()) }, n)
		add("list/max-elements="+n, `list l { key k; leaf k { type string; } max-elements `+n+`; }`, func(m *meta.Module) string { return fmt.Sprint(leafOf(m, "l").(*meta.List).MaxElements()) }, n)
		add("leaf-list/min-elements="+n, `leaf-list l { type string; min-elements `+n+`; }`, func(m *meta.Module) string { return fmt.Sprint(leafOf(m, "l").(*meta.LeafList).MinElements()) }, n)
		add("leaf-list/max-elements="+n, `leaf-list l { type string; max-elements `+n+`; }`, func(m *meta.Module) string { return fmt.Sprint(leafOf(m, "l").(*meta.LeafList).MaxElements()) }, n)
	}
	add("list/max-elements=unbounded", `list l { key k; leaf k { type string; } max-elements unbounded; }`, func(m *meta.Module) string { return fmt.Sprint(leafOf(m, "l").(*meta.List).Unbounded()) }, "true")
	for _, ob := range []string{"user", "system"} {
		ob := ob
		want := map[string]string{"user": fmt.Sprint(meta.OrderedByUser), "system": fmt.Sprint(meta.OrderedBySystem)}[ob]
		add("list/ordered-by="+ob, `list l { key k; leaf k { type string; } ordered-by `+ob+`; }`, func(m *meta.Module) string { return fmt.Sprint(leafOf(m, "l").(*meta.List).OrderedBy()) }, want)
		add("leaf-list/ordered-by="+ob, `leaf-list l { type string; ordered-by `+ob+`; }`, func(m *meta.Module) string { return fmt.Sprint(leafOf(m, "l").(*meta.LeafList).OrderedBy()) }, want)
	}
	keyGet := func(m *meta.Module) string {
		var ks []string
		for _, k := range leafOf(m, "l").(*meta.List).KeyMeta() {
			ks = append(ks, k.Ident())
		}
		return strings.Join(ks, ",")
	}
	lbody := `leaf a { type string; } leaf b { type string; } leaf c { type string; } `
	for _, k := range []struct{ arg, want string }{{`a`, "a"}, {`"a b"`, "a,b"}, {`"a b c"`, "a,b,c"}, {`"c a"`, "c,a"}, {`"a  b"`, "a,b"}, {"\"a\n      b\"", "a,b"}, {`'a b'`, "a,b"}, {`"a" + " b"`, "a,b"}, {"\"a\tb\"", "a,b"}} {
		add("list/key="+k.want+"/"+fmt.Sprintf("%q", k.arg), `list l { key `+k.arg+`; `+lbody+`}`, keyGet, k.want)
	}
	for _, u := range []struct{ arg, want string }{{`"a b"`, "[[a b]]"}, {`"a  b"`, "[[a b]]"}, {"\"a\n   b\"", "[[a b]]"}, {`"a"`, "[[a]]"}} {
		u := u
		add("list/unique/"+fmt.Sprintf("%q", u.arg), `list l { key a; unique `+u.arg+`; `+lbody+`}`, func(m *meta.Module) string { return fmt.Sprint(leafOf(m, "l").(*meta.List).Unique()) }, u.want)
	}
	add("list/two-uniques", `list l { key a; unique "a b"; unique "c"; `+lbody+`}`, func(m *meta.Module) string { return fmt.Sprint(leafOf(m, "l").(*meta.List).Unique()) }, "[[a b] [c]]")
	for _, st := range []string{"current", "deprecated", "obsolete"} {
		st := st
		want := map[string]string{"current": fmt.Sprint(meta.Current), "deprecated": fmt.Sprint(meta.Deprecated), "obsolete": fmt.Sprint(meta.Obsolete)}[st]
		add("leaf/status="+st, `leaf l { type string; status `+st+`; }`, func(m *meta.Module) string { return fmt.Sprint(leafOf(m, "l").(*meta.Leaf).Status()) }, want)
		add("container/status="+st, `container c { status `+st+`; }`, func(m *meta.Module) string { return fmt.Sprint(leafOf(m, "c").(*meta.Container).Status()) }, want)
	}
	add("leaf-list/two-defaults", `leaf-list l { type string; default "a"; default "b"; }`, func(m *meta.Module) string { return fmt.Sprint(leafOf(m, "l").(*meta.LeafList).DefaultValue()) }, "[a b]")
	add("choice/default", `choice ch { default k; case k { leaf a { type string; } } case j { leaf b { type string; } } }`, func(m *meta.Module) string { return fmt.Sprint(leafOf(m, "ch").(*meta.Choice).DefaultValue()) }, "k")
	add("enum/values", `leaf l { type enumeration { enum a; enum b { value 5; } enum c; enum d { value 2; } enum z { value 0; } } }`, func(m *meta.Module) string {
		var s []string
		for _, e := range leafOf(m, "l").(*meta.Leaf).Type().Enum() {
			s = append(s, fmt.Sprintf("%s=%d", e.Label, e.Id))
		}
		return strings.Join(s, ",")
	}, "a=0,b=5,c=6,d=2,z=0")
	add("enum/negative-value", `leaf l { type enumeration { enum n { value -3; } enum m; } }`, func(m *meta.Module) string {
		var s []string
		for _, e := range leafOf(m, "l").(*meta.Leaf).Type().Enum() {
			s = append(s, fmt.Sprintf("%s=%d", e.Label, e.Id))
		}
		return strings.Join(s, ",")
	}, "n=-3,m=-2")
	add("bits/positions", `leaf l { type bits { bit a; bit b { position 5; } bit c; bit z { position 0; } } }`, func(m *meta.Module) string {
		var s []string
		for _, e := range leafOf(m, "l").(*meta.Leaf).Type().Bits() {
			s = append(s, fmt.Sprintf("%s@%d", e.Ident(), e.Position))
		}
		return strings.Join(s, ",")
	}, "a@0,b@5,c@6,z@0")
	add("decimal64/fraction-digits", `leaf l { type decimal64 { fraction-digits 7; } }`, func(m *meta.Module) string { return fmt.Sprint(leafOf(m, "l").(*meta.Leaf).Type().FractionDigits()) }, "7")
	add("leafref/path", `leaf a { type string; } leaf l { type leafref { path "../a"; } }`, func(m *meta.Module) string { return leafOf(m, "l").(*meta.Leaf).Type().Path() }, "../a")
	add("range/text", `leaf l { type int32 { range "1..3 | 7"; } }`, func(m *meta.Module) string {
		return strings.ReplaceAll(leafOf(m, "l").(*meta.Leaf).Type().Range()[0].String(), " ", "")
	}, "1..3|7")
	add("revisions/latest-first", `revision 2021-01-01; revision 2020-01-01;`, func(m *meta.Module) string {
		var s []string
		for _, r := range m.RevisionHistory() {
			s = append(s, r.Ident())
		}
		return m.Revision().Ident() + "/" + strings.Join(s, ",")
	}, "0/0,2021-01-01,2020-01-01")
	// every argument is a string: keywords, booleans and numbers may be written in quotes
	for _, qt := range []string{`"`, `'`} {
		qt := qt
		name := map[string]string{`"`: "double-quoted", `'`: "single-quoted"}[qt]
		add("quoted-argument/"+name+"/config", `leaf l { type string; config `+qt+`false`+qt+`; }`, func(m *meta.Module) string { return b(leafOf(m, "l").(*meta.Leaf).Config()) }, "false")
		add("quoted-argument/"+name+"/mandatory", `leaf l { type string; mandatory `+qt+`true`+qt+`; }`, func(m *meta.Module) string { return b(leafOf(m, "l").(*meta.Leaf).Mandatory()) }, "true")
		add("quoted-argument/"+name+"/max-elements", `leaf-list l { type string; max-elements `+qt+`5`+qt+`; }`, func(m *meta.Module) string { return fmt.Sprint(leafOf(m, "l").(*meta.LeafList).MaxElements()) }, "5")
		add("quoted-argument/"+name+"/min-elements", `leaf-list l { type string; min-elements `+qt+`2`+qt+`; }`, func(m *meta.Module) string { return fmt.Sprint(leafOf(m, "l").(*meta.LeafList).MinElements()) }, "2")
		add("quoted-argument/"+name+"/ordered-by", `leaf-list l { type string; ordered-by `+qt+`user`+qt+`; }`, func(m *meta.Module) string {
			return fmt.Sprint(leafOf(m, "l").(*meta.LeafList).OrderedBy() == meta.OrderedByUser)
		}, "true")
		add("quoted-argument/"+name+"/status", `leaf l { type string; status `+qt+`current`+qt+`; }`, func(m *meta.Module) string { return "loads" }, "loads")
		add("quoted-argument/"+name+"/enum-value", `leaf l { type enumeration { enum a { value `+qt+`3`+qt+`; } } }`, func(m *meta.Module) string { return fmt.Sprint(leafOf(m, "l").(*meta.Leaf).Type().Enum()[0].Id) }, "3")
		add("quoted-argument/"+name+"/bit-position", `leaf l { type bits { bit a { position `+qt+`3`+qt+`; } } }`, func(m *meta.Module) string { return fmt.Sprint(leafOf(m, "l").(*meta.Leaf).Type().Bits()[0].Position) }, "3")
		add("quoted-argument/"+name+"/fraction-digits", `leaf l { type decimal64 { fraction-digits `+qt+`2`+qt+`; } }`, func(m *meta.Module) string { return fmt.Sprint(leafOf(m, "l").(*meta.Leaf).Type().FractionDigits()) }, "2")
		add("quoted-argument/"+name+"/key", `list l { key `+qt+`k`+qt+`; leaf k { type string; } }`, func(m *meta.Module) string { return fmt.Sprint(len(leafOf(m, "l").(*meta.List).KeyMeta())) }, "1")
		out = append(out, c06Prop{"quoted-argument/" + name + "/revision", c06Hdr + `revision ` + qt + `2020-01-01` + qt + `; }`, func(m *meta.Module) string { return m.Revision().Ident() }, "2020-01-01"})
		out = append(out, c06Prop{"quoted-argument/" + name + "/yang-version", `module m { yang-version ` + qt + `1.1` + qt + `; namespace "urn:m"; prefix p; revision 0; }`, func(m *meta.Module) string { return m.Version() }, "1.1"})
	}
	add("extension-prefix-begins-like-a-keyword", `extension e { argument a; } leaf l { type string; }`, func(m *meta.Module) string { return "loads" }, "loads")
	out = append(out, c06Prop{"extension-prefix-begins-like-a-keyword/keys", `module m { namespace "urn:m"; prefix keys; revision 0; extension e { argument a; } keys:e "x"; }`, func(m *meta.Module) string { return fmt.Sprint(len(m.Extensions())) }, "1"})
	out = append(out, c06Prop{"extension-prefix-begins-like-a-keyword/leafy", `module m { namespace "urn:m"; prefix leafy; revision 0; extension e { argument a; } container c { leafy:e "x"; } }`, func(m *meta.Module) string { return fmt.Sprint(len(leafOf(m, "c").(meta.HasExtensions).Extensions())) }, "1"})
	add("yang-version", ``, func(m *meta.Module) string { return m.Version() }, "1.1")
	add("prefix", ``, func(m *meta.Module) string { return m.Prefix() }, "p")
	add("identity/base", `identity b; identity d { base b; }`, func(m *meta.Module) string { return fmt.Sprint(m.Identities()["d"].BaseIds()) }, "[b]")
	add("identity/derived-listed-the-same-after-every-load", `identity b; identity d5 { base b; } identity d1 { base b; } identity d4 { base b; } identity d2 { base b; } identity d3 { base b; } identity d6 { base b; }`, func(m *meta.Module) string {
		var first []string
		for round := 0; round < 6; round++ {
			again, err := parserLoad(c06Hdr + `revision 0; identity b; identity d5 { base b; } identity d1 { base b; } identity d4 { base b; } identity d2 { base b; } identity d3 { base b; } identity d6 { base b; } }`)
			if err != nil {
				return err.Error()
			}
			var names []string
			for _, d := range again.Identities()["b"].DerivedDirect() {
				names = append(names, d.Ident())
			}
			if first == nil {
				first = names
			} else if fmt.Sprint(first) != fmt.Sprint(names) {
				return "order differs between loads"
			}
		}
		return "same"
	}, "same")
	add("import/prefix-as-keyword", `leaf container { type string; } leaf leaf-x { type string; } leaf typex { type string; }`, func(m *meta.Module) string {
		var s []string
		for _, d := range m.DataDefinitions() {
			s = append(s, d.Ident())
		}
		return strings.Join(s, ",")
	}, "container,leaf-x,typex")
	return out
}

func (p *c06) Run(raw json.RawMessage) eng.Result {
	var c c06Case
	decode(raw, &c)
	var res eng.Result
	ss := &sigSet{res: &res}
	switch c.Part {
	case "text":
		var site c06Site
		for _, s := range c06Sites() {
			if s.name == c.Site {
				site = s
			}
		}
		for _, v := range c06Values {
			if strings.Contains(site.name, "pattern/value") && (strings.ContainsAny(v, "{}\\+") || v == "") {
				continue // not a regular expression
			}
			if strings.Contains(site.name, "units-with-typedef-units") && v == "" {
				continue // an empty units statement states nothing: the typedef's units apply
			}
			for _, st := range c06Styles {
				arg, ok := st.render(v)
				if !ok {
					continue
				}
				text := strings.Replace(site.text, "ARG", arg, 1)
				m, err, fr, msg := c06LoadTwice(text)
				res.Evals++
				res.Nontriv++
				cell := fmt.Sprintf("C06/text/%s/%s/%s", site.name, st.name, textClass(v))
				switch {
				case fr != "":
					ss.add(cell+"/panic:"+fr, fmt.Sprintf("%s: %s", arg, msg))
				case err != nil:
					ss.add(cell+"/load-error", fmt.Sprintf("argument %s: %v", arg, err))
				default:
					got, okg := site.get(m)
					if !okg {
						ss.add(cell+"/statement-lost", fmt.Sprintf("argument %s", arg))
					} else if got != v {
						ss.add(cell+"/altered", fmt.Sprintf("written %s (value %q), read back %q", arg, v, got))
					}
					if res.Evals%7 == 0 {
						c06Repeat(text, m, ss, "text")
					}
				}
			}
		}
		res.Outcomes = []string{"text:" + site.name}
	case "props":
		for _, pr := range c06Props() {
			m, err, fr, msg := c06LoadTwice(pr.text)
			res.Evals++
			res.Nontriv++
			name := pr.name
			if i := strings.Index(name, "/\""); i >= 0 {
				name = name[:i] + "/quoting-variant"
			}
			if strings.Contains(name, "/status=") {
				name = "status=" + name[strings.Index(name, "=")+1:]
			}
			cell := "C06/property/" + name
			switch {
			case fr != "":
				ss.add(cell+"/panic:"+fr, msg)
			case err != nil:
				ss.add(cell+"/load-error", err.Error()+" :: "+pr.text)
			default:
				var got string
				fr, msg, pan := eng.Recover(func() { got = pr.get(m) })
				if pan {
					ss.add(cell+"/accessor-panic:"+fr, msg)
				} else if got != pr.want {
					ss.add(cell+"/altered", fmt.Sprintf("written %s, accessor says %s :: %s", pr.want, got, pr.text[len(c06Hdr):]))
				}
				c06Repeat(pr.text, m, ss, "props")
			}
		}
		res.Outcomes = []string{"props"}
	case "concat":
		for n := 2; n <= 100; n++ {
			var parts []string
			want := ""
			for i := 0; i < n; i++ {
				s := fmt.Sprintf("p%d;", i)
				want += s
				if i%3 == 1 {
					parts = append(parts, "'"+s+"'")
				} else {
					parts = append(parts, `"`+s+`"`)
				}
			}
			for _, sep := range []string{" + ", "+", "\n    + "} {
				text := c06Hdr + "revision 0; description " + strings.Join(parts, sep) + "; container after { } }"
				m, err, fr, msg := c06LoadTwice(text)
				res.Evals++
				res.Nontriv++
				class := "2-63"
				if n >= 64 {
					class = "64-100"
				}
				cell := "C06/concat/" + class + "-parts"
				switch {
				case fr != "":
					ss.add(cell+"/panic:"+fr, fmt.Sprintf("%d parts: %s", n, msg))
				case err != nil:
					ss.add(cell+"/load-error", fmt.Sprintf("%d parts: %v", n, err))
				case m.Description() != want:
					ss.add(cell+"/altered", fmt.Sprintf("%d parts: read back %q", n, m.Description()))
				case leafOf(m, "after") == nil:
					ss.add(cell+"/following-statement-lost", fmt.Sprintf("%d parts", n))
				}
			}
		}
		res.Outcomes = []string{"concat"}
	case "comments":
		base := c14Gen["gen/small"]
		ref, err, fr, _ := c06LoadTwice(base)
		if err != nil || fr != "" {
			ss.add("C06/harness/comments-base", fmt.Sprint(err, fr))
			break
		}
		refDump := model.DumpModule(ref, model.FullDump()).String()
		toks := yangTokens(base)
		for _, filler := range []string{" /* c */ ", "\n// c\n", "\t\t", "\n\n", " /* { ; } \" */ ", "\n// \"unterminated { \n", "/**/", " /* // */ ",
			"\n//\n", "//\n", "\n// \n", "\n///\n", "\n//\r\n", "\n//\n//\n", " /***/ ", " /* * */ ", " /*\n*/ ", " /*/ x */ ", " /* x /*/ "} {
			for i := 1; i < len(toks); i++ {
				// a comment directly between an opening quote... only between tokens
				text := base[:toks[i].start] + filler + base[toks[i].start:]
				m, err, fr, msg := c06LoadTwice(text)
				res.Evals++
				res.Nontriv++
				cls := "block-comment"
				if strings.Contains(filler, "//") && !strings.Contains(filler, "/*") {
					cls = "line-comment"
				} else if !strings.Contains(filler, "/") {
					cls = "white-space"
				}
				if strings.HasPrefix(filler, "/") {
					// no white space between the previous token and the comment
					cls += "/adjacent-to-previous-token"
				}
				cell := "C06/comments/" + cls
				switch {
				case fr != "":
					ss.add(cell+"/panic:"+fr, fmt.Sprintf("before token %d: %s", i, msg))
				case err != nil:
					ss.add(cell+"/load-error", fmt.Sprintf("%q before token %d %q: %v", filler, i, base[toks[i].start:toks[i].end], err))
				case model.DumpModule(m, model.FullDump()).String() != refDump:
					ss.add(cell+"/schema-differs", fmt.Sprintf("%q before token %d %q", filler, i, base[toks[i].start:toks[i].end]))
				}
			}
		}
		res.Outcomes = []string{"comments"}
	case "ext":
		c06Ext(&res, ss)
	case "order":
		c06Order(&res, ss)
	case "indent":
		c06Indent(&res, ss)
	}
	if res.Evals == 0 {
		res.Evals = 1
	}
	return res
}

// extension statements with 0/1/n arguments on every statement kind
func c06Ext(res *eng.Result, ss *sigSet) {
	type host struct {
		name, text string
		get        func(m *meta.Module) []*meta.Extension
	}
	hdr := c06Hdr + `revision 0; extension e { argument a; } extension n; `
	hosts := []host{
		{"module", hdr + `EXT }`, func(m *meta.Module) []*meta.Extension { return m.Extensions() }},
		{"container", hdr + `container c { EXT } }`, func(m *meta.Module) []*meta.Extension { return leafOf(m, "c").(meta.Meta).Extensions() }},
		{"leaf", hdr + `leaf l { type string; EXT } }`, func(m *meta.Module) []*meta.Extension { return leafOf(m, "l").(meta.Meta).Extensions() }},
		{"leaf-list", hdr + `leaf-list l { type string; EXT } }`, func(m *meta.Module) []*meta.Extension { return leafOf(m, "l").(meta.Meta).Extensions() }},
		{"list", hdr + `list l { key k; leaf k { type string; } EXT } }`, func(m *meta.Module) []*meta.Extension { return leafOf(m, "l").(meta.Meta).Extensions() }},
		{"choice", hdr + `choice ch { EXT leaf a { type string; } } }`, func(m *meta.Module) []*meta.Extension { return leafOf(m, "ch").(meta.Meta).Extensions() }},
		{"case", hdr + `choice ch { case k { EXT leaf a { type string; } } } }`, func(m *meta.Module) []*meta.Extension { return leafOf(m, "ch/k").(meta.Meta).Extensions() }},
		{"rpc", hdr + `rpc r { EXT } }`, func(m *meta.Module) []*meta.Extension { return m.Actions()["r"].Extensions() }},
		{"notification", hdr + `notification n { EXT } }`, func(m *meta.Module) []*meta.Extension { return m.Notifications()["n"].Extensions() }},
		{"type", hdr + `leaf l { type string { EXT } } }`, func(m *meta.Module) []*meta.Extension { return leafOf(m, "l").(*meta.Leaf).Type().Extensions() }},
		{"typedef", hdr + `typedef t { type string; EXT } }`, func(m *meta.Module) []*meta.Extension { return m.Typedefs()["t"].Extensions() }},
		{"identity", hdr + `identity i { EXT } }`, func(m *meta.Module) []*meta.Extension { return m.Identities()["i"].Extensions() }},
		{"feature", hdr + `feature f { EXT } }`, func(m *meta.Module) []*meta.Extension { return m.Features()["f"].Extensions() }},
		{"must", hdr + `container c { must "x" { EXT } } }`, func(m *meta.Module) []*meta.Extension {
			return leafOf(m, "c").(*meta.Container).Musts()[0].Extensions()
		}},
		{"enum", hdr + `leaf l { type enumeration { enum a { EXT } } } }`, func(m *meta.Module) []*meta.Extension {
			return leafOf(m, "l").(*meta.Leaf).Type().Enums()[0].Extensions()
		}},
		{"revision", c06Hdr + `extension e { argument a; } extension n; revision 2020-01-01 { EXT } }`, func(m *meta.Module) []*meta.Extension { return m.Revision().Extensions() }},
		{"description-substatement", hdr + `container c { description "d" { EXT } } }`, func(m *meta.Module) []*meta.Extension { return leafOf(m, "c").(meta.Meta).Extensions() }},
		{"units-substatement", hdr + `leaf l { type string; units "u" { EXT } } }`, func(m *meta.Module) []*meta.Extension { return leafOf(m, "l").(meta.Meta).Extensions() }},
		{"config-substatement", hdr + `leaf l { type string; config true { EXT } } }`, func(m *meta.Module) []*meta.Extension { return leafOf(m, "l").(meta.Meta).Extensions() }},
		{"mandatory-substatement", hdr + `leaf l { type string; mandatory true { EXT } } }`, func(m *meta.Module) []*meta.Extension { return leafOf(m, "l").(meta.Meta).Extensions() }},
		{"reference-substatement", hdr + `leaf l { type string; reference "r" { EXT } } }`, func(m *meta.Module) []*meta.Extension { return leafOf(m, "l").(meta.Meta).Extensions() }},
		{"status-substatement", hdr + `leaf l { type string; status current { EXT } } }`, func(m *meta.Module) []*meta.Extension { return leafOf(m, "l").(meta.Meta).Extensions() }},
		{"min-elements-substatement", hdr + `leaf-list l { type string; min-elements 1 { EXT } } }`, func(m *meta.Module) []*meta.Extension { return leafOf(m, "l").(meta.Meta).Extensions() }},
		{"max-elements-substatement", hdr + `leaf-list l { type string; max-elements 3 { EXT } } }`, func(m *meta.Module) []*meta.Extension { return leafOf(m, "l").(meta.Meta).Extensions() }},
		{"max-elements-unbounded-substatement", hdr + `leaf-list l { type string; max-elements unbounded { EXT } } }`, func(m *meta.Module) []*meta.Extension { return leafOf(m, "l").(meta.Meta).Extensions() }},
		{"unique-substatement", hdr + `list l { key k; unique "u" { EXT } leaf k { type string; } leaf u { type string; } } }`, func(m *meta.Module) []*meta.Extension { return leafOf(m, "l").(meta.Meta).Extensions() }},
		{"contact-substatement", c06Hdr + `contact "c" { EXT } revision 0; extension e { argument a; } extension n; }`, func(m *meta.Module) []*meta.Extension { return m.Extensions() }},
		{"organization-substatement", c06Hdr + `organization "o" { EXT } revision 0; extension e { argument a; } extension n; }`, func(m *meta.Module) []*meta.Extension { return m.Extensions() }},
		{"fraction-digits-substatement", hdr + `leaf l { type decimal64 { fraction-digits 2 { EXT } } } }`, func(m *meta.Module) []*meta.Extension { return leafOf(m, "l").(*meta.Leaf).Type().Extensions() }},
	}
	forms := []struct{ name, text, wantIdent, wantArg string }{
		{"one-argument", `p:e "arg one";`, "e", "arg one"},
		{"no-argument", `p:n;`, "n", ""},
		{"unquoted-argument", `p:e arg;`, "e", "arg"},
		{"with-block", `p:e "arg" { description "inner"; }`, "e", "arg"},
	}
	for _, h := range hosts {
		for _, f := range forms {
			text := strings.Replace(h.text, "EXT", f.text, 1)
			m, err, fr, msg := c06LoadTwice(text)
			res.Evals++
			res.Nontriv++
			cell := "C06/extension/on-" + h.name + "/" + f.name
			if strings.HasSuffix(h.name, "-substatement") {
				cell = "C06/extension/on-" + h.name
			}
			switch {
			case fr != "":
				ss.add(cell+"/panic:"+fr, msg)
			case err != nil:
				ss.add(cell+"/load-error", err.Error())
			default:
				var ex []*meta.Extension
				fr, msg, pan := eng.Recover(func() { ex = h.get(m) })
				if pan {
					ss.add(cell+"/accessor-panic:"+fr, msg)
					continue
				}
				if len(ex) != 1 {
					ss.add(cell+fmt.Sprintf("/%d-extensions-recorded", len(ex)), text[len(c06Hdr):])
					continue
				}
				if ex[0].Ident() != f.wantIdent || ex[0].Prefix() != "p" || ex[0].Argument() != f.wantArg {
					ss.add(cell+"/altered", fmt.Sprintf("recorded %s:%s arg=%q, written %s", ex[0].Prefix(), ex[0].Ident(), ex[0].Argument(), f.text))
				}
				if strings.HasSuffix(h.name, "-substatement") {
					want := strings.TrimSuffix(h.name, "-substatement")
					if ex[0].Keyword() != want && ex[0].Keyword() != "" {
						ss.add(cell+"/wrong-secondary-keyword", fmt.Sprintf("keyword %q want %q", ex[0].Keyword(), want))
					}
				}
			}
		}
	}
	// two extensions keep their order; several arguments
	text := hdr + `container c { p:e "1"; p:n; p:e "2"; } }`
	if m, err, fr, _ := c06LoadTwice(text); err == nil && fr == "" {
		var got []string
		for _, e := range leafOf(m, "c").(meta.Meta).Extensions() {
			got = append(got, e.Ident()+"="+e.Argument())
		}
		if strings.Join(got, ",") != "e=1,n=,e=2" {
			ss.add("C06/extension/order-of-several", strings.Join(got, ","))
		}
	} else {
		ss.add("C06/extension/several/load-error", fmt.Sprint(err, fr))
	}
	res.Evals++
	res.Outcomes = []string{"ext"}
}

// all permutations of 4 sibling definitions of mixed kinds keep their textual order
func c06Order(res *eng.Result, ss *sigSet) {
	items := map[string]string{
		"lf": `leaf lf { type string; }`,
		"co": `container co { leaf x { type string; } }`,
		"li": `list li { key k; leaf k { type string; } }`,
		"ll": `leaf-list ll { type string; }`,
		"ch": `choice ch { leaf cm { type string; } }`,
		"us": `uses g;`, // expands to gl1, gl2
		"ad": `anydata ad;`,
	}
	names := []string{"lf", "co", "li", "ll", "ch", "us", "ad"}
	var perm func(cur []string, used map[string]bool)
	count := 0
	perm = func(cur []string, used map[string]bool) {
		if len(cur) == 4 {
			var body, want []string
			for _, n := range cur {
				body = append(body, items[n])
				if n == "us" {
					want = append(want, "gl1", "gl2")
				} else {
					want = append(want, n)
				}
			}
			for _, where := range []string{"module", "container", "list", "case", "grouping-use"} {
				var text, path string
				switch where {
				case "module":
					text = c06Hdr + `revision 0; grouping g { leaf gl1 { type string; } leaf gl2 { type string; } } ` + strings.Join(body, " ") + ` }`
				case "container":
					text = c06Hdr + `revision 0; grouping g { leaf gl1 { type string; } leaf gl2 { type string; } } container top { ` + strings.Join(body, " ") + ` } }`
					path = "top"
				case "list":
					text = c06Hdr + `revision 0; grouping g { leaf gl1 { type string; } leaf gl2 { type string; } } list top { key kk; leaf kk { type string; } ` + strings.Join(body, " ") + ` } }`
					path = "top"
				case "case":
					text = c06Hdr + `revision 0; grouping g { leaf gl1 { type string; } leaf gl2 { type string; } } choice cc { case top { ` + strings.Join(body, " ") + ` } } }`
					path = "cc/top"
				case "grouping-use":
					text = c06Hdr + `revision 0; grouping g { leaf gl1 { type string; } leaf gl2 { type string; } } grouping outer { ` + strings.Join(body, " ") + ` } container top { uses outer; } }`
					path = "top"
				}
				m, err, fr, msg := c06LoadTwice(text)
				res.Evals++
				res.Nontriv++
				count++
				cell := "C06/sibling-order/in-" + where
				switch {
				case fr != "":
					ss.add(cell+"/panic:"+fr, msg)
				case err != nil:
					ss.add(cell+"/load-error", err.Error())
				default:
					var defs []meta.Definition
					if path == "" {
						defs = m.DataDefinitions()
					} else {
						defs = leafOf(m, path).(meta.HasDataDefinitions).DataDefinitions()
					}
					var got []string
					for _, d := range defs {
						if d.Ident() != "kk" {
							got = append(got, d.Ident())
						}
					}
					if strings.Join(got, ",") != strings.Join(want, ",") {
						ss.add(cell+"/order-changed", fmt.Sprintf("written %v, compiled %v", want, got))
					}
					if count%17 == 0 {
						c06Repeat(text, m, ss, "order")
					}
				}
			}
			return
		}
		for _, n := range names {
			if !used[n] {
				used[n] = true
				perm(append(cur, n), used)
				used[n] = false
			}
		}
	}
	perm(nil, map[string]bool{})
	res.Outcomes = []string{"order"}
}

// double-quoted multi-line strings: indentation stripping of RFC 7950 6.1.3
func c06Indent(res *eng.Result, ss *sigSet) {
	type tc struct{ name, text, want string }
	cases := []tc{
		{"continuation-aligned-with-text", "module m { namespace \"urn:m\"; prefix p; revision 0;\n  description \"first\n               second\"; }", "first\nsecond"},
		{"continuation-indented-deeper", "module m { namespace \"urn:m\"; prefix p; revision 0;\n  description \"first\n                 second\"; }", "first\n  second"},
		{"trailing-space-before-linebreak", "module m { namespace \"urn:m\"; prefix p; revision 0;\n  description \"first   \n               second\"; }", "first\nsecond"},
		{"single-quoted-keeps-everything", "module m { namespace \"urn:m\"; prefix p; revision 0;\n  description 'first\n    second'; }", "first\n    second"},
	}
	for _, c := range cases {
		m, err, fr, msg := c06LoadTwice(c.text)
		res.Evals++
		res.Nontriv++
		cell := "C06/multi-line-string/" + c.name
		switch {
		case fr != "":
			ss.add(cell+"/panic:"+fr, msg)
		case err != nil:
			ss.add(cell+"/load-error", err.Error())
		case m.Description() != c.want:
			ss.add(cell+"/altered", fmt.Sprintf("read back %q want %q", m.Description(), c.want))
		}
	}
	_ = sort.Strings
	res.Outcomes = []string{"indent"}
}
