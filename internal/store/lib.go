package store

import (
	"fmt"
	"reflect"
	"sort"
	"strconv"
	"strings"

	"github.com/freeconf/yang/meta"
	"github.com/freeconf/yang/node"
	"github.com/freeconf/yang/nodeutil"
	"github.com/freeconf/yang/val"
	"verif/internal/model"
)

// Store is a data store under test: a root node for a browser plus a direct
// inspector that never goes through the library's read path.
type Store interface {
	Name() string
	Root() node.Node
	Snapshot(m *meta.Module) *model.Tree
	// MapLists says lists are map backed (entry order is not kept)
	MapLists() bool
}

var Impls = []string{"ref", "reflect-map", "node-map"}

func New(impl string) Store {
	switch impl {
	case "ref":
		return &refStore{r: NewRef(nil)}
	case "reflect-map":
		d := map[string]interface{}{}
		return &goStore{name: impl, data: d, root: nodeutil.ReflectChild(d)}
	case "node-map":
		d := map[string]interface{}{}
		return &goStore{name: impl, data: d, root: &nodeutil.Node{Object: d}}
	case "reflect-slice":
		d := map[string]interface{}{}
		return &goStore{name: impl, data: d, root: nodeutil.ReflectChild(d), slices: true}
	case "node-slice":
		d := map[string]interface{}{}
		return &goStore{name: impl, data: d, root: &nodeutil.Node{Object: d}, slices: true}
	}
	panic("unknown store impl " + impl)
}

type refStore struct{ r *Ref }

func (s *refStore) Name() string                        { return "ref" }
func (s *refStore) Root() node.Node                     { return s.r.Node() }
func (s *refStore) Snapshot(m *meta.Module) *model.Tree { return s.r.T.Clone() }
func (s *refStore) MapLists() bool                      { return false }
func (s *refStore) Tree() *model.Tree                   { return s.r.T }

type goStore struct {
	name string
	data map[string]interface{}
	root node.Node
	// slices: lists loaded by Load are []map[string]interface{} (lists the
	// library creates itself are still maps)
	slices bool
}

func (s *goStore) Name() string    { return s.name }
func (s *goStore) Root() node.Node { return s.root }
func (s *goStore) MapLists() bool  { return !s.slices }
func (s *goStore) Snapshot(m *meta.Module) *model.Tree {
	return InspectGo(m.DataDefinitions(), s.data)
}

func deref(v reflect.Value) reflect.Value {
	for v.IsValid() && (v.Kind() == reflect.Interface || v.Kind() == reflect.Ptr) {
		if v.IsNil() {
			return reflect.Value{}
		}
		v = v.Elem()
	}
	return v
}

func mapGet(m reflect.Value, ident string) reflect.Value {
	kt := m.Type().Key()
	var k reflect.Value
	switch kt.Kind() {
	case reflect.String:
		k = reflect.ValueOf(ident).Convert(kt)
	case reflect.Interface:
		k = reflect.ValueOf(ident)
	default:
		return reflect.Value{}
	}
	return m.MapIndex(k)
}

// InspectGo converts plain Go data (maps, slices, structs) to a model tree
// by walking the schema.
func InspectGo(defs []meta.Definition, obj interface{}) *model.Tree {
	return inspectVal(defs, reflect.ValueOf(obj))
}

func inspectVal(defs []meta.Definition, v reflect.Value) *model.Tree {
	t := model.NewTree()
	v = deref(v)
	if !v.IsValid() {
		return t
	}
	known := map[string]bool{}
	for _, d := range model.FlatDefs(defs) {
		id := d.Ident()
		known[id] = true
		var f reflect.Value
		switch v.Kind() {
		case reflect.Map:
			f = mapGet(v, id)
		case reflect.Struct:
			f = v.FieldByName(nodeutil.MetaNameToFieldName(id))
		}
		if !f.IsValid() {
			continue
		}
		fd := deref(f)
		switch x := d.(type) {
		case *meta.List:
			if !fd.IsValid() {
				continue
			}
			if v.Kind() == reflect.Struct && (fd.Kind() == reflect.Slice || fd.Kind() == reflect.Map) && fd.Len() == 0 {
				// a struct field always exists: nil / empty stands for "no list"
				continue
			}
			l := &model.List{}
			switch fd.Kind() {
			case reflect.Map:
				l.Unordered = true
				keys := fd.MapKeys()
				sort.Slice(keys, func(i, j int) bool { return fmt.Sprint(keys[i].Interface()) < fmt.Sprint(keys[j].Interface()) })
				for _, k := range keys {
					l.Entries = append(l.Entries, inspectVal(x.DataDefinitions(), fd.MapIndex(k)))
				}
			case reflect.Slice:
				for i := 0; i < fd.Len(); i++ {
					l.Entries = append(l.Entries, inspectVal(x.DataDefinitions(), fd.Index(i)))
				}
			default:
				t.Leaves["?"+id] = model.Leaf{Canon: fmt.Sprintf("list-as-%s", fd.Kind())}
				continue
			}
			t.Lists[id] = l
		case meta.HasDataDefinitions:
			if !fd.IsValid() {
				continue
			}
			t.Conts[id] = inspectVal(x.DataDefinitions(), fd)
		default:
			if v.Kind() == reflect.Struct && f.IsZero() {
				continue
			}
			if !fd.IsValid() {
				continue
			}
			if v.Kind() == reflect.Struct {
				if lf, ok := d.(meta.Leafable); ok {
					t.Leaves[id] = model.Leaf{Canon: canonStructLeaf(lf.Type(), fd)}
					continue
				}
			}
			if lf, ok := d.(meta.Leafable); ok && lf.Type().Format() == val.FmtAny {
				t.Leaves[id] = model.Leaf{Canon: model.CanonAny(fd.Interface())}
				continue
			}
			if lf, ok := d.(meta.Leafable); ok && lf.Type().Format() == val.FmtUInt8List {
				if b, isBytes := fd.Interface().([]byte); isBytes {
					// a list of uint8 is a Go []byte too: numbers here, not octets
					parts := make([]string, len(b))
					for i, x := range b {
						parts[i] = strconv.Itoa(int(x))
					}
					t.Leaves[id] = model.Leaf{Canon: "[" + strings.Join(parts, ",") + "]"}
					continue
				}
			}
			t.Leaves[id] = model.Leaf{Canon: model.CanonRaw(fd.Interface())}
		}
	}
	if v.Kind() == reflect.Map {
		for _, k := range v.MapKeys() {
			ks := fmt.Sprint(k.Interface())
			if !known[ks] {
				t.Leaves["?"+ks] = model.Leaf{Canon: "unknown-member"}
			}
		}
	}
	return t
}

// Load fills the (empty) Go data directly from a model tree, in the layout
// the library itself creates for map-backed lists. Returns false when the
// tree cannot be represented (two entries sharing their first key component).
func (s *goStore) Load(defs []meta.Definition, t *model.Tree) bool {
	m, ok := toGo(defs, t, s.slices)
	if !ok {
		return false
	}
	for k, v := range m {
		s.data[k] = v
	}
	return true
}

func toGo(defs []meta.Definition, t *model.Tree, slices bool) (map[string]interface{}, bool) {
	out := map[string]interface{}{}
	for _, d := range model.FlatDefs(defs) {
		id := d.Ident()
		switch x := d.(type) {
		case *meta.List:
			l, ok := t.Lists[id]
			if !ok {
				continue
			}
			km := x.KeyMeta()
			if slices {
				sl := []map[string]interface{}{}
				for _, e := range l.Entries {
					em, ok := toGo(x.DataDefinitions(), e, slices)
					if !ok {
						return nil, false
					}
					sl = append(sl, em)
				}
				out[id] = sl
				continue
			}
			if len(km) == 0 {
				return nil, false
			}
			var mp reflect.Value
			switch {
			case len(km) == 1 && km[0].Type().Format() == val.FmtString:
				mp = reflect.ValueOf(map[string]interface{}{})
			case len(km) == 1 && km[0].Type().Format() == val.FmtInt32:
				mp = reflect.ValueOf(map[int]interface{}{})
			case len(km) == 1 && km[0].Type().Format() == val.FmtInt64:
				mp = reflect.ValueOf(map[int64]interface{}{})
			default:
				mp = reflect.ValueOf(map[interface{}]interface{}{})
			}
			for _, e := range l.Entries {
				kl, ok := e.Leaves[km[0].Ident()]
				if !ok || kl.V == nil {
					return nil, false
				}
				kv := reflect.ValueOf(kl.V.Value())
				if mp.MapIndex(kv).IsValid() {
					return nil, false
				}
				em, ok := toGo(x.DataDefinitions(), e, slices)
				if !ok {
					return nil, false
				}
				mp.SetMapIndex(kv, reflect.ValueOf(em))
			}
			out[id] = mp.Interface()
		case meta.HasDataDefinitions:
			c, ok := t.Conts[id]
			if !ok {
				continue
			}
			cm, ok := toGo(x.DataDefinitions(), c, slices)
			if !ok {
				return nil, false
			}
			out[id] = cm
		default:
			lf, ok := t.Leaves[id]
			if !ok {
				continue
			}
			if lf.V == nil {
				return nil, false
			}
			out[id] = lf.V.Value()
		}
	}
	return out, true
}

// canonStructLeaf renders a Go struct field holding a leaf: enumerations and
// identityrefs are kept as their names in string fields.
func canonStructLeaf(t *meta.Type, fd reflect.Value) string {
	one := func(x reflect.Value) string {
		if x.Kind() == reflect.String {
			switch t.Format().Single() {
			case val.FmtEnum:
				return "enum:" + x.String()
			case val.FmtIdentityRef:
				return "id:" + x.String()
			}
		}
		return model.CanonRaw(x.Interface())
	}
	if fd.Kind() == reflect.Slice {
		var parts []string
		for i := 0; i < fd.Len(); i++ {
			parts = append(parts, one(fd.Index(i)))
		}
		return "[" + strings.Join(parts, ",") + "]"
	}
	return one(fd)
}
