package store

import (
	"context"
	"errors"
	"fmt"
	"strings"

	"github.com/freeconf/yang/meta"
	"github.com/freeconf/yang/node"
	"github.com/freeconf/yang/val"
	"verif/internal/model"
)

// Event is one call the library made into a wrapped node.
type Event struct {
	N     int    // global sequence number within the Log
	Kind  string // child | next | field | choose | begin | end
	Inst  int    // id of the wrapper instance that received the call
	Path  string // data path of the receiving node ("" root)
	Ident string // child / list / leaf identifier (or choice)
	New   bool
	Del   bool
	Write bool
	Clear bool
	Root  bool   // NodeRequest.EditRoot
	Key   string // canonical key (next)
	Row   int
	Val   string // canonical value (field)
	Err   bool   // the call returned an error (injected or real)
	Nil   bool   // the call returned no node / no value
	Side  string // label given by the harness: "src" / "dst"
}

func (e Event) String() string {
	var f []string
	if e.New {
		f = append(f, "new")
	}
	if e.Del {
		f = append(f, "del")
	}
	if e.Write {
		f = append(f, "write")
	}
	if e.Clear {
		f = append(f, "clear")
	}
	if e.Root {
		f = append(f, "root")
	}
	if e.Err {
		f = append(f, "ERR")
	}
	s := fmt.Sprintf("%s:%s %s#%d /%s", e.Side, e.Kind, strings.Join(f, ","), e.Inst, e.Path)
	if e.Ident != "" {
		s += " " + e.Ident
	}
	if e.Key != "" {
		s += " key=" + e.Key
	}
	if e.Val != "" {
		s += " val=" + e.Val
	}
	return s
}

// Log collects events of all wrappers sharing it and decides fault injection.
type Log struct {
	Events []Event
	// Fail, if set, is asked before a call is delegated; a non-nil error is
	// returned to the library instead of calling the wrapped node.
	Fail func(e *Event) error
	// FailAfter, if set, is asked after the wrapped call returned nil error
	// (used for EndEdit-style faults where the work is still done).
	nextInst int
}

// ErrRefuse, returned by Log.Fail for a create request (Child or Next with New), makes the wrapper
// answer "nothing created, no error" - (nil, nil) - instead of an error.
var ErrRefuse = errors.New("verif: refuse to create")

// Rec wraps a node, recording every callback.
type Rec struct {
	Base node.Node
	Log  *Log
	Side string
	id   int
	path string
}

func Wrap(base node.Node, log *Log, side string) *Rec {
	log.nextInst++
	return &Rec{Base: base, Log: log, Side: side, id: log.nextInst}
}

func (r *Rec) child(base node.Node, path string) node.Node {
	if base == nil {
		return nil
	}
	r.Log.nextInst++
	return &Rec{Base: base, Log: r.Log, Side: r.Side, id: r.Log.nextInst, path: path}
}

func (r *Rec) ID() int { return r.id }

func (r *Rec) emit(e Event) (*Event, error) {
	e.N = len(r.Log.Events)
	e.Inst = r.id
	e.Path = r.path
	e.Side = r.Side
	r.Log.Events = append(r.Log.Events, e)
	ev := &r.Log.Events[len(r.Log.Events)-1]
	if r.Log.Fail != nil {
		if err := r.Log.Fail(ev); err != nil {
			ev.Err = true
			return ev, err
		}
	}
	return ev, nil
}

func join(p, s string) string {
	if p == "" {
		return s
	}
	return p + "/" + s
}

func (r *Rec) Child(q node.ChildRequest) (node.Node, error) {
	idx := len(r.Log.Events)
	_, err := r.emit(Event{Kind: "child", Ident: q.Meta.Ident(), New: q.New, Del: q.Delete})
	if err == ErrRefuse && q.New {
		r.Log.Events[idx].Nil = true
		return nil, nil
	}
	if err != nil {
		return nil, err
	}
	c, err := r.Base.Child(q)
	if err != nil {
		r.Log.Events[idx].Err = true
		return nil, err
	}
	if c == nil {
		r.Log.Events[idx].Nil = true
		return nil, nil
	}
	return r.child(c, join(r.path, q.Meta.Ident())), nil
}

func keyStr(k []val.Value) string {
	var parts []string
	for _, v := range k {
		parts = append(parts, model.CanonVal(v))
	}
	return strings.Join(parts, "|")
}

func (r *Rec) Next(q node.ListRequest) (node.Node, []val.Value, error) {
	idx := len(r.Log.Events)
	_, err := r.emit(Event{Kind: "next", Ident: q.Meta.Ident(), New: q.New, Del: q.Delete, Key: keyStr(q.Key), Row: q.Row})
	if err == ErrRefuse && q.New {
		r.Log.Events[idx].Nil = true
		return nil, nil, nil
	}
	if err != nil {
		return nil, nil, err
	}
	c, key, err := r.Base.Next(q)
	if err != nil {
		r.Log.Events[idx].Err = true
		return nil, nil, err
	}
	if c == nil {
		r.Log.Events[idx].Nil = true
		return nil, key, nil
	}
	k := key
	if k == nil {
		k = q.Key
	}
	if r.Log.Events[idx].Key == "" {
		r.Log.Events[idx].Key = keyStr(k)
	}
	return r.child(c, r.path+"="+keyStr(k)), key, nil
}

func (r *Rec) Field(q node.FieldRequest, hnd *node.ValueHandle) error {
	idx := len(r.Log.Events)
	e := Event{Kind: "field", Ident: q.Meta.Ident(), Write: q.Write, Clear: q.Clear}
	if q.Write && hnd.Val != nil {
		e.Val = model.CanonVal(hnd.Val)
	}
	if _, err := r.emit(e); err != nil {
		return err
	}
	err := r.Base.Field(q, hnd)
	if err != nil {
		r.Log.Events[idx].Err = true
		return err
	}
	if !q.Write {
		if hnd.Val == nil {
			r.Log.Events[idx].Nil = true
		} else {
			r.Log.Events[idx].Val = model.CanonVal(hnd.Val)
		}
	}
	return nil
}

func (r *Rec) Choose(sel *node.Selection, choice *meta.Choice) (*meta.ChoiceCase, error) {
	idx := len(r.Log.Events)
	if _, err := r.emit(Event{Kind: "choose", Ident: choice.Ident()}); err != nil {
		return nil, err
	}
	c, err := r.Base.Choose(sel, choice)
	if err != nil {
		r.Log.Events[idx].Err = true
	}
	return c, err
}

func (r *Rec) BeginEdit(q node.NodeRequest) error {
	idx := len(r.Log.Events)
	if _, err := r.emit(Event{Kind: "begin", New: q.New, Del: q.Delete, Root: q.EditRoot}); err != nil {
		return err
	}
	err := r.Base.BeginEdit(q)
	if err != nil {
		r.Log.Events[idx].Err = true
	}
	return err
}

func (r *Rec) EndEdit(q node.NodeRequest) error {
	idx := len(r.Log.Events)
	if _, err := r.emit(Event{Kind: "end", New: q.New, Del: q.Delete, Root: q.EditRoot}); err != nil {
		return err
	}
	err := r.Base.EndEdit(q)
	if err != nil {
		r.Log.Events[idx].Err = true
	}
	return err
}

func (r *Rec) Action(q node.ActionRequest) (node.Node, error) { return r.Base.Action(q) }
func (r *Rec) Notify(q node.NotifyRequest) (node.NotifyCloser, error) {
	return r.Base.Notify(q)
}
func (r *Rec) Peek(sel *node.Selection, consumer interface{}) interface{} {
	return r.Base.Peek(sel, consumer)
}
func (r *Rec) Context(sel *node.Selection) context.Context { return r.Base.Context(sel) }
func (r *Rec) Release(sel *node.Selection)                 { r.Base.Release(sel) }
