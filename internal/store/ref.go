// Package store holds harness-owned node implementations (reference store,
// recording/fault-injecting wrapper) and adapters + direct inspectors for the
// library's own node implementations.
package store

import (
	"context"
	"errors"
	"fmt"

	"github.com/freeconf/yang/meta"
	"github.com/freeconf/yang/node"
	"github.com/freeconf/yang/val"
	"verif/internal/model"
)

// Ref is the reference store: a straightforward node.Node over model.Tree.
// It is owned by the harness and inspected directly.
type Ref struct {
	T *model.Tree
}

func NewRef(t *model.Tree) *Ref {
	if t == nil {
		t = model.NewTree()
	}
	return &Ref{T: t}
}

// Node returns the root container node.
func (r *Ref) Node() node.Node { return &refNode{t: r.T} }

// ContainerNode exposes a subtree as a container/entry node.
func ContainerNode(t *model.Tree) node.Node { return &refNode{t: t} }

// ListNode exposes a list as a list node.
func ListNode(l *model.List, m *meta.List) node.Node { return &refNode{list: l, lm: m} }

type refNode struct {
	t    *model.Tree
	list *model.List
	lm   *meta.List
}

var errNotImpl = errors.New("not implemented by reference store")

func (n *refNode) Child(r node.ChildRequest) (node.Node, error) {
	if n.t == nil {
		return nil, fmt.Errorf("refstore: Child(%s) on a list node", r.Meta.Ident())
	}
	id := r.Meta.Ident()
	if lm, isList := r.Meta.(*meta.List); isList {
		if r.Delete {
			delete(n.t.Lists, id)
			return nil, nil
		}
		if r.New {
			n.t.Lists[id] = &model.List{}
		}
		l, ok := n.t.Lists[id]
		if !ok {
			return nil, nil
		}
		return &refNode{list: l, lm: lm}, nil
	}
	if r.Delete {
		delete(n.t.Conts, id)
		return nil, nil
	}
	if r.New {
		n.t.Conts[id] = model.NewTree()
	}
	c, ok := n.t.Conts[id]
	if !ok {
		return nil, nil
	}
	return &refNode{t: c}, nil
}

func keyCanon(k []val.Value) string {
	s := ""
	for i, v := range k {
		if i > 0 {
			s += "|"
		}
		s += model.CanonVal(v)
	}
	return s
}

func (n *refNode) entryKey(e *model.Tree, m *meta.List) []val.Value {
	km := m.KeyMeta()
	if len(km) == 0 {
		return nil
	}
	key := make([]val.Value, len(km))
	for i, k := range km {
		if lf, ok := e.Leaves[k.Ident()]; ok {
			key[i] = lf.V
		}
	}
	return key
}

func (n *refNode) Next(r node.ListRequest) (node.Node, []val.Value, error) {
	if n.list == nil {
		return nil, nil, fmt.Errorf("refstore: Next(%s) on a container node", r.Meta.Ident())
	}
	m := r.Meta
	if r.New {
		e := model.NewTree()
		for i, k := range m.KeyMeta() {
			if i < len(r.Key) && r.Key[i] != nil {
				e.Leaves[k.Ident()] = model.L(r.Key[i])
			}
		}
		n.list.Entries = append(n.list.Entries, e)
		return &refNode{t: e}, r.Key, nil
	}
	if len(r.Key) > 0 {
		want := keyCanon(r.Key)
		for i, e := range n.list.Entries {
			if model.KeyOf(m, e) == want {
				if r.Delete {
					n.list.Entries = append(n.list.Entries[:i:i], n.list.Entries[i+1:]...)
					return nil, nil, nil
				}
				return &refNode{t: e}, r.Key, nil
			}
		}
		return nil, nil, nil
	}
	if r.Delete {
		return nil, nil, fmt.Errorf("refstore: delete without key")
	}
	if r.Row >= 0 && r.Row < len(n.list.Entries) {
		e := n.list.Entries[r.Row]
		return &refNode{t: e}, n.entryKey(e, m), nil
	}
	return nil, nil, nil
}

func (n *refNode) Field(r node.FieldRequest, hnd *node.ValueHandle) error {
	if n.t == nil {
		return fmt.Errorf("refstore: Field(%s) on a list node", r.Meta.Ident())
	}
	id := r.Meta.Ident()
	if r.Write {
		if r.Clear || hnd.Val == nil {
			delete(n.t.Leaves, id)
			return nil
		}
		n.t.Leaves[id] = model.L(hnd.Val)
		return nil
	}
	if lf, ok := n.t.Leaves[id]; ok {
		hnd.Val = lf.V
	}
	return nil
}

func (n *refNode) Choose(sel *node.Selection, choice *meta.Choice) (*meta.ChoiceCase, error) {
	if n.t == nil {
		return nil, nil
	}
	return model.SelectedCase(choice, n.t), nil
}

func (n *refNode) BeginEdit(r node.NodeRequest) error { return nil }
func (n *refNode) EndEdit(r node.NodeRequest) error   { return nil }
func (n *refNode) Action(r node.ActionRequest) (node.Node, error) {
	return nil, errNotImpl
}
func (n *refNode) Notify(r node.NotifyRequest) (node.NotifyCloser, error) {
	return nil, errNotImpl
}
func (n *refNode) Peek(sel *node.Selection, consumer interface{}) interface{} { return n.t }
func (n *refNode) Context(sel *node.Selection) context.Context                { return sel.Context }
func (n *refNode) Release(sel *node.Selection)                                {}
