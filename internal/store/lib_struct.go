package store

import (
	"fmt"
	"reflect"
	"strings"

	"github.com/freeconf/yang/meta"
	"github.com/freeconf/yang/node"
	"github.com/freeconf/yang/nodeutil"
	"github.com/freeconf/yang/val"
	"verif/internal/model"
)

// Struct-backed stores: Go struct types are generated from the schema with
// reflect.StructOf (field name = nodeutil.MetaNameToFieldName(ident); leaf =
// the natural Go scalar; container = pointer to struct; list = slice of
// pointers to struct, or map keyed by the first key leaf). They are served by
// the library's two reflection nodes and loaded / inspected directly.
//
// Representation limit of Go structs: a scalar field cannot be "unset"; the
// zero value ("" / 0 / false) stands for an absent leaf (nodeutil.Node is run
// with IgnoreEmpty; nodeutil.Reflect does the same for strings). Trees holding
// a zero-valued leaf are therefore not representable (Load returns false) and
// the inspector reads zero as absent.

var StructImpls = []string{"reflect-struct", "node-struct", "reflect-structmap", "node-structmap"}

// StructValImpls hold list entries by value ([]T instead of []*T): growing the slice moves the entries.
// Only nodeutil.Reflect serves such lists (nodeutil.Node states "need pointer to struct").
var StructValImpls = []string{"reflect-structval"}

// StructEmbedImpls declare all members but the first of every struct in an embedded struct (Go
// promotes them: reflect reaches them by a two-step index). Served by both reflection nodes.
var StructEmbedImpls = []string{"node-structembed", "reflect-structembed"}

func IsStructImpl(impl string) bool { return strings.Contains(impl, "-struct") }

type structStore struct {
	name string
	root reflect.Value // pointer to the root struct
	node node.Node
	maps bool
}

// NewFor is New with knowledge of the schema (needed by the struct stores).
func NewFor(impl string, m *meta.Module) Store {
	if !IsStructImpl(impl) {
		return New(impl)
	}
	maps := strings.HasSuffix(impl, "structmap")
	t := structTypeFor(m.DataDefinitions(), layout{maps: maps, vals: strings.HasSuffix(impl, "structval"), embed: strings.HasSuffix(impl, "structembed")}, "Root")
	root := reflect.New(t)
	s := &structStore{name: impl, root: root, maps: maps}
	if strings.HasPrefix(impl, "reflect-") {
		s.node = nodeutil.ReflectChild(root.Interface())
	} else {
		s.node = &nodeutil.Node{Object: root.Interface(), Options: nodeutil.NodeOptions{IgnoreEmpty: true, EnumAsStrings: true, IdentitiesAsStrings: true}}
	}
	return s
}

func (s *structStore) Name() string    { return s.name }
func (s *structStore) Root() node.Node { return s.node }
func (s *structStore) MapLists() bool  { return s.maps }
func (s *structStore) Snapshot(m *meta.Module) *model.Tree {
	return inspectVal(m.DataDefinitions(), s.root)
}

// layout of lists in a generated struct type: map keyed by the first key leaf, slice of struct
// values, or (default) slice of pointers
type layout struct{ maps, vals, embed bool }

func goScalarType(t *meta.Type) reflect.Type {
	switch t.Format().Single() {
	case val.FmtString, val.FmtEnum, val.FmtIdentityRef, val.FmtUnion, val.FmtBinary, val.FmtLeafRef:
		return reflect.TypeOf("")
	case val.FmtBool:
		return reflect.TypeOf(false)
	case val.FmtInt8:
		return reflect.TypeOf(int8(0))
	case val.FmtInt16:
		return reflect.TypeOf(int16(0))
	case val.FmtInt32:
		return reflect.TypeOf(int(0))
	case val.FmtInt64:
		return reflect.TypeOf(int64(0))
	case val.FmtUInt8:
		return reflect.TypeOf(uint8(0))
	case val.FmtUInt16:
		return reflect.TypeOf(uint16(0))
	case val.FmtUInt32:
		return reflect.TypeOf(uint(0))
	case val.FmtUInt64:
		return reflect.TypeOf(uint64(0))
	case val.FmtDecimal64:
		return reflect.TypeOf(float64(0))
	}
	return nil
}

func structTypeFor(defs []meta.Definition, lay layout, name string) reflect.Type {
	maps := lay.maps
	var fields []reflect.StructField
	for _, d := range model.FlatDefs(defs) {
		f := reflect.StructField{Name: nodeutil.MetaNameToFieldName(d.Ident())}
		switch x := d.(type) {
		case *meta.List:
			et := reflect.PointerTo(structTypeFor(x.DataDefinitions(), lay, name+f.Name))
			km := x.KeyMeta()
			if maps && len(km) >= 1 {
				kt := goScalarType(km[0].Type())
				if kt == nil {
					panic("unsupported key type")
				}
				f.Type = reflect.MapOf(kt, et)
			} else if lay.vals {
				f.Type = reflect.SliceOf(et.Elem())
			} else {
				f.Type = reflect.SliceOf(et)
			}
		case meta.HasDataDefinitions:
			f.Type = reflect.PointerTo(structTypeFor(x.DataDefinitions(), lay, name+f.Name))
		case meta.Leafable:
			st := goScalarType(x.Type())
			if st == nil {
				panic(fmt.Sprintf("struct store: unsupported leaf type %v of %s", x.Type().Format(), d.Ident()))
			}
			if x.Type().Format().IsList() {
				st = reflect.SliceOf(st)
			}
			f.Type = st
		default:
			continue
		}
		fields = append(fields, f)
	}
	if lay.embed && len(fields) >= 2 {
		part := reflect.StructOf(fields[1:])
		fields = []reflect.StructField{fields[0], {Name: "Part", Type: part, Anonymous: true}}
	}
	return reflect.StructOf(fields)
}

// Load fills the (empty) Go structs directly from a model tree. Returns false
// when the tree cannot be represented: a zero-valued leaf, or (map lists) two
// entries sharing their first key component.
func (s *structStore) Load(defs []meta.Definition, t *model.Tree) bool {
	fresh := reflect.New(s.root.Type().Elem())
	if !fillStruct(defs, t, fresh.Elem()) {
		return false
	}
	s.root.Elem().Set(fresh.Elem())
	return true
}

func scalarTo(t reflect.Type, v val.Value) (reflect.Value, bool) {
	var raw interface{} = v.Value()
	switch x := v.(type) {
	case val.Enum:
		raw = x.Label
	case val.IdentRef:
		raw = x.Label
	}
	rv := reflect.ValueOf(raw)
	if !rv.Type().ConvertibleTo(t) {
		return reflect.Value{}, false
	}
	if rv.Kind() != reflect.String && t.Kind() == reflect.String {
		return reflect.Value{}, false
	}
	out := rv.Convert(t)
	if out.IsZero() {
		return reflect.Value{}, false
	}
	return out, true
}

func fillStruct(defs []meta.Definition, t *model.Tree, dst reflect.Value) bool {
	for _, d := range model.FlatDefs(defs) {
		id := d.Ident()
		f := dst.FieldByName(nodeutil.MetaNameToFieldName(id))
		switch x := d.(type) {
		case *meta.List:
			l, ok := t.Lists[id]
			if !ok {
				continue
			}
			km := x.KeyMeta()
			if f.Kind() == reflect.Map {
				mp := reflect.MakeMap(f.Type())
				for _, e := range l.Entries {
					kl, ok := e.Leaves[km[0].Ident()]
					if !ok || kl.V == nil {
						return false
					}
					kv, ok := scalarTo(f.Type().Key(), kl.V)
					if !ok || mp.MapIndex(kv).IsValid() {
						return false
					}
					ev := reflect.New(f.Type().Elem().Elem())
					if !fillStruct(x.DataDefinitions(), e, ev.Elem()) {
						return false
					}
					mp.SetMapIndex(kv, ev)
				}
				f.Set(mp)
				continue
			}
			sl := reflect.MakeSlice(f.Type(), 0, len(l.Entries))
			byValue := f.Type().Elem().Kind() == reflect.Struct
			for _, e := range l.Entries {
				st := f.Type().Elem()
				if !byValue {
					st = st.Elem()
				}
				ev := reflect.New(st)
				if !fillStruct(x.DataDefinitions(), e, ev.Elem()) {
					return false
				}
				if byValue {
					sl = reflect.Append(sl, ev.Elem())
				} else {
					sl = reflect.Append(sl, ev)
				}
			}
			f.Set(sl)
		case meta.HasDataDefinitions:
			c, ok := t.Conts[id]
			if !ok {
				continue
			}
			cv := reflect.New(f.Type().Elem())
			if !fillStruct(x.DataDefinitions(), c, cv.Elem()) {
				return false
			}
			f.Set(cv)
		case meta.Leafable:
			lf, ok := t.Leaves[id]
			if !ok {
				continue
			}
			if lf.V == nil {
				return false
			}
			if x.Type().Format().IsList() {
				lv, ok := lf.V.(val.Listable)
				if !ok || lv.Len() == 0 {
					return false
				}
				sl := reflect.MakeSlice(f.Type(), 0, lv.Len())
				for i := 0; i < lv.Len(); i++ {
					ev, ok := scalarToAllowZero(f.Type().Elem(), lv.Item(i))
					if !ok {
						return false
					}
					sl = reflect.Append(sl, ev)
				}
				f.Set(sl)
				continue
			}
			sv, ok := scalarTo(f.Type(), lf.V)
			if !ok {
				return false
			}
			f.Set(sv)
		}
	}
	return true
}

func scalarToAllowZero(t reflect.Type, v val.Value) (reflect.Value, bool) {
	var raw interface{} = v.Value()
	switch x := v.(type) {
	case val.Enum:
		raw = x.Label
	case val.IdentRef:
		raw = x.Label
	}
	rv := reflect.ValueOf(raw)
	if !rv.Type().ConvertibleTo(t) || (rv.Kind() != reflect.String && t.Kind() == reflect.String) {
		return reflect.Value{}, false
	}
	return rv.Convert(t), true
}
