# sourced by every script: offline Go environment
export GOFLAGS=-mod=mod GOPROXY=off GOSUMDB=off GOTOOLCHAIN=local
export GOCACHE=/verif/.cache/go-build
export VERIF_ROOT=/verif
mkdir -p /verif/.cache /verif/.work /verif/bin /verif/evidence /verif/replays
