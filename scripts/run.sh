#!/bin/bash
# usage: run.sh <property-id> quick|thorough     |  run.sh replay <file>
set -u
cd /verif
. scripts/env.sh
scripts/build.sh || exit 2
if [ "$1" = "C20" ]; then
  scripts/build.sh race || exit 2
fi
if [ "$1" = "replay" ]; then
  exec bin/vcheck replay "$2"
fi
if [ "${2:-quick}" = "thorough" ]; then
  # a thorough run that is still enumerating after 90 minutes stops there and reports exhaustive:false
  exec bin/vcheck check "$1" --tier thorough --budget 90m
fi
exec bin/vcheck check "$1" --tier "${2:-quick}"
