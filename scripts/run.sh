#!/bin/bash
# usage: run.sh <property-id> quick|thorough     |  run.sh replay <file>
set -u
cd /verif
. scripts/env.sh
scripts/build.sh || exit 2
if [ "$1" = "C20" ]; then
  scripts/build.sh race || exit 2
fi
if [ "$1" = "replay" ]; then
  exec bin/vcheck replay "$2"
fi
exec bin/vcheck check "$1" --tier "${2:-quick}"
