#!/bin/bash
# seedrun.sh <seed-dir> <tier> <check-id>...
# Applies a seeded change to /repo's working tree, runs the named checks, and undoes it straight afterwards.
# Evidence and replay files written during the run are discarded (they describe a modified tree).
set -u
SEED=$1; TIER=$2; shift 2
cd /verif
[ -z "$(git -C /repo status --porcelain)" ] || { echo "/repo not clean"; exit 2; }
git -C /repo apply "$SEED/patch.diff" || exit 2
trap 'git -C /repo checkout -- . ; git -C /verif checkout -- evidence 2>/dev/null; git -C /verif clean -fdq replays evidence 2>/dev/null' EXIT
for id in "$@"; do
  out=$(scripts/run.sh "$id" "$TIER" 2>&1); rc=$?
  nv=$(echo "$out" | grep -c '^VIOLATION')
  echo "== $id $TIER exit=$rc violations=$nv"
  echo "$out" | grep -E '^(VIOLATION|BUILD-FAILED|HARNESS|    signature:)' | cut -c1-200 | head -8
done
