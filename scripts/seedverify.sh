#!/bin/bash
# seedverify.sh <seed-dir> <demo-dest-relative-path> <go-test-package> [-run regex]
# Confirms in a scratch worktree of /repo (outside /repo and /verif) that a seeded change
#  (1) compiles and passes the repository's whole suite, (2) makes its demonstration fail,
#  (3) whose demonstration passes without it. Prints one line per step; exit 0 only if all three hold.
set -u
. "$(dirname "$0")/env.sh"
SEED=$1; DEST=$2; PKG=$3; shift 3
WT=$(mktemp -d /tmp/seedverify.XXXXXX)
rmdir "$WT"
git -C /repo worktree add --detach -q "$WT" HEAD || exit 2
cleanup() { git -C /repo worktree remove --force "$WT" >/dev/null 2>&1; rm -rf "$WT"; }
trap cleanup EXIT
cd "$WT" || exit 2
DEMO=$(ls "$SEED"/demo* | head -1)
ok=1
git apply "$SEED/patch.diff" || { echo "APPLY-FAILED"; exit 2; }
if go test -vet=off -count=1 ./... >"$WT/.suite.log" 2>&1; then echo "suite-with-change: PASS"; else echo "suite-with-change: FAIL"; grep -E '^(FAIL|---)' "$WT/.suite.log" | head; ok=0; fi
mkdir -p "$(dirname "$DEST")"; cp "$DEMO" "$DEST"
if go test -vet=off -count=1 "$PKG" "$@" >"$WT/.demo1.log" 2>&1; then echo "demo-with-change: PASS (bad)"; ok=0; else echo "demo-with-change: FAIL (good)"; grep -E '^\s+\S+\.go:[0-9]+' "$WT/.demo1.log" | head -3; fi
git apply -R "$SEED/patch.diff"
if go test -vet=off -count=1 "$PKG" "$@" >"$WT/.demo2.log" 2>&1; then echo "demo-without-change: PASS (good)"; else echo "demo-without-change: FAIL (bad)"; tail -5 "$WT/.demo2.log"; ok=0; fi
[ $ok = 1 ] && echo "SEED-CONFIRMED" || echo "SEED-REJECTED"
[ $ok = 1 ]
