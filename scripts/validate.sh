#!/bin/bash
# validates MANIFEST.json and every evidence file against the schemas
cd /verif
python3-vt - <<'PY'
import json,jsonschema,glob
jsonschema.validate(json.load(open('MANIFEST.json')), json.load(open('/root/.vp/MANIFEST.schema.json')))
print('manifest ok')
s=json.load(open('/root/.vp/EVIDENCE.schema.json'))
for f in sorted(glob.glob('evidence/*.json')):
    jsonschema.validate(json.load(open(f)), s); print(f,'ok')
PY
