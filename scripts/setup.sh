#!/bin/bash
# cold build of the framework (offline)
set -eu
cd /verif
. scripts/env.sh
scripts/build.sh
scripts/build.sh race
bin/vcheck list
