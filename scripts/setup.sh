#!/bin/bash
# cold build of the framework (offline)
set -eu
cd /verif
. scripts/env.sh
scripts/build.sh
bin/vcheck list
