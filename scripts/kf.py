#!/usr/bin/env python3
"""kf.py known <prop> <signature> <what_fails> [example]  |  kf.py fixed <prop> <commit> <what_failed>"""
import json, sys
p='/verif/known_findings.json'
d=json.load(open(p))
if sys.argv[1]=='known':
    e={"property":sys.argv[2],"signature":sys.argv[3],"what_fails":sys.argv[4],"status":"known"}
    if len(sys.argv)>5: e["example"]=sys.argv[5]
    d["findings"]=[f for f in d["findings"] if not (f.get("signature")==e["signature"] and f["status"]=="known")]
    d["findings"].append(e)
elif sys.argv[1]=='fixed':
    d["findings"].append({"property":sys.argv[2],"status":"fixed","commit":sys.argv[3],"what_failed":sys.argv[4]})
elif sys.argv[1]=='drop':
    d["findings"]=[f for f in d["findings"] if f.get("signature")!=sys.argv[2]]
d["findings"].sort(key=lambda f:(f["property"],f["status"],f.get("signature","")))
with open(p,'w') as fh:
    fh.write('{"findings": [\n'+",\n".join(" "+json.dumps(f,ensure_ascii=False) for f in d["findings"])+'\n]}\n')
