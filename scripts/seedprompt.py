#!/usr/bin/env python3
"""seedprompt.py <round-dir> : writes <round-dir>/<id>.prompt.md for every property.
The prompt holds only the property's own text (nothing of /verif)."""
import json, sys, os
rd = sys.argv[1]
avoid = json.load(open(sys.argv[2])) if len(sys.argv) > 2 else {}
os.makedirs(rd, exist_ok=True)
for line in open('/verif/properties.jsonl'):
    d = json.loads(line)
    i = d['id']
    wt, out = f'{rd}/{i}', f'{rd}/out/{i}'
    os.makedirs(out, exist_ok=True)
    anchors = d.get('anchors', {})
    mech = json.dumps(anchors.get('mechanism', []), indent=1)
    extra = ''
    if i in avoid:
        extra = f"\nA colleague has already seeded a defect in {avoid[i]}. Choose a DIFFERENT mechanism, preferably in a different file and of a different kind.\n"
    txt = f"""# Task: seed one realistic defect that breaks a stated property of the Go library freeconf/yang

You have your own scratch git worktree of the library at {wt} (a detached checkout; work ONLY there and write your deliverables to {out}/). Do not touch /repo, /verif or any other directory.

Environment (offline sandbox): before any go command run
`export GOFLAGS=-mod=mod GOPROXY=off GOSUMDB=off GOTOOLCHAIN=local`
The library's own test suite is run with `cd {wt} && go test -vet=off -count=1 ./...` (about 30 s) and passes on the unmodified worktree.
Do NOT use `git stash` (the stash is shared between worktrees and other engineers work in parallel): to switch your change off and on use `git diff > /tmp/{i}.patch; git apply -R /tmp/{i}.patch; ...; git apply /tmp/{i}.patch`.

## The property (id {i}): {d['title']}

Statement: {d['statement']}

Quantified over: {d['quantifier']['text']}

Why the existing tests cannot settle it: {d.get('why_tests_cant','')}

Code anchors (files): {', '.join(anchors.get('files', []))}
Mechanisms: {mech}
{extra}
## What to produce

Make ONE small, realistic source change to the library (the kind of slip a maintainer could make in a refactoring or "optimisation": an off-by-one, a condition narrowed or widened, a hoisted buffer or cache, a skipped step on one branch, two sites that each look fine alone...) such that
1. the library still compiles and its ENTIRE existing test suite still passes with the change (run it and check), and
2. the property above is violated, but only when something specific happens - a particular input shape or value, a multi-step sequence of operations, a fault at a particular point, a particular interleaving - NOT something any ordinary use would hit at once.

Then write a demonstration: a Go test file (package of your choice inside the worktree, e.g. a new *_test.go file) or a small main program that FAILS with your change applied and PASSES on the unmodified code. Verify both directions yourself.

Deliverables in {out}/ :
- patch.diff : `git diff` of the library change only (NOT including the demonstration file), applicable with `git apply` at the repository root
- demo_test.go (or demo/main.go) : the demonstration, plus a one-line comment at its top saying where to copy it (path inside the repository) and how to run it
- meta.json : {{"property":"{i}","what_breaks":"...","needs_to_manifest":"...","files_changed":[...],"suite_passes_with_change":true,"demo_fails_with_change":true,"demo_passes_without_change":true,"commands_run":[...]}}

Leave the worktree clean of build output when done (you may leave your change applied or not). Reply with a 5-line summary. If, while reading the code, you notice that the UNMODIFIED library already violates the property somewhere, say where in one extra line.
"""
    open(f'{rd}/{i}.prompt.md', 'w').write(txt)
print('ok')
