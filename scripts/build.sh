#!/bin/bash
# (re)build bin/vcheck from /verif sources against /repo's current working tree
set -u
cd /verif
. scripts/env.sh
cp /repo/go.sum /verif/go.sum 2>/dev/null || true
exec 9>/verif/.work/build.lock
flock 9
if [ "${1:-}" = "race" ]; then
  if ! go build -race -o bin/vcheck-race ./cmd/vcheck 2>/verif/.work/build.err; then
    echo "BUILD-FAILED: /repo (or /verif) does not compile (-race)" >&2
    head -50 /verif/.work/build.err >&2
    exit 2
  fi
  exit 0
fi
if ! go build -o bin/vcheck ./cmd/vcheck 2>/verif/.work/build.err; then
  echo "BUILD-FAILED: /repo (or /verif) does not compile" >&2
  head -50 /verif/.work/build.err >&2
  exit 2
fi
