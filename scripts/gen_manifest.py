#!/usr/bin/env python3
"""Regenerates /verif/MANIFEST.json from the table below (edit the table, not the JSON)."""
import json, sys

ALL = ["C%02d" % i for i in range(1, 21)]

# id -> (level category, engine, technique, level text, level note, design ref)
CLAIMED = {
 "C02": ("exploration", "E1 type-expression enumeration with a reference derivation",
         "bounded exhaustive enumeration of type expression x typedef chain depth x typedef scope x number of grouping uses x leaf/leaf-list x who-states-default/units, each module compiled by the real code and every copy of the leaf compared with a reference RFC 7950 derivation",
         "11 type families (int32/int64/uint8 ranges with min/max and alternatives, string length+pattern, enumeration and bits with explicit 0 and non-monotonic numbering, decimal64, union with typedef and nested members, leafref, identityref with a base chain and a two-base identity, boolean) x chain depth 0..3 where each level adds its own restriction x 6 typedef scopes (module, ancestor container, grouping-local, submodule, imported by prefix, own-prefix-qualified) x 0..3 uses of the enclosing grouping x leaf/leaf-list x 10 patterns of which level states default and units (incl. the leaf itself). quick: each dimension alone plus all pairs of {depth, scope, uses, who-states}; thorough: the full product (about 15,000 modules). Observed per copy: format and list-ness, the set of range/length/pattern restrictions of all levels, enum and bit numbering, union member formats, leafref target format, identity closure, fraction-digits, default and units (nearest typedef, explicit leaf value wins); all copies must agree. Plus every built-in type as leaf, leaf-list and via typedef, and leafref/identityref/shadowing special shapes.",
         "trusted: the generator's expectation (c02Build); leafref typedefs imported from another module are outside the family",
         "DESIGN.md section 7 C02"),
 "C06": ("exploration", "E1 statement/quoting enumeration with the harness' own RFC 7950 6.1.3 evaluator",
         "exhaustive enumeration of statement site x quoting style x text alphabet (and property tables, concatenation counts, comment placements, extension placements, sibling permutations), each module loaded by the real lexer/parser/compiler and every accessor compared with the value the generator wrote",
         "46 text-argument sites on every statement kind x 7 quoting styles (unquoted, single-quoted, double-quoted with each escape, literal line break, concatenation of 2 / mixed quotes / one part per character) x 22 values (quotes, backslashes, ;{}, comment-like text, tab/newline, outer/inner space, keywords, non-ASCII, +, empty); ~90 non-text properties (config incl. inheritance, mandatory, min/max-elements, unbounded, ordered-by, key and unique in 9 spacing/quoting variants, status, defaults, enum values and bit positions with explicit 0 / non-monotonic, fraction-digits, revisions, version, prefix, identity bases, identifiers that start with keywords); concatenations of 2..100 parts with three separators; 8 comment/white-space fillers before every token of a module (dump must be unchanged); extension statements in 4 forms on 19 hosts incl. secondary keywords; all 840 ordered selections of 4 of 7 sibling kinds in 5 parents (textual order kept, uses expanded in place); RFC 7950 6.1.3 indentation stripping; repeated loads give identical dumps.",
         "trusted: the generator's expected values (what it wrote) and model.DumpModule; map-iteration-order dependence is only covered by repeated in-process loads (no controlled map order)",
         "DESIGN.md section 7 C06"),
 "C11": ("exploration", "E1 expression/statement enumeration with a reference evaluator",
         "exhaustive enumeration of if-feature token strings up to a length bound x all 8 feature assignments x guardable statement kinds, and of deviation kind x property x target, each loaded by the real parser/resolver and compared with a reference RFC 7950 evaluator / a differential dump",
         "Every token string of length <= 5 (thorough 7: 2.4 million) over {a,b,c,and,or,not,(,)} is parsed by a reference recursive-descent grammar (RFC 7950 7.20.2); malformed strings (classified: unbalanced, missing operand/operator, leading/trailing operator) must fail the load; valid ones are evaluated under all 2^3 assignments and compared with the presence of the guarded node after a real load (length <= 4) or with IfFeature.Evaluate on the compiled expression (longer). White-space variants (double space, tab, newline, outer space, tight parentheses); every valid expression of <= 3 tokens on 14 guardable statement kinds (leaf, container, list, leaf-list, choice, case, uses, augment, uses-augment, refine, two if-features, anydata, rpc, notification) under allow-list, deny-list and default configurations; own-prefix, imported-prefix and feature-on-feature names. 40 deviations (not-supported on every node kind; add/replace/delete of every property incl. type, unique, must, leaf-list defaults; illegal uses): the canonical accessor dump of the deviated module must differ from the undeviated one in exactly the named property or node, with the exact new value.",
         "trusted: reference parser/evaluator (c11Parse/eval) and the canonical dump (internal/model/dump.go)",
         "DESIGN.md section 7 C11"),
 "C13": ("exploration", "E5 exhaustive request enumeration in crash-proof workers",
         "exhaustive enumeration of request contents over small alphabets (JSON kinds x schema positions, byte prefixes and single-token mutations of JSON/XML documents, all paths / query strings / XPath texts up to a length bound, Go kinds for SetValue), each executed on the real code in worker processes with deadlines",
         "Against a valid schema (all leaf types, nested and compound-key lists, choice, rpc, notification) holding a non-trivial tree: 19 JSON value kinds substituted at 33 positions of a valid document and every byte prefix and single-token deletion/duplication/substitution of valid JSON and XML documents, each used as Upsert, Insert and Update source; every Find path of <= 3 segments over a 46-segment alphabet from two start selections (what is found is then read); every query parameter x 29 values and all pairs, on root, container, list, entry and notification selections; every XPath text of <= 3 (thorough 4) tokens over a 28-token alphabet as where=, filter= and when; SetValue of 40 Go values and kinds on 13 leaf types. Every request runs in a worker process (stack limit, deadline, crash bisected to the single request): no panic, fatal error or hang; a scalar/array where a container is declared, an object/scalar where a list is declared and a non-object list entry must be errors; keys on non-lists and steps below leaves must be errors; the stored tree must be readable afterwards.",
         "trusted: worker protocol; request alphabets listed in evidence bounds; two simultaneous mutations not covered",
         "DESIGN.md section 7 C13"),
 "C14": ("fault_enumeration", "E5 truncation / single-token mutation enumeration in crash-proof workers + E4 opener faults",
         "exhaustive enumeration of truncation points, single-token mutations, parameter sweeps, reference graphs and opener faults, every input loaded by the real parser/compiler in worker processes with deadlines",
         "Corpus = every .yang file in the repository (quick: files up to 700 bytes) plus generated modules covering all statement kinds. For each: every byte prefix; every token deleted, duplicated and substituted by 13 token-class representatives. Sweeps 1..300 of nesting depth (container, list, choice/case, grouping, uses chains, augments), concatenation parts, extension arguments, siblings, identifier length, comments and strings cut at EOF. NUL/non-UTF-8/odd bytes inserted and replaced at every position of a small module. Every reference graph on 3 nodes (64 functions each) for typedefs, groupings (direct and through containers), identities, leafrefs, imports and includes; augment/deviation/leafref/refine/uses-augment targets of every node kind (incl. missing) x 12 deviate forms; ~60 malformed-statement modules; 9 opener behaviours and a reader failing at every 7th byte. Each load runs in a worker process (64 MiB stack limit, 30 s batch deadline, crashes bisected to the single input): the result must be module-or-error, and a returned module must survive a walk over all public accessors and export through the schema browser.",
         "trusted: worker protocol and crash attribution (internal/eng), harness tokenizer; two simultaneous mutations are not covered",
         "DESIGN.md section 7 C14"),
 "C05": ("exploration", "E3 value-domain enumeration through generated modules",
         "exhaustive enumeration of restriction chains x candidate values x write paths, each write executed on the real code and compared with a big-number / anchored-regex reference of membership in the effective type",
         "173 generated modules: for all 8 integer widths and decimal64 every range shape (single value, closed, min/max keywords, alternatives, white space, negative, 64-bit and unsigned extremes) directly and through typedef chains of depth 1-2 that narrow the base; string lengths (incl. multi-byte), single/multiple/inverted/inherited patterns, enumeration names and values, bits, identityref (derived, underived, base, module qualifier), union members with their own restrictions. Candidates are every bound of every level with both neighbours, type extremes and zero (strings of every length 0..6, multi-byte, unknown names). Each is written through 7 paths (Set, SetValue, Upsert/Insert/Update from JSON, Upsert from XML and from a node) into a leaf and into each position of a leaf-list. Accepted iff in the effective type; a rejected write must return an error and leave the store unchanged; no expression may panic.",
         "trusted: reference membership (parseRange/inAlts with math/big, Go regexp anchored as XSD requires, rune counts); XSD regex features beyond RE2 are outside the alphabet",
         "DESIGN.md section 7 C05"),
 "C12": ("fault_enumeration", "E4 deviation-bounded fault enumeration over node callbacks",
         "exhaustive enumeration of fault positions: for each edit scenario every single callback position (thorough: every pair) is made to fail on the real editor; begin/end pairing, recipients, error wrapping and absence of later writes checked on every run",
         "27 scenarios (upsert/insert/update x From/Into x root/container/list/entry/nested entry points x new and existing containers, list entries, nested lists, choice switches that clear leaves, containers and lists, Delete of container/entry/list/nested entry, ReplaceFrom) run over recording wrappers on source and target. Run 0 numbers all callbacks; run k fails exactly callback k with a unique sentinel for every k (quick), and every pair k1<k2 among the calls still made after k1 (thorough). Each run checks: stack-disciplined BeginEdit/EndEdit pairing per node instance with equal flags, notifications only on target nodes inside or above an edit root, errors.Is(API error, sentinel), no write/create/delete after the failing call; the event prefix before the fault must equal run 0.",
         "trusted: recording wrapper (internal/store/rec.go) and reference store; fault model = one (or two) callbacks returning an error, no panics or hangs inside callbacks",
         "DESIGN.md section 7 C12"),
 "C16": ("exploration", "E3 value-domain enumeration through generated modules",
         "exhaustive enumeration of the matrix operand type x literal x operator x operand value x placement, each cell executed on the real when/where/filter machinery and compared with the mathematical truth of the comparison",
         "For 13 operand types (all integer widths signed and unsigned, decimal64, string, boolean, enumeration, identityref), 1-3 literals each, all six operators and operand values {unset, literal-1, literal, literal+1, type minimum, type maximum}: a module is generated and loaded, and the condition is exercised as when on a leaf (read and edit), when on a container, when on a list, where= on a list and filter= on a notification stream. Visibility / written-ness / kept entries / delivered events must equal the truth of the comparison computed with math/big, code points, enum name (=, !=) or value (order) and boolean truth; an unset operand must make every comparison false without error or panic. The matrix is finite and enumerated completely; expressions the XPath subset rejects at parse time (negative literals) are skipped and counted.",
         "trusted: reference truth function c16Truth; context rule taken from the library's own tests (container/list when: inside the node; leaf when: in the parent)",
         "DESIGN.md section 7 C16"),
 "C08": ("model_checking", "E2 enumeration over nodes x start selections x path variants",
         "bounded exhaustive enumeration of every node of the data trees x start selection x path variant, each Find executed on the real code over a recording store and checked for identity, typed keys, content, render-back and absence of writes",
         "For every container, list, list entry and leaf of a tree holding 14 string keys with reserved characters (/ , = % space + .. ? # %41, non-ASCII, empty), int32/enumeration/boolean keys and compound-key lists nested in lists: Find from the root (plain, module-qualified, trailing slash, with query), from every non-list ancestor, and through ../ steps from three other nodes. The selection must be on exactly the addressed schema node (pointer identity) with typed keys and the model subtree as content, the rendered Path must find the same node again, absent keys/containers must give (nil, nil), unknown names a not-found error, and the recording store must see no write or edit callback.",
         "trusted: harness percent-encoding of path segments (everything but unreserved characters is %XX-encoded); a raw '+' in a path is not used",
         "DESIGN.md section 7 C08"),
 "C07": ("model_checking", "E2 enumeration over trees x targets x parameter values",
         "bounded exhaustive enumeration of data trees, target selections and query parameter values (and pairs), each constrained read executed on the real code and compared with the projection computed by a reference model from the unconstrained tree",
         "For two full trees (lists of 4 entries, nested lists of 3, config/non-config mix, defaults) and every generated tree to the size bound, from every target selection present (root, containers, lists, entries): every content value, every depth 1..schema depth+2, every fields and fc.xfields expression over the schema paths below the target (single, multi-segment, alternatives, grouped, nested groups, unknown names, malformed brackets), with-defaults, every fc.range window 0<=s<=e<=n+1 and open-ended on top-level and nested lists, fc.max-node-count 0..containers+1, the invalid values of each, and all pairs of parameters; applied through Selection.Constrain and Find(path?query). The read is captured by a reference store and must equal the model projection (intersection for pairs), one end-row convention must explain all windows, invalid values must be errors, unknown/malformed field expressions must not panic, and the source data must be unchanged.",
         "trusted: reference projection model (internal/model/project.go) with the conventions of DESIGN.md 4a (list and entry count as one level; an entry keeps its key; empty containers left by a filter are compared as absent)",
         "DESIGN.md sections 4a and 7 C07"),
 "C19": ("model_checking", "E2 enumeration over data trees and input interleavings",
         "bounded exhaustive enumeration of trees/text alphabets through both real XML writers and the XML reader, plus every order-preserving interleaving of sibling elements on input, compared with the tree",
         "Every tree up to the size bound over three structural schemas, lists of 0..5 entries and an all-types baseline with each leaf over its value alphabet (XML-hostile text: markup characters, quotes, CDATA terminator, outer/inner whitespace, tab/newline/CR, non-ASCII, non-BMP) is written by XMLWtr2 (compact and pretty) and the streaming XMLWtr; the output must be a single-root well-formed document for encoding/xml and must read back through ReadXMLDoc + UpsertFrom to the same tree. Harness-rendered documents are permuted into every interleaving of sibling elements that keeps the order within each list/leaf-list (top level, inside a list entry, inside a container) and each must read to the same tree.",
         "trusted: encoding/xml as the well-formedness oracle, the harness XML renderer; characters XML 1.0 cannot carry are outside the alphabet; augmenting modules (namespace changes) not yet covered",
         "DESIGN.md section 7 C19"),
 "C15": ("model_checking", "E2 enumeration over data trees + E4 stream-fault enumeration",
         "bounded exhaustive enumeration of trees x writer configurations x start selections on the real JSON writer, output decoded by encoding/json and compared with the tree; every failing byte position of the output stream enumerated",
         "Every tree up to the size bound over three structural schemas, lists of 0..5 entries, per-type boundary alphabets over an all-types schema and nesting depths 1..70, written under all 8 Pretty/EnumAsIds/QualifyNamespace configurations from every start selection present (root, container, list, list entry, leaf, leaf-list) and through 5 entry functions; the output must decode as exactly one JSON value followed by EOF whose members, shapes, qualification and typed values equal the tree, pretty and compact must decode equal, and for every byte position k an output stream failing at k (plain and short write) must surface as an error.",
         "trusted: encoding/json as the well-formedness oracle, harness comparison jsonCmp; RFC 7951 qualification is checked strictly only for root start selections in a single-module schema (the statement is silent for other starts)",
         "DESIGN.md section 7 C15"),
 "C04": ("model_checking", "E2 explicit-state enumeration over data trees",
         "bounded exhaustive enumeration of data trees and per-type value alphabets, each exported through a recording node and round-tripped through the real JSON writer and reader, compared with the tree itself",
         "Every conforming tree up to the size bound over three structural schemas (containers, defaults, nested and compound-key lists, leaf-lists, flat/nested/in-list choices), lists of 0..5 entries in both key orders, and a baseline tree over an all-types schema with each of 23 leaves ranging over the full boundary alphabet of its type (strings: quotes, backslash, control characters, U+2028, non-BMP; 64-bit extremes; decimal64; bits; identityref; empty; binary; union; leaf-lists). Each tree, held by each of three source node implementations, is exported with UpsertInto into a recording reference node - the write events must be exactly the pre-order walk (once each, schema order, entries in source order, only schema defaults extra) - and written as JSON under five writer configurations, read back by the library's reader and written again (equal tree, identical text).",
         "trusted: harness tree model and recording node, direct loaders/inspectors of the Go map stores; map-backed sources are compared order-insensitively and without compound-key lists (they index by the first key only)",
         "DESIGN.md section 7 C04"),
 "C09": ("model_checking", "E2 explicit-state search over the data API",
         "explicit-state BFS over upsert histories that alternate between choice cases, on the real editor and stores, with an exclusivity invariant and a reference model checked in every state",
         "Breadth-first search over every sequence (to the depth bound, deduplicated on the directly inspected store content) of upserts that populate one case of a flat, shorthand, nested or in-list choice (each member alone and together), on the reference store, Reflect map and nodeutil.Node map, from JSON and node sources. After every transition: at most one case per choice holds data (computed on the inspected Go data, not through the library), the result equals the reference model (other cases cleared recursively, outside untouched) and the library's own read reports exactly the stored nodes.",
         "trusted: reference merge model with case clearing, direct inspectors; depth bound in evidence; choices in rpc input not covered",
         "DESIGN.md section 7 C09"),
 "C18": ("model_checking", "E2 explicit-state search over the data API",
         "explicit-state BFS over insert/upsert/replace/delete histories addressed by list keys on the real stores, compared with a reference model after every transition",
         "Breadth-first search over histories of 21 operations (upsert/insert/delete/replace of entries by key, nested entries, containers, whole lists) from three initial trees on five store layouts (reference store, Reflect and nodeutil.Node over maps, and over slices, plus a no-deduplication full history tree for slice-backed stores because of backing-array aliasing). After every transition the directly inspected store must equal the reference model (exact subtree removal, exact replacement content, no duplicate keys) and Find of every alphabet key must agree with the model in presence and content.",
         "trusted: reference model, direct inspectors; position of a replaced entry within its list is left open by the statement and compared order-insensitively; struct-backed stores not covered yet",
         "DESIGN.md section 7 C18"),
 "C03": ("model_checking", "E2 explicit-state search over the data API",
         "explicit-state BFS over edit histories plus exhaustive (S,T) pair enumeration on the real editor, every transition compared with a keyed-deep-merge reference model",
         "All pairs (S,T) of conforming trees with |S|+|T| <= B over two schemas (containers, defaults, nested and compound-key lists, leaf-lists) x 3 strategies x From/Into x root/container/list/entry entry points x {reference store, Reflect map, nodeutil.Node map} x {reference, JSON} sources, plus breadth-first search over operation sequences from the empty store deduplicated on the directly inspected store content; each edit runs on the real library and result, error class (errors.Is conflict/not-found) and untouched paths are compared with the reference merge model.",
         "trusted: the reference merge model (internal/model/merge.go), the direct inspectors of the Go map stores, encoding/json; bounds in evidence; behaviours the statement leaves open (entry order of map-backed lists, insert into an existing-but-empty list) are not enumerated",
         "DESIGN.md sections 4a and 7 C03"),
 "C10": ("exploration", "E3 value-domain enumeration",
         "bounded exhaustive enumeration of the product target format x source Go kind x boundary value, each conversion run on the real code and compared with an exact big.Rat/text reference",
         "The full product of 13 target formats (scalar and list) x 20 source Go kinds x the boundary value set of each kind (type extremes, +-1 beyond, 2^31, 2^32, 2^53, 2^63, 2^64, -0.0, fractions, non-finite floats, numeric strings with signs/spaces/exponents) is converted by the real val.Conv/ConvOneOf (and node.NewValue for schema-aware types); a success must denote exactly the source number/text/bool. Complete within the stated sets, which contain every boundary at which a fixed-width conversion can wrap, truncate or saturate.",
         "trusted: math/big, strconv as reference; decimal64's carrier is float64 so 'same number' is the nearest float64; errors are always accepted (the statement allows failing)",
         "DESIGN.md section 7 C10"),
 "C17": ("exploration", "E3 value-domain enumeration",
         "bounded exhaustive enumeration of value pairs/triples and keyed-list contents against a math/big reference order",
         "Every ordered pair and triple of all 256 int8/uint8 values and of boundary sets of every wider comparable type is run through the real Compare/Equal/CompareVals and compared with the arbitrary-precision order; keyed lookups over every small list content on each list implementation. Complete within the stated value sets; order laws are universally quantified over value pairs, so exhaustive 8-bit domains plus boundary sets is the right level.",
         "trusted: math/big and strings.Compare as reference order; value sets listed in evidence bounds; values outside the boundary sets of 16..64-bit types are not covered",
         "DESIGN.md section 7 C17"),
}

NOT_YET = "check not built yet in this session (design exists in DESIGN.md section 7); not claimed until its quick check is silent on the unchanged tree"

def main():
    checks = []
    for pid in ALL:
        if pid not in CLAIMED:
            continue
        cat, engine, tech, text, note, ref = CLAIMED[pid]
        checks.append({
            "property_id": pid,
            "quick_cmd": "scripts/run.sh %s quick" % pid,
            "thorough_cmd": "scripts/run.sh %s thorough" % pid,
            "evidence_file": "evidence/%s.json" % pid,
            "replay_cmd_template": "scripts/run.sh replay {path}",
            "engine": engine,
            "level_claimed": {"category": cat, "text": text, "design_ref": ref},
            "level_note": note,
            "technique": tech,
        })
    m = {
        "version": 1,
        "setup_cmd": "scripts/setup.sh",
        "hooks": {
            "guard": "verif",
            "enable": "no source hooks in /repo: checks build cmd/vcheck of the /verif module against /repo's working tree (go.mod replace => /repo); seams are harness-owned node.Node / io.Writer / io.Reader / source.Opener objects",
            "baseline_off_cmd": "cd /repo && GOFLAGS=-mod=mod GOPROXY=off GOSUMDB=off GOTOOLCHAIN=local go test -vet=off -count=1 ./...",
            "source_commits": [],
            "add_only": True,
        },
        "engines": [
            {"name": "vcheck", "path": "cmd/vcheck", "serves_properties": sorted(CLAIMED),
             "kind_free_text": "hand-written bounded exhaustive explorer in Go (case enumerator, explicit-state BFS over the real data API with reference models, fault-position enumerator, cooperative scheduler, crash-proof worker processes); runs the real library code for every case"},
        ],
        "checks": checks,
        "notes": "Exit codes: 0 held (KNOWN-FINDING lines possible), 1 VIOLATION, 2 harness/build error. Known findings: known_findings.json. See DESIGN.md.",
        "not_applicable": [{"property_id": p, "reason": NOT_YET} for p in ALL if p not in CLAIMED],
    }
    json.dump(m, open("/verif/MANIFEST.json", "w"), indent=1)
    print("claimed:", sorted(CLAIMED))

main()
