module verif

go 1.20

require github.com/freeconf/yang v0.0.0

replace github.com/freeconf/yang => /repo
