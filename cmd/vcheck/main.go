// vcheck: driver for the bounded-exhaustive checks.
//
//	vcheck check <id> [--tier quick|thorough] [--discover]
//	vcheck worker <id>
//	vcheck replay <file>
//	vcheck list
package main

import (
	"fmt"
	"os"
	"strconv"
	"time"

	"verif/internal/eng"
	_ "verif/internal/props"
)

func main() {
	if len(os.Args) < 2 {
		fmt.Fprintln(os.Stderr, "usage: vcheck check|worker|replay|list ...")
		os.Exit(2)
	}
	if r := os.Getenv("VERIF_ROOT"); r != "" {
		eng.Root = r
	}
	self, _ := os.Executable()
	switch os.Args[1] {
	case "list":
		for _, id := range eng.IDs() {
			fmt.Println(id)
		}
	case "racechild":
		// free-running pass of the C20 thread bodies (this binary is built with -race)
		eng.Lookup("C20").Run([]byte(`{"part":"race-child"}`))
	case "worker":
		os.Exit(eng.WorkerMain(os.Args[2]))
	case "replay":
		os.Exit(eng.Replay(os.Args[2], self))
	case "check", "discover":
		id := os.Args[2]
		p := eng.Lookup(id)
		if p == nil {
			fmt.Fprintf(os.Stderr, "unknown property %s\n", id)
			os.Exit(2)
		}
		o := eng.Options{Tier: "quick", Self: self, Discover: os.Args[1] == "discover"}
		if t := os.Getenv("VERIF_TIER"); t == "quick" || t == "thorough" {
			o.Tier = t
		}
		for i := 3; i < len(os.Args); i++ {
			switch os.Args[i] {
			case "--tier":
				i++
				o.Tier = os.Args[i]
			case "--discover":
				o.Discover = true
			case "--workers":
				i++
				o.Workers, _ = strconv.Atoi(os.Args[i])
			case "--budget":
				i++
				o.Budget, _ = time.ParseDuration(os.Args[i])
			default:
				if os.Args[i] == "quick" || os.Args[i] == "thorough" {
					o.Tier = os.Args[i]
				}
			}
		}
		if s := os.Getenv("VERIF_SEED"); s != "" {
			o.Seed, _ = strconv.ParseInt(s, 10, 64)
		}
		os.Exit(eng.RunCheck(p, o))
	default:
		fmt.Fprintln(os.Stderr, "unknown command")
		os.Exit(2)
	}
}
